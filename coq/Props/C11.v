(* C11 property theorems: statements only, each closed by `exact`, Print Assumptions beneath.

   Models: Index/NumpySpec.v (Python slice.indices, range, integer indexing; NumPy indexing as per-axis
   views), Index/OnnxSlice.v (ONNX Slice/Squeeze/Gather from the operator documents),
   Index/ConverterIdx.v (_translate_subscript_expr), Index/EagerIdx.v (Tensor.__getitem__).
   `fx` = false is the code at the pinned commit, true the Gather renumbering of
   proposed_fixes/C11_gather_axis_after_removed_axis.diff; the harness determines on every run which of
   the two the code under /repo is (correspondence of emitted ops and results).

   Not covered by a general theorem: index tuples with tensor-valued components beyond the refutations and
   the bounded check below; tensor indices of rank >= 2; NumPy results that are not per-axis views (two or
   more 1-D arrays, scalar and 1-D array split by a slice) -- those are compared with NumPy itself by the
   harness only. *)
From Coq Require Import ZArith List Bool.
Import ListNotations.
Require Import OV.Index.NumpySpec OV.Index.OnnxSlice OV.Index.ConverterIdx OV.Index.EagerIdx
               OV.Index.SliceProofs OV.Index.ViewProofs.
Open Scope Z_scope.

(* ---- one axis: every dimension d >= 0, every start/stop/step (any integers, omitted, tensor-valued) ---- *)

(* the Slice the converter emits selects exactly Python's positions, outside the corner below
   (step 0 included: both sides fail) *)
Theorem C11_converter_slice_axis : forall d a b s,
  0 <= d <= MAXI -> conv_bounds a b s <> None ->
  neg_start_hazard d (bval a) (bval b) (bval s) = false ->
  conv_slice d a b s = py_slice d (bval a) (bval b) (bval s).
Proof. exact conv_slice_eq_python. Qed.
Print Assumptions C11_converter_slice_axis.

(* the corner (negative step, start < -d, stop omitted or < -d): ONNX yields element 0, Python nothing *)
Theorem C11_converter_slice_axis_corner : forall d a b s,
  0 <= d <= MAXI -> conv_bounds a b s <> None ->
  neg_start_hazard d (bval a) (bval b) (bval s) = true ->
  conv_slice d a b s = Some [0] /\ py_slice d (bval a) (bval b) (bval s) = Some [].
Proof. exact conv_slice_hazard. Qed.
Print Assumptions C11_converter_slice_axis_corner.

Theorem C11_eager_slice_axis : forall d a b s,
  0 <= d -> neg_start_hazard d (bval a) (bval b) (bval s) = false ->
  eager_slice d a b s = py_slice d (bval a) (bval b) (bval s).
Proof. exact eager_slice_eq_python. Qed.
Print Assumptions C11_eager_slice_axis.

Theorem C11_eager_slice_axis_corner : forall d a b s,
  0 <= d -> neg_start_hazard d (bval a) (bval b) (bval s) = true ->
  eager_slice d a b s = Some [0] /\ py_slice d (bval a) (bval b) (bval s) = Some [].
Proof. exact eager_slice_hazard. Qed.
Print Assumptions C11_eager_slice_axis_corner.

(* a scalar index i as Slice(i, i+1): the one position NumPy selects, for every valid i except -1 ... *)
Theorem C11_scalar_as_slice : forall d i p, 0 <= d -> py_int d i = Some p -> i <> -1 ->
  onnx_slice d i (i + 1) 1 = Some [p].
Proof. exact scalar_as_slice_ok. Qed.
Print Assumptions C11_scalar_as_slice.

(* ... -1 gives the empty slice -1:0 (Squeeze then fails: an error, never a wrong element) ... *)
Theorem C11_scalar_minus1_as_slice : forall d, 0 <= d -> onnx_slice d (-1) 0 1 = Some [].
Proof. exact scalar_as_slice_minus1. Qed.
Print Assumptions C11_scalar_minus1_as_slice.

(* ... and so does an index NumPy rejects *)
Theorem C11_scalar_out_of_bounds_as_slice : forall d i, 0 <= d -> py_int d i = None ->
  onnx_slice d i (i + 1) 1 = Some [].
Proof. exact scalar_as_slice_out_of_bounds. Qed.
Print Assumptions C11_scalar_out_of_bounds_as_slice.

(* ---- n axes, any rank, any shape: constant ints, slices, ':' (no tensor-valued index component) ---- *)

(* whatever the converted graph returns is NumPy's result (never a different tensor) *)
Theorem C11_converter_basic_sound : forall fx shape idx v,
  dims_ok shape -> tensor_free idx = true -> (length idx <= length shape)%nat ->
  hazard_free shape idx = true ->
  run_conv fx shape idx = Some v -> np_index shape idx = Some v.
Proof. exact conv_basic_sound. Qed.
Print Assumptions C11_converter_basic_sound.

(* and it does return it (no error) unless the constant -1 goes through Slice + Squeeze *)
Theorem C11_converter_basic_complete : forall fx shape idx v,
  dims_ok shape -> tensor_free idx = true ->
  hazard_free shape idx = true -> conv_accepts idx = true -> conv_minus1_ok idx = true ->
  np_index shape idx = Some v -> run_conv fx shape idx = Some v.
Proof. exact conv_basic_complete. Qed.
Print Assumptions C11_converter_basic_complete.

(* eager: the same with rank-0 tensor-valued indices included (no rank-1 tensor index) *)
Theorem C11_eager_basic_sound : forall fx shape idx v,
  dims_nat shape -> t1_free idx = true -> (length idx <= length shape)%nat ->
  hazard_free shape idx = true ->
  run_eager fx shape idx = Some v -> np_index shape idx = Some v.
Proof. exact eager_basic_sound. Qed.
Print Assumptions C11_eager_basic_sound.

Theorem C11_eager_basic_complete : forall fx shape idx v,
  dims_nat shape -> t1_free idx = true ->
  hazard_free shape idx = true -> eager_minus1_ok idx = true ->
  np_index shape idx = Some v -> run_eager fx shape idx = Some v.
Proof. exact eager_basic_complete. Qed.
Print Assumptions C11_eager_basic_complete.

(* ---- tensor-valued indices ---- *)

(* exactly one tensor-valued index (rank 0 or 1) among slices and no constant int -- the documented A[i], A[:, i],
   A[i:i+j, k]: whatever the graph returns is NumPy's result, with either Gather numbering
   (completeness, i.e. absence of errors, is not proved for this class: partial) *)
Theorem C11_converter_one_tensor_index_sound_partial : forall fx shape idx v,
  dims_ok shape -> one_tensor_no_int idx = true -> (length idx <= length shape)%nat ->
  hazard_free shape idx = true ->
  run_conv fx shape idx = Some v -> np_index shape idx = Some v.
Proof. exact conv_one_tensor_sound. Qed.
Print Assumptions C11_converter_one_tensor_index_sound_partial.

(* the full statement fails at the pinned commit *)
Definition C11_converter_full : bool -> Prop := converter_full.
Definition C11_eager_full : bool -> Prop := eager_full.

(* X[i, j], i and j rank-0 tensors, shape (2,3,4): the graph returns [14,18,22], NumPy [20,21,22,23] *)
Theorem C11_converter_full_pinned_refuted : ~ C11_converter_full false.
Proof. exact converter_full_pinned_refuted. Qed.
Print Assumptions C11_converter_full_pinned_refuted.

(* eager X[-1, J], J a rank-1 tensor, shape (2,4,4) *)
Theorem C11_eager_full_pinned_refuted : ~ C11_eager_full false.
Proof. exact eager_full_pinned_refuted. Qed.
Print Assumptions C11_eager_full_pinned_refuted.

(* partial: the proposed renumbering agrees with the in-place view on a finite family only (820 index tuples
   of length <= 3 over 9 components x 27 shapes); the general statement C11_*_full true is not proved *)
Theorem C11_fixed_variant_bounded_partial :
  forallb (fun shape => forallb (fun idx =>
     oview_eqb (run_conv true shape idx) (np_index shape idx) && oview_eqb (run_eager true shape idx) (np_index shape idx))
     (tuples 3)) shapes3 = true.
Proof. exact fixed_variant_bounded. Qed.
Print Assumptions C11_fixed_variant_bounded_partial.
