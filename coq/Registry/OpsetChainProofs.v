(* C17 -- the generator theorem for whole registries (Registry/OpsetChain.v): for every well-formed registry,
   resolving `opsetN.Op` through the emitted class chain yields the method emitted from the schema that
   onnx.defs.get_schema defines for Op at N (greatest since_version <= N), and the emitted classes pass the
   registry test. *)
From Coq Require Import List String ZArith Bool Lia.
Import ListNotations.
Require Import OV.Registry.OpsetMethod OV.Registry.OpsetMethodProofs OV.Registry.OpsetEmit OV.Registry.OpsetEmitProofs
               OV.Registry.OpsetChain.
Local Open Scope string_scope.
Local Open Scope list_scope.

(* ------------------------------------------------------------------ small list facts *)

Lemma existsb_false {A} (f : A -> bool) : forall l, existsb f l = false -> forall x, In x l -> f x = false.
Proof.
  induction l as [|a t IH]; cbn; intros E x I; [tauto|].
  apply orb_false_iff in E as [E1 E2]. destruct I as [->|I]; auto.
Qed.

Lemma find_all_false {A} (p : A -> bool) : forall l, (forall x, In x l -> p x = false) -> find p l = None.
Proof.
  induction l as [|a t IH]; cbn; intros H; auto.
  rewrite (H a (or_introl eq_refl)). apply IH. intros; apply H; auto.
Qed.

Lemma find_app' {A} (p : A -> bool) : forall l1 l2,
  find p (l1 ++ l2) = match find p l1 with Some x => Some x | None => find p l2 end.
Proof. induction l1 as [|a t IH]; cbn; intros; auto. destruct (p a); auto. Qed.

Lemma key_eqb_eq : forall a b, key_eqb a b = true <-> a = b.
Proof.
  intros [a1 a2] [b1 b2]; unfold key_eqb; cbn. rewrite andb_true_iff, String.eqb_eq, Z.eqb_eq.
  split; [intros [-> ->]; auto|inversion 1; auto].
Qed.

Lemma key_mem_In : forall k l, key_mem k l = true <-> In k l.
Proof.
  intros k l. unfold key_mem. rewrite existsb_exists. split.
  - intros [x [I E]]. apply key_eqb_eq in E. subst; auto.
  - intros I. exists k. split; auto. apply key_eqb_eq; auto.
Qed.

(* ------------------------------------------------------------------ unique registry keys *)

Lemma uniq_keys_eq : forall reg, uniq_keysb reg = true ->
  forall a b, In a reg -> In b reg ->
    s_name a = s_name b -> s_domain a = s_domain b -> s_since a = s_since b -> a = b.
Proof.
  induction reg as [|s t IH]; cbn; intros U a b Ia Ib E1 E2 E3; [tauto|].
  apply andb_true_iff in U as [U1 U2]. apply negb_true_iff in U1.
  destruct Ia as [<-|Ia], Ib as [<-|Ib]; auto.
  - exfalso. pose proof (existsb_false _ _ U1 b Ib) as H.
    assert (has_key (s_name s) (s_since s) (s_domain s) b = true) by (apply has_key_spec; auto). congruence.
  - exfalso. pose proof (existsb_false _ _ U1 a Ia) as H.
    assert (has_key (s_name s) (s_since s) (s_domain s) a = true) by (apply has_key_spec; auto). congruence.
Qed.

(* get_schema at a schema's own key returns that schema *)
Lemma resolve_exact : forall reg s, uniq_keysb reg = true -> In s reg ->
  resolve reg (s_name s) (s_since s) (s_domain s) = Some s.
Proof.
  intros reg s U I.
  destruct (resolve_total reg (s_name s) (s_since s) (s_domain s) s) as [s' R]; auto; try lia.
  destruct (resolve_spec _ _ _ _ _ R) as [I' [E1 [E2 [LE MAX]]]].
  specialize (MAX s I eq_refl eq_refl ltac:(lia)).
  rewrite R. f_equal. eapply uniq_keys_eq; eauto. lia.
Qed.

Lemma best_since_exact : forall reg s, uniq_keysb reg = true -> In s reg ->
  best_since reg (s_name s) (s_since s) (s_domain s) = Some (s_since s).
Proof.
  intros reg s U I. pose proof (resolve_exact reg s U I) as R. unfold resolve in R.
  destruct (best_since reg (s_name s) (s_since s) (s_domain s)) as [k|]; [|discriminate].
  apply find_some in R as [_ K]. apply has_key_spec in K as [_ [_ K]]. congruence.
Qed.

Lemma best_since_ext : forall reg name N N' dom,
  (forall s, In s reg -> matches name N dom s = matches name N' dom s) ->
  best_since reg name N dom = best_since reg name N' dom.
Proof.
  induction reg as [|s t IH]; cbn; intros name N N' dom H; auto.
  rewrite (H s (or_introl eq_refl)). rewrite (IH name N N' dom); auto.
Qed.

(* no schema of (name, dom) with since_version exactly N+1: get_schema at N+1 is get_schema at N *)
Lemma resolve_step : forall reg name dom N,
  (forall s, In s reg -> has_key name (N + 1) dom s = false) ->
  resolve reg name (N + 1) dom = resolve reg name N dom.
Proof.
  intros reg name dom N H. unfold resolve.
  rewrite (best_since_ext reg name (N + 1) N dom); auto.
  intros s I. specialize (H s I). unfold has_key in H. unfold matches.
  destruct (String.eqb (s_name s) name); cbn in *; auto.
  destruct (String.eqb (s_domain s) dom); cbn in *; auto.
  destruct (Z.leb_spec (s_since s) (N + 1)), (Z.leb_spec (s_since s) N), (Z.eqb_spec (s_since s) (N + 1)); auto; try lia; discriminate.
Qed.

Lemma resolve_none_below : forall reg name dom N,
  forallb (fun s => Z.leb 1 (s_since s)) reg = true -> (N <= 0)%Z -> resolve reg name N dom = None.
Proof.
  intros reg name dom N W L. destruct (resolve reg name N dom) as [s|] eqn:R; auto.
  destruct (resolve_spec _ _ _ _ _ R) as [I [_ [_ [LE _]]]].
  rewrite forallb_forall in W. specialize (W s I). apply Z.leb_le in W. lia.
Qed.

(* ------------------------------------------------------------------ the chain of one domain *)

(* versions n, n-1, ..., 1 *)
Fixpoint down (n : nat) : list Z := match n with O => [] | S m => Z.of_nat (S m) :: down m end.

Lemma down_bounds : forall n x, In x (down n) -> (1 <= x <= Z.of_nat n)%Z.
Proof.
  induction n as [|m IH]; cbn [down]; intros x I; [destruct I|].
  destruct I as [<-|I]; [lia|]. specialize (IH x I). lia.
Qed.

Lemma down_NoDup : forall n, NoDup (down n).
Proof.
  induction n as [|m IH]; cbn [down]; constructor; auto.
  intro I. apply down_bounds in I. lia.
Qed.

Lemma down_length : forall n, List.length (down n) = n.
Proof. induction n; cbn [down List.length]; auto. Qed.

Lemma map_pair_NoDup {A B} (d : A) : forall l : list B, NoDup l -> NoDup (map (pair d) l).
Proof.
  induction 1; cbn; constructor; auto.
  intro I. apply in_map_iff in I as [y [E I]]. inversion E; subst; auto.
Qed.

Section Chain.
  Variable skip : schema -> bool.
  Variable excl : list ckey.
  Variable reg : list schema.
  Hypothesis WF : reg_wfb skip excl reg = true.

  Let keys := class_keys skip excl reg.
  Let cs := emit_classes skip excl reg.

  Lemma wf_parts :
    forallb schema_wfb reg = true /\ uniq_keysb reg = true /\ forallb (fun s => Z.leb 1 (s_since s)) reg = true /\
    NoDup (map c_name cs) /\ chain_okb keys = true /\ forallb (fun k => Z.leb 1 (snd k)) keys = true.
  Proof.
    unfold reg_wfb in WF. rewrite !andb_true_iff in WF.
    destruct WF as [[[[[A B] C] D] E] F]. repeat split; auto. apply nodupb_NoDup; auto.
  Qed.

  Lemma keys_NoDup : NoDup keys.
  Proof.
    destruct wf_parts as [_ [_ [_ [D _]]]]. unfold cs, emit_classes in D. rewrite map_map in D.
    apply NoDup_map_inv in D. exact D.
  Qed.

  Lemma find_class_nodup : forall (l : list cls) c, NoDup (map c_name l) -> In c l -> find_class l (c_name c) = Some c.
  Proof.
    induction l as [|c0 t IH]; cbn; intros c N I; [tauto|].
    inversion N as [|? ? N1 N2]; subst.
    destruct I as [->|I]; [rewrite String.eqb_refl; auto|].
    destruct (String.eqb (c_name c0) (c_name c)) eqn:E; auto.
    apply String.eqb_eq in E. exfalso. apply N1. rewrite E. apply in_map; auto.
  Qed.

  Lemma find_emitted : forall k, In k keys -> find_class cs (class_name (fst k) (snd k)) = Some (emit_class skip reg k).
  Proof.
    intros k I. destruct wf_parts as [_ [_ [_ [D _]]]].
    change (class_name (fst k) (snd k)) with (c_name (emit_class skip reg k)).
    apply find_class_nodup; auto. unfold cs, emit_classes. apply in_map; auto.
  Qed.

  Lemma chain_prev : forall d N, In (d, N) keys -> (1 < N)%Z -> In (d, (N - 1)%Z) keys.
  Proof.
    intros d N I L. destruct wf_parts as [_ [_ [_ [_ [C _]]]]].
    unfold chain_okb in C. rewrite forallb_forall in C. specialize (C _ I). cbn in C.
    apply orb_true_iff in C as [C|C]; [apply Z.leb_le in C; lia|]. apply key_mem_In in C; auto.
  Qed.

  Lemma chain_down : forall d m, In (d, Z.of_nat (S m)) keys -> forall v, In v (down (S m)) -> In (d, v) keys.
  Proof.
    induction m as [|m IH]; intros I v Iv.
    - cbn in Iv. destruct Iv as [<-|[]]. exact I.
    - cbn [down] in Iv. destruct Iv as [<-|Iv]; [exact I|].
      apply IH; auto.
      replace (Z.of_nat (S m)) with (Z.of_nat (S (S m)) - 1)%Z by lia. apply chain_prev; auto. lia.
  Qed.

  Lemma chain_length : forall d m, In (d, Z.of_nat (S m)) keys -> (S m <= List.length cs)%nat.
  Proof.
    intros d m I. unfold cs, emit_classes. rewrite map_length.
    rewrite <- (down_length (S m)). rewrite <- (map_length (pair d)).
    apply NoDup_incl_length.
    - apply map_pair_NoDup. apply down_NoDup.
    - intros x Ix. apply in_map_iff in Ix as [v [<- Iv]]. eapply chain_down; eauto.
  Qed.

  (* the method resolution order of the emitted class (d, N): the classes of versions N, N-1, ..., 1 *)
  Lemma mro_emitted : forall d m fuel, In (d, Z.of_nat (S m)) keys -> (m <= fuel)%nat ->
    mro fuel cs (emit_class skip reg (d, Z.of_nat (S m))) =
    Some (map (fun v => emit_class skip reg (d, v)) (down (S m))).
  Proof.
    induction m as [|m IH]; intros fuel I L.
    - destruct fuel; reflexivity.
    - destruct fuel as [|f]; [lia|].
      assert (In (d, Z.of_nat (S m)) keys) as Ip.
      { replace (Z.of_nat (S m)) with (Z.of_nat (S (S m)) - 1)%Z by lia. apply chain_prev; auto. lia. }
      cbn [mro]. unfold emit_class at 1. cbn [c_base fst snd].
      destruct (Z.leb_spec (Z.of_nat (S (S m))) 1) as [H|H]; [lia|].
      replace (Z.of_nat (S (S m)) - 1)%Z with (Z.of_nat (S m)) by lia.
      pose proof (find_emitted _ Ip) as F. cbn [fst snd] in F. rewrite F.
      rewrite (IH f Ip ltac:(lia)). reflexivity.
  Qed.

  Definition chain_methods (d : string) (n : nat) : list method :=
    List.concat (map (fun v => emit_methods skip reg d v) (down n)).

  Lemma all_methods_emitted : forall d m, In (d, Z.of_nat (S m)) keys ->
    all_methods cs (emit_class skip reg (d, Z.of_nat (S m))) = Some (chain_methods d (S m)).
  Proof.
    intros d m I. unfold all_methods.
    rewrite (mro_emitted d m (List.length cs) I).
    - cbn [option_map]. unfold chain_methods. rewrite map_map. reflexivity.
    - pose proof (chain_length d m I). lia.
  Qed.

  (* looking an operator up along the chain = get_schema's version resolution *)
  Lemma lookup_chain : forall d n op,
    match resolve reg op (Z.of_nat n) d with
    | Some s => skip s = false -> lookup_in (chain_methods d n) op = Some (emit_method s)
    | None => lookup_in (chain_methods d n) op = None
    end.
  Proof.
    destruct wf_parts as [_ [U [P _]]].
    intros d n op. induction n as [|m IH].
    - rewrite (resolve_none_below reg op d (Z.of_nat 0) P ltac:(lia)). reflexivity.
    - unfold chain_methods. cbn [down map List.concat]. fold (chain_methods d m).
      unfold lookup_in. rewrite find_app'. fold (lookup_in (chain_methods d m) op).
      destruct (existsb (has_key op (Z.of_nat (S m)) d) reg) eqn:E.
      + (* the operator has a schema of exactly this version: it is what get_schema returns *)
        apply existsb_exists in E as [s0 [I0 K0]]. apply has_key_spec in K0 as [K1 [K2 K3]].
        pose proof (resolve_exact reg s0 U I0) as R. rewrite K1, K2, K3 in R. rewrite R.
        intros SK.
        assert (In (emit_method s0) (emit_methods skip reg d (Z.of_nat (S m)))) as Iem.
        { unfold emit_methods. apply in_map. apply filter_In. split; auto.
          unfold emitted_here. rewrite K2, K3, SK, String.eqb_refl, Z.eqb_refl. reflexivity. }
        destruct (find (fun m0 => String.eqb (m_name m0) op) (emit_methods skip reg d (Z.of_nat (S m)))) as [y|] eqn:F.
        * apply find_some in F as [Iy Py]. unfold emit_methods in Iy. apply in_map_iff in Iy as [s' [<- Is']].
          apply filter_In in Is' as [Is' H']. unfold emitted_here in H'. rewrite !andb_true_iff in H'.
          destruct H' as [[H1 H2] _]. apply String.eqb_eq in H1. apply Z.eqb_eq in H2.
          cbn in Py. apply String.eqb_eq in Py.
          f_equal. f_equal. eapply uniq_keys_eq; eauto; congruence.
        * exfalso. pose proof (find_none _ _ F _ Iem) as H. cbn in H. rewrite K1, String.eqb_refl in H. discriminate.
      + (* no schema of this version: nothing is defined here, the lookup and get_schema both go one version down *)
        pose proof (existsb_false _ _ E) as NK.
        replace (Z.of_nat (S m)) with (Z.of_nat m + 1)%Z in * by lia.
        rewrite (resolve_step reg op d (Z.of_nat m) NK).
        rewrite find_all_false; [exact IH|].
        intros y Iy. unfold emit_methods in Iy. apply in_map_iff in Iy as [s' [<- Is']].
        apply filter_In in Is' as [Is' H']. unfold emitted_here in H'. rewrite !andb_true_iff in H'.
        destruct H' as [[H1 H2] _]. apply String.eqb_eq in H1. apply Z.eqb_eq in H2.
        cbn. destruct (String.eqb (s_name s') op) eqn:Q; auto.
        apply String.eqb_eq in Q. specialize (NK s' Is').
        assert (has_key op (Z.of_nat m + 1) d s' = true) by (apply has_key_spec; auto). congruence.
  Qed.

  Lemma key_shape : forall k, In k keys -> exists d m, k = (d, Z.of_nat (S m)).
  Proof.
    intros [d N] I. destruct wf_parts as [_ [_ [_ [_ [_ P]]]]].
    rewrite forallb_forall in P. specialize (P _ I). cbn in P. apply Z.leb_le in P.
    exists d, (Z.to_nat N - 1)%nat. f_equal. lia.
  Qed.

  (* THE CHAIN THEOREM: on the emitted classes, `opsetN.Op` resolves to the method emitted from the schema
     get_schema(Op, N, domain) returns (greatest since_version <= N); there is no method when there is no schema. *)
  Theorem emitted_chain_resolves : forall k, In k keys -> forall op,
    match resolve reg op (snd k) (fst k) with
    | Some s => skip s = false ->
        static_lookup cs (emit_class skip reg k) op = Some (emit_method s) /\
        static_schema reg (emit_method s) = Some s /\ method_ok (emit_method s) s = true
    | None => static_lookup cs (emit_class skip reg k) op = None
    end.
  Proof.
    intros k I op. destruct (key_shape k I) as [d [m ->]]. cbn [fst snd].
    destruct wf_parts as [W [U _]].
    unfold static_lookup. rewrite (all_methods_emitted d m I).
    pose proof (lookup_chain d (S m) op) as L.
    destruct (resolve reg op (Z.of_nat (S m)) d) as [s|] eqn:R; auto.
    intros SK. split; [auto|].
    destruct (resolve_spec _ _ _ _ _ R) as [Is _].
    split.
    - unfold static_schema, emit_method; cbn. apply resolve_exact; auto.
    - apply emit_method_ok. rewrite forallb_forall in W. auto.
  Qed.

  (* ... hence the emitted classes pass the registry test (with the same `skip` as the exemption) *)
  Theorem emitted_registry_ok : registry_ok skip reg cs = true.
  Proof.
    destruct wf_parts as [W [U [_ [D _]]]].
    unfold registry_ok. apply andb_true_iff. split.
    - unfold reg_wfb in WF. rewrite !andb_true_iff in WF. tauto.
    - apply forallb_forall. intros c Ic. unfold cs, emit_classes in Ic. apply in_map_iff in Ic as [k [<- Ik]].
      destruct (key_shape k Ik) as [d [m ->]].
      unfold class_ok. rewrite (all_methods_emitted d m Ik).
      apply forallb_forall. intros op _.
      pose proof (emitted_chain_resolves _ Ik op) as H. cbn [fst snd] in H.
      unfold static_lookup in H. rewrite (all_methods_emitted d m Ik) in H.
      unfold pair_ok, dyn_getitem. cbn [c_version c_domain emit_class fst snd].
      destruct (resolve reg op (Z.of_nat (S m)) d) as [s|] eqn:R.
      + destruct (skip s) eqn:SK; auto. destruct (H eq_refl) as [H1 [H2 H3]]. rewrite H1.
        destruct (resolve_spec _ _ _ _ _ R) as [Is _].
        unfold emit_method at 1 2 3; cbn [m_op m_since m_domain].
        rewrite (best_since_exact reg s U Is). cbn. rewrite Z.eqb_refl. exact H3.
      + rewrite H. reflexivity.
  Qed.
End Chain.

(* ------------------------------------------------------------------ no class is forgotten *)

Lemma max_since_ge : forall reg s, In s reg -> (s_since s <= max_since reg (s_domain s))%Z.
Proof.
  induction reg as [|a t IH]; intros s I; [destruct I|].
  change (max_since (a :: t) (s_domain s))
    with (if String.eqb (s_domain a) (s_domain s) then Z.max (s_since a) (max_since t (s_domain s)) else max_since t (s_domain s)).
  destruct I as [->|I].
  - rewrite String.eqb_refl. lia.
  - specialize (IH s I). destruct (String.eqb (s_domain a) (s_domain s)); lia.
Qed.

(* every schema the generator does not skip and that is not excluded has the class of its (domain, since_version) *)
Theorem class_keys_complete : forall skip excl reg s,
  In s reg -> skip s = false -> (1 <= s_since s)%Z -> key_mem (s_domain s, s_since s) excl = false ->
  In (s_domain s, s_since s) (class_keys skip excl reg).
Proof.
  intros skip excl reg s I SK L X. unfold class_keys. apply filter_In. split; [|rewrite X; auto].
  apply in_flat_map. exists (s_domain s). split.
  - unfold domains_of. destruct (nodup_names_In (map s_domain reg) [] (s_domain s)) as [H|[]]; auto. apply in_map; auto.
  - apply in_map. unfold versions_of. apply filter_In. split.
    + apply in_map_iff. exists (Z.to_nat (s_since s)). split; [lia|].
      apply in_seq. pose proof (max_since_ge reg s I). lia.
    + unfold has_version. apply existsb_exists. exists s. split; auto.
      rewrite String.eqb_refl, Z.eqb_refl, SK. reflexivity.
Qed.

(* ------------------------------------------------------------------ boolean equality of classes *)

Lemma class_eqb_eq : forall a b, class_eqb a b = true -> a = b.
Proof.
  intros [n b d v ms] [n' b' d' v' ms']; unfold class_eqb; cbn.
  rewrite !andb_true_iff. intros [[[[H1 H2] H3] H4] H5].
  apply String.eqb_eq in H1, H3. apply Z.eqb_eq in H4. apply (list_eqb_eq _ method_eqb_eq) in H5.
  assert (b = b') as ->.
  { destruct b, b'; cbn in H2; try discriminate; auto. apply String.eqb_eq in H2. subst; auto. }
  subst; auto.
Qed.

Lemma classes_eqb_eq : forall a b, classes_eqb a b = true -> a = b.
Proof. exact (list_eqb_eq _ class_eqb_eq). Qed.

(* ------------------------------------------------------------------ non-vacuity *)

(* the example registry (Upsample 7/9/10-deprecated, Clip 6/11) is not in generator shape (no operator of
   versions 1..5, 8): reg_wfb refuses it (the classes of versions 7, 9, 10, 11 would derive from classes
   that are not generated); completed with one operator per missing version it is accepted, and the chain
   theorem then says what opset11.Upsample / opset10.Clip / opset8.Upsample resolve to *)
Definition ex_fill (v : Z) : schema := mkS "" "Fill" v false [("X", IReq)] [].
Definition ex_reg_full : list schema := ex_reg ++ map ex_fill [1; 2; 3; 4; 5; 8; 10]%Z.

Example ex_reg_wf :
  reg_wfb no_exemption [] ex_reg = false /\ reg_wfb no_exemption [] ex_reg_full = true /\
  reg_wfb s_deprecated [] ex_reg_full = true /\
  map c_name (emit_classes no_exemption [] ex_reg_full) =
    ["Opset1"; "Opset2"; "Opset3"; "Opset4"; "Opset5"; "Opset6"; "Opset7"; "Opset8"; "Opset9"; "Opset10"; "Opset11"] /\
  map c_base (emit_classes no_exemption [] ex_reg_full) =
    [None; Some "Opset1"; Some "Opset2"; Some "Opset3"; Some "Opset4"; Some "Opset5"; Some "Opset6"; Some "Opset7";
     Some "Opset8"; Some "Opset9"; Some "Opset10"].
Proof. vm_compute. repeat split. Qed.

Example ex_chain_lookup :
  let cs := emit_classes no_exemption [] ex_reg_full in
  option_map m_since (static_lookup cs (emit_class no_exemption ex_reg_full ("", 11%Z)) "Upsample") = Some 10%Z /\
  option_map m_since (static_lookup cs (emit_class no_exemption ex_reg_full ("", 10%Z)) "Clip") = Some 6%Z /\
  option_map m_since (static_lookup cs (emit_class no_exemption ex_reg_full ("", 8%Z)) "Upsample") = Some 7%Z /\
  static_lookup cs (emit_class no_exemption ex_reg_full ("", 5%Z)) "Clip" = None /\
  (* as read: the deprecated record is skipped and the version-9 method is what opset11.Upsample finds *)
  option_map m_since (static_lookup (emit_classes s_deprecated [] ex_reg_full)
                        (emit_class s_deprecated ex_reg_full ("", 11%Z)) "Upsample") = Some 9%Z.
Proof. vm_compute. repeat split. Qed.

(* the class-name precondition is not vacuous: the domains a.b and a_b would get the same class name *)
Example ex_name_clash :
  class_name "a.b" 1 = class_name "a_b" 1 /\
  reg_wfb no_exemption [] [mkS "a.b" "X" 1 false [] []; mkS "a_b" "X" 1 false [] []] = false /\
  class_name "ai.onnx.ml" 5 = "Opset_ai_onnx_ml5" /\ class_name "" 13 = "Opset13".
Proof. vm_compute. repeat split. Qed.

(* an excluded version in the middle of a domain breaks the chain: refused *)
Example ex_excluded_gap :
  reg_wfb no_exemption [("", 8%Z)] ex_reg_full = false /\ reg_wfb no_exemption [("", 11%Z)] ex_reg_full = true.
Proof. vm_compute. repeat split. Qed.
