(* C09 -- the acceptance half ("the optimized model accepts exactly the inputs the original accepted") for the units
   modelled in Extra2.v: ReshapeReshape, SlicesSplit, the sequence evaluators and their chains.  Model file: definitions
   only.  A runtime rejection is `None`; every function here is evaluated by the harness against onnxruntime /
   onnx.reference at every binding of the symbolic dims to {0,1,2,3,7}. *)
From Coq Require Import String ZArith List Bool.
Require Import OV.Shape.SymDim OV.Shape.PartialEval OV.Shape.Extra OV.Shape.Extra2.
Require OV.Rules.Reshape OV.Rules.SliceCollapse.
Import ListNotations.
Open Scope Z_scope.

(* ---- ReshapeReshape ------------------------------------------------------------------------------------------------
   original: Reshape(Reshape(x, s1, az1), s2, az2); fused: Reshape(x, s', az') with (s', az') = rr_rule o s2 az2 *)
Definition rr_orig (az1 : bool) (xs s1 : list Z) (az2 : bool) (s2 : list Z) : option (list Z) :=
  match Reshape.resolve az1 xs s1 with Some mid => Reshape.resolve az2 mid s2 | None => None end.
Definition rr_fused (o : option (list dim)) (s2 : list Z) (az2 : bool) (xs : list Z) : option (list Z) :=
  match rr_rule o s2 az2 with Some (s', az') => Reshape.resolve az' xs s' | None => None end.
(* a 0 of the second target that copies a dim of the INTERMEDIATE tensor (allowzero off) *)
Definition zero_copy (s2 : list Z) (az2 : bool) : bool := negb az2 && Reshape.has 0 s2.
(* the whole claim for the rule as it is (kept visible; refuted in AcceptProofs.v) *)
Definition rr_accepts_full : Prop :=
  forall xs s1 az1 s2 az2 s' az', Reshape.nonneg xs = true -> rr_rule None s2 az2 = Some (s', az') ->
    forall out, rr_orig az1 xs s1 az2 s2 = Some out <-> Reshape.resolve az' xs s' = Some out.
(* the two ways the fused Reshape accepts an input the original rejects *)
Inductive rr_widening := WFirstRejected | WZeroCopyMismatch | WNone.
Definition rr_widening_class (az1 : bool) (xs s1 : list Z) (az2 : bool) (s2 : list Z) : rr_widening :=
  match rr_fused None s2 az2 xs with
  | None => WNone
  | Some _ =>
      match Reshape.resolve az1 xs s1 with
      | None => WFirstRejected
      | Some mid => match Reshape.resolve az2 mid s2 with None => WZeroCopyMismatch | Some _ => WNone end
      end
  end.

(* ---- SlicesSplit ----------------------------------------------------------------------------------------------------
   ONNX Slice with axes = [axis] accepts an axis in [-rank, rank); Split-18(num_outputs = 2, axis = -1) needs rank >= 1
   and (onnxruntime: "Invalid num_outputs value of 2. Size of dimension being split is 1") at least num_outputs elements
   on the axis; onnx.reference returns an empty second chunk there *)
Definition slice_accepts (cx : list Z) (axis : Z) : bool :=
  let r := Z.of_nat (List.length cx) in (- r <=? axis) && (axis <? r).
Definition split2_accepts (cx : list Z) : bool := match rev cx with d :: _ => 2 <=? d | [] => false end.

(* ---- sequences ------------------------------------------------------------------------------------------------------
   SplitToSequence(x, scalar split s > 0, keepdims = 1) on an axis of length d: chunks of size s, the last one smaller;
   an empty axis gives the empty sequence (accepted) *)
Definition nsum (l : list Z) : Z := fold_right Z.add 0 l.
Definition scalar_sizes (d s : Z) : list Z := (repeat s (Z.to_nat (d / s)) ++ (if d mod s =? 0 then [] else [d mod s]))%list.
(* ONNX Split-18 on an axis of length d: explicit sizes must be non-negative and add up to d; num_outputs = n needs
   n >= 1 and gives n - 1 chunks of ceil(d / n) and the remainder.  The outputs then go to SequenceConstruct, whose
   schema needs at least one input. *)
Definition split_sizes (r : Z + list Z) (d : Z) : option (list Z) :=
  match r with
  | inl n => if n <=? 0 then None
             else let c := ceil_div d n in Some (repeat c (Z.to_nat (n - 1)) ++ [d - (n - 1) * c])%list
  | inr l => if forallb (Z.leb 0) l && (nsum l =? d) then Some l else None
  end.
Definition seq_construct {A} (l : list A) : option (list A) := match l with [] => None | _ => Some l end.
(* what the evaluator's output does at run time for a static axis d: None = rejected (by Split, or by the checker
   because SequenceConstruct has no input) *)
Definition split_scalar_emitted (d s : Z) : option (list Z) :=
  match split_scalar (DInt d) s with
  | Some r => match split_sizes r d with Some l => seq_construct l | None => None end
  | None => Some (scalar_sizes d s)            (* evaluator gives up: the SplitToSequence node stays *)
  end.
(* repaired evaluator (proposed_fixes/C09_split_to_sequence_empty_axis.diff): gives up on an empty axis *)
Definition split_scalar_emitted_fixed (d s : Z) : option (list Z) :=
  if d =? 0 then Some (scalar_sizes d s) else split_scalar_emitted d s.

(* SequenceAt on a sequence the optimizer knows: Identity(l[i]) with Python indexing, the node is kept on IndexError *)
Definition at_opt {A} (l : list A) (i : Z) : option A :=
  match py_index l i with Some r => Some r | None => onnx_seq_at l i end.

(* SplitToSequence(x, sizes, axis) -> ConcatFromSequence(axis, new_axis = 0): shapes of the chunks, concatenated back *)
Definition chunk_shapes (sh : list Z) (k : nat) (sizes : list Z) : list (list Z) := map (chunk_shape sh k) sizes.

(* ---- _ir_utils.get_dim(value, i): the annotated dim at a Python-normalised position (None: no value / no shape /
   out of range); takes no decision itself *)
Definition get_dim (s : option (list dim)) (i : Z) : option dim := match s with Some l => py_index l i | None => None end.
Definition dim_eqb (a b : dim) : bool :=
  match a, b with DInt x, DInt y => x =? y | DSym x, DSym y => String.eqb x y | DUnk, DUnk => true | _, _ => false end.
Definition gd_case := (option (list dim) * Z * option dim)%type.
Definition gd_agrees (c : gd_case) : bool :=
  let '(s, i, obs) := c in match get_dim s i, obs with Some a, Some b => dim_eqb a b | None, None => true | _, _ => false end.

(* ---- ScatterAllDynamic: the Shape node in front of the Range carries attributes ------------------------------------
   pattern `op.Shape(data, start=0)`: the matcher wants start = 0 WRITTEN on the node and ignores attributes the pattern
   does not mention, so an `end` attribute is not looked at (as read); check() then compares data.shape[axis] with
   base.shape[0] as if the Shape node returned the whole shape.  Repaired: `end` must be absent. *)
Inductive sd_variant := SdAsRead | SdRepaired.
Definition scatter_dyn_attrs (v : sd_variant) (start stop : option Z) (data tdata : option (list dim)) (axis : Z) : bool :=
  match start with
  | Some 0 => match v, stop with SdRepaired, Some _ => false | _, _ => scatter_dyn_check data tdata axis end
  | _ => false
  end.
(* ONNX Shape(x, start, end) on a concrete shape *)
Definition shape_op (cd : list Z) (start stop : option Z) : list Z :=
  pyslice cd (match start with Some s => s | None => 0 end) stop.
Definition sda_case := (option Z * option Z * option (list dim) * option (list dim) * Z * bool)%type.
(* 0 = both variants explain the decision, 1 = only as-read, 2 = only repaired, 3 = neither *)
Definition sda_code (c : sda_case) : nat :=
  let '(st, en, d, t, ax, obs) := c in
  ((if Bool.eqb (scatter_dyn_attrs SdAsRead st en d t ax) obs then 0 else 2) + (if Bool.eqb (scatter_dyn_attrs SdRepaired st en d t ax) obs then 0 else 1))%nat.

(* ---- correspondence helpers ------------------------------------------------------------------------------------------
   (x shape at the binding, s1, az1, s2, az2, original accepted?, fused accepted?) -- both computed by the model *)
Definition is_some {A} (o : option A) : bool := match o with Some _ => true | None => false end.
Definition opt_zl_eqb2 (a b : option (list Z)) : bool :=
  match a, b with Some x, Some y => Nat.eqb (List.length x) (List.length y) && forallb2 Z.eqb x y | None, None => true | _, _ => false end.
(* observed: None = rejected by the runtimes, Some sh = output shape *)
Definition rra_case := (list Z * list Z * bool * list Z * bool * option (list dim) * option (list Z) * option (list Z))%type.
Definition rra_agrees (c : rra_case) : bool :=
  let '(xs, s1, az1, s2, az2, o, obs_orig, obs_new) := c in
  opt_zl_eqb2 (rr_orig az1 xs s1 az2 s2) obs_orig
  && match rr_rule o s2 az2 with Some _ => opt_zl_eqb2 (rr_fused o s2 az2 xs) obs_new | None => true end.
Definition widening_code (w : rr_widening) : nat := match w with WNone => 0 | WFirstRejected => 1 | WZeroCopyMismatch => 2 end%nat.
(* (axis dim, split, original accepted with these chunk sizes | rejected, optimized likewise) *)
Definition ssa_case := (Z * Z * option (list Z) * option (list Z))%type.
Definition ssa_agrees (fixed : bool) (c : ssa_case) : bool :=
  let '(d, s, obs_orig, obs_new) := c in
  opt_zl_eqb2 (if 0 <? s then Some (scalar_sizes d s) else None) obs_orig
  && opt_zl_eqb2 ((if fixed then split_scalar_emitted_fixed else split_scalar_emitted) d s) obs_new.
(* (concrete x shape, axis, original Slices accepted?, Split accepted?) *)
Definition spa_case := (list Z * Z * bool * bool)%type.
Definition spa_agrees (c : spa_case) : bool :=
  let '(cx, axis, o1, o2) := c in Bool.eqb (slice_accepts cx axis) o1 && Bool.eqb (split2_accepts cx) o2.
