(* C11 -- n axes: the op sequence each front end produces, run on the ONNX op models, yields NumPy's view.
   Part 1: generic lemmas.  Part 2: converter.  Part 3: eager.  Part 4: refutations (tensor-valued indices). *)
From Coq Require Import ZArith List Bool Lia ZifyBool Arith.
Import ListNotations.
Require Import OV.Index.NumpySpec OV.Index.OnnxSlice OV.Index.ConverterIdx OV.Index.EagerIdx OV.Index.SliceProofs.
Open Scope Z_scope.

(* ============================ Part 1: generic lemmas ============================ *)

(* ---- enumerations and lookups ---- *)
Lemma find_axis_below {A} (Q : A -> bool) : forall (l : list A) j k, (k < j)%nat ->
  find_axis k (filter (fun p => Q (snd p)) (enum_from j l)) = None.
Proof.
  induction l as [|a l IH]; intros j k Hk; cbn; [reflexivity|].
  destruct (Q a); cbn.
  - destruct (Nat.eqb j k) eqn:E; [apply Nat.eqb_eq in E; lia|]. apply IH. lia.
  - apply IH. lia.
Qed.

Lemma find_axis_enum {A} (Q : A -> bool) : forall (l : list A) j m,
  find_axis (j + m) (filter (fun p => Q (snd p)) (enum_from j l)) =
  match nth_error l m with Some c => if Q c then Some c else None | None => None end.
Proof.
  induction l as [|a l IH]; intros j m.
  - destruct m; reflexivity.
  - destruct m as [|m]; cbn [nth_error enum_from filter snd].
    + rewrite Nat.add_0_r. destruct (Q a); cbn.
      * rewrite Nat.eqb_refl. reflexivity.
      * apply find_axis_below. lia.
    + replace (j + S m)%nat with (S j + m)%nat by lia.
      destruct (Q a); cbn [find_axis].
      * destruct (Nat.eqb j (S j + m)) eqn:E; [apply Nat.eqb_eq in E; lia|]. apply IH.
      * apply IH.
Qed.

Lemma find_axis_enum0 {A} (Q : A -> bool) : forall (l : list A) k,
  find_axis k (filter (fun p => Q (snd p)) (enum_from 0 l)) =
  match nth_error l k with Some c => if Q c then Some c else None | None => None end.
Proof. intros. apply (find_axis_enum Q l 0%nat k). Qed.

Lemma enum_from_range {A} : forall (l : list A) j p, In p (enum_from j l) -> (j <= fst p < j + length l)%nat.
Proof.
  induction l as [|a l IH]; intros j p Hin; cbn in *; [contradiction|].
  destruct Hin as [<-|Hin]; cbn; [lia|]. apply IH in Hin. lia.
Qed.

Lemma axes_ok_filter {A} (Q : nat * A -> bool) : forall (l : list A) n, (length l <= n)%nat ->
  axes_ok n (map fst (filter Q (enum_from 0 l))) = true.
Proof.
  intros l n Hn. unfold axes_ok. apply forallb_forall. intros a Ha.
  apply in_map_iff in Ha. destruct Ha as [p [<- Hp]]. apply filter_In in Hp. destruct Hp as [Hp _].
  apply enum_from_range in Hp. apply Nat.ltb_lt. lia.
Qed.

Lemma axes_ok_app : forall n a b, axes_ok n (a ++ b) = axes_ok n a && axes_ok n b.
Proof. intros. unfold axes_ok. apply forallb_app. Qed.

Lemma lookup_spec_app : forall k l1 l2,
  lookup_spec k (l1 ++ l2) = match lookup_spec k l1 with Some x => Some x | None => lookup_spec k l2 end.
Proof.
  induction l1 as [|x l1 IH]; intros; cbn; [reflexivity|].
  destruct (Nat.eqb (spec_axis x) k); [reflexivity|apply IH].
Qed.

Lemma lookup_spec_map {A} (g : nat * A -> spec) : (forall p, spec_axis (g p) = fst p) ->
  forall l k, lookup_spec k (map g l) = option_map (fun x => g (k, x)) (find_axis k l).
Proof.
  intros Hg. induction l as [|[a x] l IH]; intros k; cbn; [reflexivity|].
  rewrite Hg. cbn. destruct (Nat.eqb a k) eqn:E.
  - apply Nat.eqb_eq in E. subst a. reflexivity.
  - apply IH.
Qed.

Lemma lookup_spec_mapM {A} (g : nat * A -> option spec) :
  (forall p y, g p = Some y -> spec_axis y = fst p) ->
  forall l specs k, mapM g l = Some specs ->
    lookup_spec k specs = match find_axis k l with Some x => g (k, x) | None => None end
    /\ (forall x, find_axis k l = Some x -> g (k, x) <> None).
Proof.
  intros Hg. induction l as [|[a x] l IH]; intros specs k H; cbn in *.
  - injection H as <-. split; [reflexivity|discriminate].
  - destruct (g (a, x)) as [y|] eqn:Hy; [|discriminate].
    destruct (mapM g l) as [r|] eqn:Hr; [|discriminate]. injection H as <-.
    cbn. rewrite (Hg _ _ Hy). cbn. destruct (Nat.eqb a k) eqn:E.
    + apply Nat.eqb_eq in E. subst a. split; [symmetry; exact Hy|]. intros x0 Hx0. injection Hx0 as <-. congruence.
    + apply (IH r k eq_refl).
Qed.

Lemma existsb_axis {A} : forall (l : list (nat * A)) k,
  existsb (Nat.eqb k) (map fst l) = match find_axis k l with Some _ => true | None => false end.
Proof.
  induction l as [|[a x] l IH]; intros k; cbn; [reflexivity|].
  rewrite (Nat.eqb_sym k a). destruct (Nat.eqb a k); [reflexivity|apply IH].
Qed.

(* ---- zrange ---- *)
Lemma zrange_length : forall d, 0 <= d -> zlen (zrange d) = d.
Proof.
  intros d Hd. unfold zrange. rewrite range_list_length. unfold range_len. cbn [Z.ltb Z.compare].
  destruct (0 <? d) eqn:?; [|lia]. rewrite Z.div_1_r. lia.
Qed.

Lemma zrange_nth : forall d x, 0 <= x < d -> nth (Z.to_nat x) (zrange d) 0 = x.
Proof.
  intros d x Hx. unfold zrange, range_list.
  assert (Hlen : range_len 0 d 1 = d).
  { unfold range_len. cbn [Z.ltb Z.compare]. destruct (0 <? d) eqn:?; [|lia]. rewrite Z.div_1_r. lia. }
  rewrite Hlen. set (f := fun k : nat => 0 + Z.of_nat k * 1).
  rewrite (nth_indep _ 0 (f 0%nat)) by (rewrite map_length, seq_length; lia).
  rewrite (map_nth f). rewrite seq_nth by lia. unfold f. lia.
Qed.

Lemma pick_all_zrange : forall d js, (forall x, In x js -> 0 <= x < d) -> pick_all (zrange d) js = js.
Proof.
  intros d js H. unfold pick_all. induction js as [|j js IH]; cbn; [reflexivity|].
  rewrite zrange_nth by (apply H; left; reflexivity). f_equal. apply IH. intros. apply H. right. assumption.
Qed.

Lemma zrange_is_full_slice : forall d, py_slice d None None None = Some (zrange d).
Proof. intros. reflexivity. Qed.

(* ---- map_keeps ---- *)
Lemma nkeeps_full : forall shape, nkeeps (full shape) = length shape.
Proof. induction shape; cbn; [reflexivity|]. fold (full shape). f_equal. assumption. Qed.

Lemma map_keeps_full_ext : forall f f' shape k,
  (forall m d, nth_error shape m = Some d -> f (k + m)%nat (zrange d) = f' (k + m)%nat (zrange d)) ->
  map_keeps f k (full shape) = map_keeps f' k (full shape).
Proof.
  intros f f'. induction shape as [|d shape IH]; intros k H; cbn; [reflexivity|]. fold (full shape).
  pose proof (H 0%nat d eq_refl) as H0. rewrite Nat.add_0_r in H0. rewrite H0.
  rewrite (IH (S k)); [reflexivity|].
  intros m d' Hm. replace (S k + m)%nat with (k + S m)%nat by lia. apply H. exact Hm.
Qed.

Lemma map_keeps_full_sound : forall f f' shape k r,
  (forall m d s, nth_error shape m = Some d -> f (k + m)%nat (zrange d) = Some s -> f' (k + m)%nat (zrange d) = Some s) ->
  map_keeps f k (full shape) = Some r -> map_keeps f' k (full shape) = Some r.
Proof.
  intros f f'. induction shape as [|d shape IH]; intros k r H Hr; cbn in *; [assumption|]. fold (full shape) in *.
  destruct (f k (zrange d)) as [s|] eqn:Hs; [|discriminate].
  destruct (map_keeps f (S k) (full shape)) as [r'|] eqn:Hr'; [|discriminate].
  pose proof (H 0%nat d s eq_refl) as H0. rewrite Nat.add_0_r in H0. rewrite (H0 Hs).
  rewrite (IH (S k) r'); [assumption| |assumption].
  intros m d' s' Hm. replace (S k + m)%nat with (k + S m)%nat by lia. apply H. exact Hm.
Qed.

Definition keepish (f : nat -> list Z -> option sel) : Prop :=
  forall k l s, f k l = Some s -> exists l', s = Keep l'.

Lemma map_keeps_fuse : forall f g, keepish f -> forall v k,
  match map_keeps f k v with Some v1 => map_keeps g k v1 | None => None end
  = map_keeps (fun k l => match f k l with Some (Keep l') => g k l' | _ => None end) k v.
Proof.
  intros f g Hf. induction v as [|s v IH]; intros k; cbn; [reflexivity|].
  destruct s as [l|i].
  - destruct (f k l) as [s'|] eqn:Hs.
    + destruct (Hf _ _ _ Hs) as [l' ->]. rewrite <- IH.
      destruct (map_keeps f (S k) v) as [v1|]; cbn; [reflexivity|].
      destruct (g k l'); reflexivity.
    + reflexivity.
  - rewrite <- IH. destruct (map_keeps f k v) as [v1|]; cbn; reflexivity.
Qed.

Lemma map_keeps_nkeeps : forall f, keepish f -> forall v k v', map_keeps f k v = Some v' -> nkeeps v' = nkeeps v.
Proof.
  intros f Hf. induction v as [|s v IH]; intros k v' H; cbn in *.
  - injection H as <-. reflexivity.
  - destruct s as [l|i].
    + destruct (f k l) as [s'|] eqn:Hs; [|discriminate].
      destruct (map_keeps f (S k) v) as [r|] eqn:Hr; [|discriminate]. injection H as <-.
      destruct (Hf _ _ _ Hs) as [l' ->]. cbn. f_equal. eapply IH; eassumption.
    + destruct (map_keeps f k v) as [r|] eqn:Hr; [|discriminate]. injection H as <-. cbn. eapply IH; eassumption.
Qed.

Lemma slice_f_keepish : forall specs, keepish (slice_f specs).
Proof.
  intros specs k l s H. unfold slice_f in H. destruct (lookup_spec k specs) as [[[[a b] c] st]|].
  - destruct (onnx_slice (zlen l) a b st); cbn in H; [|discriminate]. injection H as <-. eexists. reflexivity.
  - injection H as <-. eexists. reflexivity.
Qed.

(* ---- NumPy's view, position by position ---- *)
Definition np_pt (idx : list comp) (k : nat) (l : list Z) : option sel :=
  match nth_error idx k with
  | Some c => sel_of (zlen l) c
  | None => Some (Keep l)
  end.

Lemma map_keeps_id_full : forall shape k, map_keeps (fun _ l => Some (Keep l)) k (full shape) = Some (full shape).
Proof. induction shape as [|d shape IH]; intros k; cbn; [reflexivity|]. fold (full shape). rewrite IH. reflexivity. Qed.

Definition dims_nonneg (shape : list Z) : Prop := forall m d, nth_error shape m = Some d -> 0 <= d.

Lemma np_index_pointwise : forall idx shape j,
  dims_nonneg shape -> (length idx <= length shape)%nat ->
  np_index shape idx = map_keeps (fun k l => np_pt idx (k - j) l) j (full shape).
Proof.
  induction idx as [|c idx IH]; intros shape j Hd Hlen.
  - change (np_index shape []) with (Some (full shape)). unfold np_pt.
    rewrite (map_keeps_full_ext _ (fun _ l => Some (Keep l))).
    + symmetry. apply map_keeps_id_full.
    + intros. destruct (j + m - j)%nat; reflexivity.
  - destruct shape as [|d shape]; [cbn in Hlen; lia|].
    change (np_index (d :: shape) (c :: idx)) with
      (match sel_of d c, np_index shape idx with Some s, Some v => Some (s :: v) | _, _ => None end).
    cbn [full map map_keeps]. fold (full shape). unfold np_pt at 1. rewrite Nat.sub_diag. cbn [nth_error].
    rewrite zrange_length by (apply (Hd 0%nat); reflexivity).
    rewrite (IH shape (S j)).
    + rewrite (map_keeps_full_ext (fun k l => np_pt (c :: idx) (k - j) l) (fun k l => np_pt idx (k - S j) l) shape (S j)).
      * destruct (sel_of d c); reflexivity.
      * intros m d' Hm. unfold np_pt. replace (S j + m - j)%nat with (S m) by lia.
        replace (S j + m - S j)%nat with m by lia. reflexivity.
    + intros m d' Hm. apply (Hd (S m)). exact Hm.
    + cbn in Hlen. lia.
Qed.

Corollary np_index_pointwise0 : forall idx shape,
  dims_nonneg shape -> (length idx <= length shape)%nat ->
  np_index shape idx = map_keeps (np_pt idx) 0 (full shape).
Proof.
  intros. rewrite (np_index_pointwise idx shape 0%nat) by assumption.
  apply map_keeps_full_ext. intros. rewrite Nat.sub_0_r. reflexivity.
Qed.

(* ============================ Part 2: converter ============================ *)

(* hypotheses of the n-d theorems, as boolean functions so that Examples can evaluate them *)
Definition tensor_free (idx : list comp) : bool := forallb (fun c => negb (is_tensor c)) idx.
Definition t1_free (idx : list comp) : bool := forallb (fun c => negb (is_t1 c)) idx.

Definition comp_hazard_free (d : Z) (c : comp) : bool :=
  match c with
  | CSlice a b s => negb (neg_start_hazard d (bval a) (bval b) (bval s))
  | _ => true
  end.
Fixpoint hazard_free (shape : list Z) (idx : list comp) {struct idx} : bool :=
  match idx, shape with
  | c :: idx', d :: shape' => comp_hazard_free d c && hazard_free shape' idx'
  | _, _ => true
  end.

Definition dims_ok (shape : list Z) : Prop := Forall (fun d => 0 <= d <= MAXI) shape.

(* the converter takes the Slice(+Squeeze) route *)
Definition conv_slice_path (idx : list comp) : bool :=
  negb (Nat.eqb (length (filter is_sliced idx)) 0) || Nat.ltb 1 (length (filter is_cint idx)).
(* no slice whose bounds the converter refuses (tensor-valued step with an omitted bound) *)
Definition conv_accepts (idx : list comp) : bool :=
  forallb (fun c => match c with CSlice a b s => match conv_bounds a b s with Some _ => true | None => false end | _ => true end) idx.
(* the constant index -1 is not routed through Slice + Squeeze (where -1:0 is empty and Squeeze fails) *)
Definition is_minus1 (c : comp) : bool := match c with CInt i => i =? -1 | _ => false end.
Definition conv_minus1_ok (idx : list comp) : bool :=
  negb (conv_slice_path idx) || forallb (fun c => negb (is_minus1 c)) idx.

Lemma hazard_free_nth : forall idx shape m d c,
  hazard_free shape idx = true -> nth_error shape m = Some d -> nth_error idx m = Some c ->
  comp_hazard_free d c = true.
Proof.
  induction idx as [|c0 idx IH]; intros shape m d c H Hd Hc; [destruct m; discriminate|].
  destruct shape as [|d0 shape]; [destruct m; discriminate|].
  cbn in H. apply andb_true_iff in H. destruct H as [H0 H1].
  destruct m as [|m]; cbn in Hd, Hc.
  - injection Hd as <-. injection Hc as <-. assumption.
  - eapply IH; eassumption.
Qed.

Lemma dims_ok_nth : forall shape m d, dims_ok shape -> nth_error shape m = Some d -> 0 <= d <= MAXI.
Proof.
  intros shape m d H Hm. unfold dims_ok in H. rewrite Forall_forall in H. apply H. eapply nth_error_In. eassumption.
Qed.

Lemma dims_ok_nonneg : forall shape, dims_ok shape -> dims_nonneg shape.
Proof. intros shape H m d Hm. apply (dims_ok_nth _ _ _ H Hm). Qed.

Lemma forallb_nth {A} (Q : A -> bool) : forall (l : list A) m c, forallb Q l = true -> nth_error l m = Some c -> Q c = true.
Proof. intros l m c H Hm. rewrite forallb_forall in H. apply H. eapply nth_error_In. eassumption. Qed.

Lemma enum_from_snd {A} : forall (l : list A) j p, In p (enum_from j l) -> In (snd p) l.
Proof.
  induction l as [|a l IH]; intros j p H; cbn in *; [contradiction|].
  destruct H as [<-|H]; [left; reflexivity|right; eapply IH; eassumption].
Qed.

Lemma filter_enum_nil {A} (Q : A -> bool) : forall (l : list A) j,
  forallb (fun c => negb (Q c)) l = true -> filter (fun p => Q (snd p)) (enum_from j l) = [].
Proof.
  induction l as [|a l IH]; intros j H; cbn in *; [reflexivity|].
  apply andb_true_iff in H. destruct H as [Ha Hl]. destruct (Q a); [discriminate|]. apply IH. assumption.
Qed.

Lemma filter_enum_length {A} (Q : A -> bool) : forall (l : list A) j,
  length (filter (fun p => Q (snd p)) (enum_from j l)) = length (filter Q l).
Proof.
  induction l as [|a l IH]; intros j; cbn; [reflexivity|]. destruct (Q a); cbn; rewrite IH; reflexivity.
Qed.

Lemma map_spec_axis_mapM {A} (g : nat * A -> option spec) :
  (forall p y, g p = Some y -> spec_axis y = fst p) ->
  forall l specs, mapM g l = Some specs -> map spec_axis specs = map fst l.
Proof.
  intros Hg. induction l as [|p l IH]; intros specs H; cbn in *.
  - injection H as <-. reflexivity.
  - destruct (g p) as [y|] eqn:Hy; [|discriminate]. destruct (mapM g l) as [r|] eqn:Hr; [|discriminate].
    injection H as <-. cbn. rewrite (Hg _ _ Hy). f_equal. apply IH. reflexivity.
Qed.

Lemma mapM_total {A B} (g : A -> option B) : forall l, (forall x, In x l -> g x <> None) -> exists r, mapM g l = Some r.
Proof.
  induction l as [|x l IH]; intros H; cbn; [eexists; reflexivity|].
  destruct (g x) as [y|] eqn:Hy; [|exfalso; apply (H x); [left; reflexivity|assumption]].
  destruct IH as [r Hr]; [intros; apply H; right; assumption|]. rewrite Hr. eexists. reflexivity.
Qed.

Lemma slice_spec_axis : forall p y, slice_spec p = Some y -> spec_axis y = fst p.
Proof.
  intros [k c] y H. unfold slice_spec in H. cbn in H. destruct c; try discriminate.
  destruct (conv_bounds a b s) as [[[x y'] st]|]; [|discriminate]. injection H as <-. reflexivity.
Qed.

Lemma scalar_spec_axis : forall p, spec_axis (scalar_spec p) = fst p.
Proof. intros [k c]. unfold scalar_spec. cbn. destruct c; reflexivity. Qed.

Lemma map_keeps_id : forall v k, map_keeps (fun _ l => Some (Keep l)) k v = Some v.
Proof.
  induction v as [|s v IH]; intros k; cbn; [reflexivity|]. destruct s; rewrite IH; reflexivity.
Qed.

Lemma run_squeeze_nil : forall v, run_op (OSqueeze []) v = Some v.
Proof. intros. cbn. apply map_keeps_id. Qed.

Lemma gathers_nil : forall fx sq, gathers fx sq [] = [].
Proof. intros [|] sq; reflexivity. Qed.

Lemma run_slice_squeeze : forall S sq shape,
  axes_ok (length shape) (map spec_axis S) = true -> axes_ok (length shape) sq = true ->
  run_ops [OSlice S; OSqueeze sq] (full shape)
  = map_keeps (fun k l => match slice_f S k l with Some (Keep l') => squeeze_f sq k l' | _ => None end) 0 (full shape).
Proof.
  intros S sq shape H1 H2. cbn [run_ops run_op]. rewrite nkeeps_full, H1.
  pose proof (map_keeps_fuse (slice_f S) (squeeze_f sq) (slice_f_keepish S) (full shape) 0%nat) as F.
  destruct (map_keeps (slice_f S) 0 (full shape)) as [v1|] eqn:E.
  - rewrite (map_keeps_nkeeps _ (slice_f_keepish S) _ _ _ E), nkeeps_full, H2. rewrite <- F.
    destruct (map_keeps (squeeze_f sq) 0 v1); reflexivity.
  - rewrite <- F. reflexivity.
Qed.

Lemma py_int_range : forall d i p, py_int d i = Some p -> 0 <= p < d.
Proof.
  intros d i p H. unfold py_int in H. destruct ((- d <=? i) && (i <? d)) eqn:E; [|discriminate].
  injection H as <-. destruct (i <? 0) eqn:?; lia.
Qed.

(* what the Slice(+Squeeze) route yields on the axis that meets component number m *)
Definition conv_pt (idx : list comp) (m : nat) (d : Z) : option sel :=
  match nth_error idx m with
  | Some (CInt i) => if i =? -1 then None else sel_of d (CInt i)
  | Some (CSlice a b s) =>
      if is_trivial (CSlice a b s) then Some (Keep (zrange d)) else option_map Keep (conv_slice d a b s)
  | _ => Some (Keep (zrange d))
  end.

Section ConverterSlicePath.
  Variable idx : list comp.
  Variable specs : list spec.
  Let en := enum_from 0 idx.
  Let sliced := filter (fun p => is_sliced (snd p)) en.
  Let scalars := filter (fun p => is_cint (snd p)) en.
  Hypothesis Hspecs : mapM slice_spec sliced = Some specs.

  Lemma conv_fused_pt : forall m d, 0 <= d ->
    match slice_f (specs ++ map scalar_spec scalars) m (zrange d) with
    | Some (Keep l') => squeeze_f (map fst scalars) m l'
    | _ => None
    end = conv_pt idx m d.
  Proof.
    intros m d Hd. unfold slice_f, squeeze_f, conv_pt.
    rewrite lookup_spec_app.
    destruct (lookup_spec_mapM slice_spec slice_spec_axis sliced specs m Hspecs) as [L1 L2]. rewrite L1. clear L1.
    rewrite (lookup_spec_map scalar_spec scalar_spec_axis).
    rewrite existsb_axis.
    unfold sliced, scalars, en in *. rewrite !find_axis_enum0. rewrite find_axis_enum0 in L2.
    rewrite zrange_length by assumption.
    destruct (nth_error idx m) as [c|]; [|reflexivity].
    destruct c as [i|a b s|i|l].
    - (* constant int: slice i:i+1 then squeeze *)
      cbn [is_sliced is_slice is_cint andb option_map scalar_spec snd fst].
      rewrite scalar_as_slice by assumption. cbn [option_map].
      unfold sel_of, py_int.
      destruct ((0 <=? i) && (i <? d)) eqn:E1.
      + rewrite pick_all_zrange by (intros x [<-|[]]; lia).
        assert (i =? -1 = false) as -> by lia. assert ((- d <=? i) && (i <? d) = true) as -> by lia.
        assert (i <? 0 = false) as -> by lia. reflexivity.
      + destruct ((- d <=? i) && (i <? -1)) eqn:E2.
        * rewrite pick_all_zrange by (intros x [<-|[]]; lia).
          assert (i =? -1 = false) as -> by lia. assert ((- d <=? i) && (i <? d) = true) as -> by lia.
          assert (i <? 0 = true) as -> by lia. reflexivity.
        * cbn. destruct (i =? -1) eqn:?; [reflexivity|].
          assert ((- d <=? i) && (i <? d) = false) as -> by lia. reflexivity.
    - (* slice *)
      cbn [is_cint]. destruct (is_sliced (CSlice a b s)) eqn:Hsl.
      + assert (is_trivial (CSlice a b s) = false) as ->.
        { unfold is_sliced in Hsl. cbn [is_slice andb] in Hsl. destruct (is_trivial (CSlice a b s)); [discriminate|reflexivity]. }
        specialize (L2 _ eq_refl). unfold slice_spec in *. cbn [snd fst] in *. unfold conv_slice.
        destruct (conv_bounds a b s) as [[[x y] st]|]; [|congruence].
        destruct (onnx_slice d x y st) as [js|] eqn:Hjs; cbn [option_map]; [|reflexivity].
        rewrite pick_all_zrange by (intros z Hz; eapply onnx_slice_in_range; eassumption). reflexivity.
      + assert (is_trivial (CSlice a b s) = true) as ->.
        { unfold is_sliced in Hsl. cbn [is_slice andb] in Hsl. destruct (is_trivial (CSlice a b s)); [reflexivity|discriminate]. }
        reflexivity.
    - reflexivity.
    - reflexivity.
  Qed.
End ConverterSlicePath.

(* conv_pt against NumPy, one axis *)
Lemma conv_pt_sound : forall idx m d s,
  0 <= d <= MAXI -> (forall c, nth_error idx m = Some c -> is_tensor c = false /\ comp_hazard_free d c = true) ->
  conv_pt idx m d = Some s -> np_pt idx m (zrange d) = Some s.
Proof.
  intros idx m d s Hd Hc H. unfold conv_pt, np_pt in *. rewrite zrange_length by lia.
  destruct (nth_error idx m) as [c|]; [|assumption].
  destruct (Hc c eq_refl) as [Ht Hh]. destruct c as [i|a b st|i|l]; try discriminate.
  - destruct (i =? -1); [discriminate|assumption].
  - destruct (is_trivial (CSlice a b st)) eqn:Ht'.
    + destruct a, b, st; try discriminate. assumption.
    + cbn [sel_of]. rewrite <- conv_slice_eq_python; try assumption.
      * intro Hn. unfold conv_slice in H. rewrite Hn in H. discriminate.
      * cbn in Hh. destruct (neg_start_hazard d (bval a) (bval b) (bval st)); [discriminate|reflexivity].
Qed.

Lemma conv_pt_complete : forall idx m d s,
  0 <= d <= MAXI ->
  (forall c, nth_error idx m = Some c ->
     is_tensor c = false /\ comp_hazard_free d c = true /\ is_minus1 c = false /\
     match c with CSlice a b st => conv_bounds a b st <> None | _ => True end) ->
  np_pt idx m (zrange d) = Some s -> conv_pt idx m d = Some s.
Proof.
  intros idx m d s Hd Hc H. unfold conv_pt, np_pt in *. rewrite zrange_length in H by lia.
  destruct (nth_error idx m) as [c|]; [|assumption].
  destruct (Hc c eq_refl) as [Ht [Hh [Hm Ha]]]. destruct c as [i|a b st|i|l]; try discriminate.
  - cbn in Hm. rewrite Hm. assumption.
  - destruct (is_trivial (CSlice a b st)) eqn:Ht'.
    + destruct a, b, st; try discriminate. assumption.
    + cbn [sel_of] in H. rewrite conv_slice_eq_python; try assumption.
      cbn in Hh. destruct (neg_start_hazard d (bval a) (bval b) (bval st)); [discriminate|reflexivity].
Qed.

Definition c_sliced (idx : list comp) := filter (fun p : nat * comp => is_sliced (snd p)) (enum_from 0 idx).
Definition c_scalars (idx : list comp) := filter (fun p : nat * comp => is_cint (snd p)) (enum_from 0 idx).
Definition c_tens (idx : list comp) := filter (fun p : nat * comp => is_tensor (snd p)) (enum_from 0 idx).
Definition is_nil {A} (l : list A) : bool := match l with [] => true | _ => false end.

Lemma conv_ops_cases : forall fx idx,
  conv_ops fx idx =
    if is_nil (c_sliced idx) && is_nil (c_scalars idx) && is_nil (c_tens idx) then Some [OIdentity]
    else if negb (Nat.eqb (length (c_sliced idx)) 0) || Nat.ltb 1 (length (c_scalars idx)) then
      match mapM slice_spec (c_sliced idx) with
      | None => None
      | Some specs =>
          Some (OSlice (specs ++ map scalar_spec (c_scalars idx))
                :: (match map fst (c_scalars idx) with [] => [] | _ => [OSqueeze (map fst (c_scalars idx))] end)
                ++ gathers fx (map fst (c_scalars idx)) (c_tens idx))
      end
    else Some (gathers fx [] (c_tens idx ++ c_scalars idx)).
Proof.
  intros. unfold conv_ops. cbv zeta.
  change (filter (fun p : nat * comp => is_sliced (snd p)) (enum_from 0 idx)) with (c_sliced idx).
  change (filter (fun p : nat * comp => is_cint (snd p)) (enum_from 0 idx)) with (c_scalars idx).
  change (filter (fun p : nat * comp => is_tensor (snd p)) (enum_from 0 idx)) with (c_tens idx).
  destruct (c_sliced idx), (c_scalars idx), (c_tens idx); reflexivity.
Qed.

Lemma c_tens_nil : forall idx, tensor_free idx = true -> c_tens idx = [].
Proof. intros. apply filter_enum_nil. assumption. Qed.

Lemma conv_slice_path_eq : forall idx,
  negb (Nat.eqb (length (c_sliced idx)) 0) || Nat.ltb 1 (length (c_scalars idx)) = conv_slice_path idx.
Proof. intros. unfold conv_slice_path, c_sliced, c_scalars. rewrite !filter_enum_length. reflexivity. Qed.

Lemma trivial_of_flags : forall c, is_sliced c = false -> is_cint c = false -> is_tensor c = false ->
  c = CSlice BNone BNone BNone.
Proof.
  intros c H1 H2 H3. destruct c as [i|a b s|i|l]; try discriminate.
  unfold is_sliced in H1. cbn in H1. destruct a, b, s; try discriminate. reflexivity.
Qed.

Lemma tensor_free_nth : forall idx m c, tensor_free idx = true -> nth_error idx m = Some c -> is_tensor c = false.
Proof.
  intros idx m c H Hm. pose proof (forallb_nth _ idx m c H Hm) as Hc. cbn beta in Hc. destruct (is_tensor c); [discriminate|reflexivity].
Qed.

(* the Slice(+Squeeze) route, run on the op models, position by position *)
Lemma conv_slice_path_run : forall fx shape idx specs,
  dims_ok shape -> (length idx <= length shape)%nat ->
  mapM slice_spec (c_sliced idx) = Some specs ->
  run_ops (OSlice (specs ++ map scalar_spec (c_scalars idx))
           :: (match map fst (c_scalars idx) with [] => [] | _ => [OSqueeze (map fst (c_scalars idx))] end)
           ++ gathers fx (map fst (c_scalars idx)) []) (full shape)
  = map_keeps (fun m l => conv_pt idx m (zlen l)) 0 (full shape).
Proof.
  intros fx shape idx specs Hd Hlen Hspecs. rewrite gathers_nil, app_nil_r.
  assert (Hrun : forall S sq v,
    run_ops (OSlice S :: match sq with [] => [] | _ => [OSqueeze sq] end) v = run_ops [OSlice S; OSqueeze sq] v).
  { intros S sq v. destruct sq; [|reflexivity]. cbn [run_ops]. destruct (run_op (OSlice S) v); [|reflexivity].
    rewrite run_squeeze_nil. reflexivity. }
  rewrite Hrun. rewrite run_slice_squeeze.
  - apply map_keeps_full_ext. intros m d Hm. cbn [Nat.add].
    rewrite zrange_length by (apply (dims_ok_nth _ _ _ Hd Hm)).
    apply conv_fused_pt; [assumption|apply (dims_ok_nth _ _ _ Hd Hm)].
  - rewrite map_app, axes_ok_app. rewrite (map_spec_axis_mapM slice_spec slice_spec_axis _ _ Hspecs).
    rewrite map_map. rewrite (map_ext (fun x => spec_axis (scalar_spec x)) fst scalar_spec_axis).
    unfold c_sliced, c_scalars. rewrite !axes_ok_filter by assumption. reflexivity.
  - unfold c_scalars. apply axes_ok_filter. assumption.
Qed.

(* the Gather route: one constant int, no slice *)
Lemma conv_gather_path_run : forall fx shape idx p,
  dims_ok shape -> (length idx <= length shape)%nat -> tensor_free idx = true ->
  c_sliced idx = [] -> c_scalars idx = [p] ->
  run_ops (gathers fx [] ([] ++ [p])) (full shape) = map_keeps (np_pt idx) 0 (full shape).
Proof.
  intros fx shape idx [a c0] Hd Hlen Htf Hsl Hsc.
  pose proof (find_axis_enum0 is_sliced idx) as Fsl. fold (c_sliced idx) in Fsl. rewrite Hsl in Fsl.
  pose proof (find_axis_enum0 is_cint idx) as Fsc. fold (c_scalars idx) in Fsc. rewrite Hsc in Fsc.
  assert (Ha : nth_error idx a = Some c0 /\ is_cint c0 = true).
  { specialize (Fsc a). cbn in Fsc. rewrite Nat.eqb_refl in Fsc.
    destruct (nth_error idx a) as [c|]; [|discriminate]. destruct (is_cint c) eqn:E; [|discriminate].
    injection Fsc as ->. split; [reflexivity|assumption]. }
  destruct Ha as [Ha Hc0]. destruct c0 as [i| | |]; try discriminate.
  assert (Hlt : (a < length shape)%nat).
  { assert (a < length idx)%nat by (apply nth_error_Some; congruence). lia. }
  assert (Hops : gathers fx [] ([] ++ [(a, CInt i)]) = [OGather a (G0 i)]).
  { destruct fx; cbn; [rewrite Nat.sub_0_r|]; reflexivity. }
  rewrite Hops. cbn [run_ops run_op]. rewrite nkeeps_full.
  assert (Nat.ltb a (length shape) = true) as -> by (apply Nat.ltb_lt; assumption).
  destruct (map_keeps (gather_f a (G0 i)) 0 (full shape)) eqn:E; rewrite <- E; clear E;
    apply map_keeps_full_ext; intros m d Hm; cbn [Nat.add]; unfold gather_f, np_pt.
  all: pose proof (dims_ok_nth _ _ _ Hd Hm) as Hdm; rewrite zrange_length by lia.
  all: destruct (Nat.eqb m a) eqn:E.
  all: try (apply Nat.eqb_eq in E; subst m; rewrite Ha; cbn [gather_sel sel_of]; rewrite zrange_length by lia;
            rewrite gather_index_py_int; destruct (py_int d i) as [q|] eqn:Hq; cbn [option_map]; [|reflexivity];
            rewrite zrange_nth by (eapply py_int_range; eassumption); reflexivity).
  all: specialize (Fsl m); specialize (Fsc m); cbn in Fsl, Fsc; rewrite (Nat.eqb_sym a m), E in Fsc;
       destruct (nth_error idx m) as [c|] eqn:Hc; [|reflexivity];
       pose proof (tensor_free_nth _ _ _ Htf Hc) as Ht;
       destruct (is_sliced c) eqn:E1; [discriminate|]; destruct (is_cint c) eqn:E2; [discriminate|];
       rewrite (trivial_of_flags c E1 E2 Ht); reflexivity.
Qed.

Theorem conv_basic_sound : forall fx shape idx v,
  dims_ok shape -> tensor_free idx = true -> (length idx <= length shape)%nat ->
  hazard_free shape idx = true ->
  run_conv fx shape idx = Some v -> np_index shape idx = Some v.
Proof.
  intros fx shape idx v Hd Htf Hlen Hhz H.
  rewrite np_index_pointwise0 by (try apply dims_ok_nonneg; assumption).
  unfold run_conv in H. rewrite conv_ops_cases in H. rewrite (c_tens_nil idx Htf) in H.
  rewrite conv_slice_path_eq in H.
  destruct (is_nil (c_sliced idx) && is_nil (c_scalars idx) && is_nil []) eqn:Hnil.
  - (* nothing but ':' *)
    cbn in H. injection H as <-.
    destruct (c_sliced idx) eqn:Hsl; [|discriminate]. destruct (c_scalars idx) eqn:Hsc; [|discriminate].
    pose proof (find_axis_enum0 is_sliced idx) as Fsl. fold (c_sliced idx) in Fsl. rewrite Hsl in Fsl.
    pose proof (find_axis_enum0 is_cint idx) as Fsc. fold (c_scalars idx) in Fsc. rewrite Hsc in Fsc.
    rewrite <- (map_keeps_id_full shape 0). apply map_keeps_full_ext. intros m d Hm. cbn [Nat.add]. unfold np_pt.
    specialize (Fsl m); specialize (Fsc m); cbn in Fsl, Fsc.
    destruct (nth_error idx m) as [c|] eqn:Hc; [|reflexivity].
    pose proof (tensor_free_nth _ _ _ Htf Hc) as Ht.
    destruct (is_sliced c) eqn:E1; [discriminate|]. destruct (is_cint c) eqn:E2; [discriminate|].
    rewrite (trivial_of_flags c E1 E2 Ht). rewrite zrange_length by (apply (dims_ok_nth _ _ _ Hd Hm)). reflexivity.
  - destruct (conv_slice_path idx) eqn:Hpath.
    + destruct (mapM slice_spec (c_sliced idx)) as [specs|] eqn:Hspecs; [|discriminate].
      rewrite (conv_slice_path_run fx shape idx specs Hd Hlen Hspecs) in H.
      eapply map_keeps_full_sound; [|exact H].
      intros m d s Hm Hs. cbn [Nat.add] in *. pose proof (dims_ok_nth _ _ _ Hd Hm) as Hdm.
      rewrite zrange_length in Hs by lia. apply conv_pt_sound; try assumption.
      intros c Hc. split; [eapply tensor_free_nth; eassumption|eapply hazard_free_nth; eassumption].
    + (* not the slice route and not all-trivial: exactly one constant int *)
      rewrite <- conv_slice_path_eq in Hpath. apply orb_false_iff in Hpath. destruct Hpath as [P1 P2].
      destruct (c_sliced idx) eqn:Hsl; [|discriminate].
      destruct (c_scalars idx) as [|p [|p' sc]] eqn:Hsc; [discriminate| |discriminate].
      rewrite (conv_gather_path_run fx shape idx p Hd Hlen Htf Hsl Hsc) in H. exact H.
Qed.

Lemma conv_accepts_mapM : forall idx, conv_accepts idx = true -> exists specs, mapM slice_spec (c_sliced idx) = Some specs.
Proof.
  intros idx H. apply mapM_total. intros [k c] Hin. unfold c_sliced in Hin. apply filter_In in Hin.
  destruct Hin as [Hin Hs]. apply enum_from_snd in Hin. cbn [snd] in *.
  unfold conv_accepts in H. rewrite forallb_forall in H. specialize (H c Hin).
  unfold slice_spec. cbn [snd fst]. destruct c as [i|a b s|i|l]; try discriminate.
  destruct (conv_bounds a b s) as [[[x y] st]|]; [discriminate|discriminate].
Qed.

Theorem conv_basic_complete : forall fx shape idx v,
  dims_ok shape -> tensor_free idx = true ->
  hazard_free shape idx = true -> conv_accepts idx = true -> conv_minus1_ok idx = true ->
  np_index shape idx = Some v -> run_conv fx shape idx = Some v.
Proof.
  intros fx shape idx v Hd Htf Hhz Hacc Hm1 H.
  assert (Hlen : (length idx <= length shape)%nat).
  { clear - H. revert shape v H. induction idx as [|c idx IH]; intros shape v H; cbn; [lia|].
    destruct shape as [|d shape]; [discriminate|]. cbn in H.
    destruct (sel_of d c); [|discriminate]. destruct (np_index shape idx) eqn:E; [|discriminate].
    specialize (IH _ _ E). cbn. lia. }
  rewrite np_index_pointwise0 in H by (try apply dims_ok_nonneg; assumption).
  unfold run_conv. rewrite conv_ops_cases. rewrite (c_tens_nil idx Htf). rewrite conv_slice_path_eq.
  destruct (is_nil (c_sliced idx) && is_nil (c_scalars idx) && is_nil []) eqn:Hnil.
  - cbn. rewrite <- H. clear H.
    destruct (c_sliced idx) eqn:Hsl; [|discriminate]. destruct (c_scalars idx) eqn:Hsc; [|discriminate].
    pose proof (find_axis_enum0 is_sliced idx) as Fsl. fold (c_sliced idx) in Fsl. rewrite Hsl in Fsl.
    pose proof (find_axis_enum0 is_cint idx) as Fsc. fold (c_scalars idx) in Fsc. rewrite Hsc in Fsc.
    rewrite <- (map_keeps_id_full shape 0). apply map_keeps_full_ext. intros m d Hm. cbn [Nat.add]. unfold np_pt.
    specialize (Fsl m); specialize (Fsc m); cbn in Fsl, Fsc.
    destruct (nth_error idx m) as [c|] eqn:Hc; [|reflexivity].
    pose proof (tensor_free_nth _ _ _ Htf Hc) as Ht.
    destruct (is_sliced c) eqn:E1; [discriminate|]. destruct (is_cint c) eqn:E2; [discriminate|].
    rewrite (trivial_of_flags c E1 E2 Ht). rewrite zrange_length by (apply (dims_ok_nth _ _ _ Hd Hm)). reflexivity.
  - destruct (conv_slice_path idx) eqn:Hpath.
    + destruct (conv_accepts_mapM idx Hacc) as [specs Hspecs]. rewrite Hspecs.
      rewrite (conv_slice_path_run fx shape idx specs Hd Hlen Hspecs).
      eapply map_keeps_full_sound; [|exact H].
      intros m d s Hm Hs. cbn [Nat.add] in *. pose proof (dims_ok_nth _ _ _ Hd Hm) as Hdm.
      rewrite zrange_length by lia. apply conv_pt_complete; try assumption.
      intros c Hc. repeat split.
      * eapply tensor_free_nth; eassumption.
      * eapply hazard_free_nth; eassumption.
      * unfold conv_minus1_ok in Hm1. rewrite Hpath in Hm1. cbn in Hm1.
        pose proof (forallb_nth _ idx m c Hm1 Hc) as Hx. cbn beta in Hx. destruct (is_minus1 c); [discriminate|reflexivity].
      * pose proof (forallb_nth _ idx m c Hacc Hc) as Hx. cbn beta in Hx. destruct c; try exact I.
        destruct (conv_bounds a b s0); [discriminate|discriminate].
    + rewrite <- conv_slice_path_eq in Hpath. apply orb_false_iff in Hpath. destruct Hpath as [P1 P2].
      destruct (c_sliced idx) eqn:Hsl; [|discriminate].
      destruct (c_scalars idx) as [|p [|p' sc]] eqn:Hsc; [discriminate| |discriminate].
      rewrite (conv_gather_path_run fx shape idx p Hd Hlen Htf Hsl Hsc). exact H.
Qed.

(* ============================ Part 3: eager ============================ *)

Definition dims_nat (shape : list Z) : Prop := Forall (fun d => 0 <= d) shape.

Lemma dims_nat_nth : forall shape m d, dims_nat shape -> nth_error shape m = Some d -> 0 <= d.
Proof.
  intros shape m d H Hm. unfold dims_nat in H. rewrite Forall_forall in H. apply H. eapply nth_error_In. eassumption.
Qed.

Definition eager_slice_path (idx : list comp) : bool :=
  negb (Nat.eqb (length (filter is_sliced idx)) 0) || Nat.ltb 1 (length (filter is_escalar idx)).
Definition is_eminus1 (c : comp) : bool := match c with CInt i => i =? -1 | CT0 i => i =? -1 | _ => false end.
Definition eager_minus1_ok (idx : list comp) : bool :=
  negb (eager_slice_path idx) || forallb (fun c => negb (is_eminus1 c)) idx.

Definition e_sliced (shape : list Z) (idx : list comp) :=
  filter (fun p : nat * (Z * comp) => is_sliced (e_comp p)) (enum_from 0 (combine shape idx)).
Definition e_scalars (shape : list Z) (idx : list comp) :=
  filter (fun p : nat * (Z * comp) => is_escalar (e_comp p)) (enum_from 0 (combine shape idx)).
Definition e_tens (shape : list Z) (idx : list comp) :=
  filter (fun p : nat * (Z * comp) => is_t1 (e_comp p)) (enum_from 0 (combine shape idx)).

Lemma nth_error_combine {A B} : forall (l1 : list A) (l2 : list B) m,
  nth_error (combine l1 l2) m =
  match nth_error l1 m, nth_error l2 m with Some a, Some b => Some (a, b) | _, _ => None end.
Proof.
  induction l1 as [|a l1 IH]; intros l2 m; cbn.
  - destruct m; reflexivity.
  - destruct l2 as [|b l2]; cbn.
    + destruct m; cbn; [reflexivity|]. destruct (nth_error l1 m); reflexivity.
    + destruct m; cbn; [reflexivity|apply IH].
Qed.

Lemma find_axis_combine (Q : comp -> bool) : forall shape idx m,
  find_axis m (filter (fun p : nat * (Z * comp) => Q (e_comp p)) (enum_from 0 (combine shape idx))) =
  match nth_error shape m, nth_error idx m with
  | Some d, Some c => if Q c then Some (d, c) else None
  | _, _ => None
  end.
Proof.
  intros. rewrite (find_axis_enum0 (fun dc : Z * comp => Q (snd dc))). rewrite nth_error_combine.
  destruct (nth_error shape m), (nth_error idx m); reflexivity.
Qed.

Lemma filter_combine_length (Q : comp -> bool) : forall idx shape, (length idx <= length shape)%nat ->
  length (filter (fun p : nat * (Z * comp) => Q (e_comp p)) (enum_from 0 (combine shape idx))) = length (filter Q idx).
Proof.
  intros idx shape Hlen.
  rewrite (filter_enum_length (fun dc : Z * comp => Q (snd dc))).
  revert shape Hlen. induction idx as [|c idx IH]; intros shape Hlen.
  - destruct shape; reflexivity.
  - destruct shape as [|d shape]; [cbn in Hlen; lia|]. cbn. destruct (Q c); cbn; rewrite IH; try reflexivity; cbn in Hlen; lia.
Qed.

Lemma combine_length_le {A B} : forall (l1 : list A) (l2 : list B), (length (combine l1 l2) <= length l1)%nat.
Proof. intros. rewrite combine_length. lia. Qed.

Lemma eslice_spec_axis : forall p, spec_axis (eslice_spec p) = fst p.
Proof.
  intros [k [d c]]. unfold eslice_spec, e_comp, e_dim, e_axis. cbn. destruct c; try reflexivity.
  destruct (eager_bounds d a b s) as [[x y] st]. reflexivity.
Qed.
Lemma escalar_spec_axis : forall p, spec_axis (escalar_spec p) = fst p.
Proof. intros [k [d c]]. unfold escalar_spec, e_comp, e_axis. cbn. destruct c; reflexivity. Qed.

Lemma egathers_nil : forall fx sq, egathers fx sq [] = [].
Proof. intros [|] sq; reflexivity. Qed.

Definition eager_pt (idx : list comp) (m : nat) (d : Z) : option sel :=
  match nth_error idx m with
  | Some (CInt i) => if i =? -1 then None else sel_of d (CInt i)
  | Some (CT0 i) => if i =? -1 then None else sel_of d (CT0 i)
  | Some (CSlice a b s) =>
      if is_trivial (CSlice a b s) then Some (Keep (zrange d)) else option_map Keep (eager_slice d a b s)
  | _ => Some (Keep (zrange d))
  end.

Lemma scalar_slice_squeeze : forall d i, 0 <= d ->
  match option_map (fun js => Keep (pick_all (zrange d) js)) (onnx_slice d i (i + 1) 1) with
  | Some (Keep l') => match l' with [x] => Some (Pick x) | _ => None end
  | _ => None
  end = (if i =? -1 then None else option_map Pick (py_int d i)).
Proof.
  intros d i Hd. rewrite scalar_as_slice by assumption. cbn [option_map]. unfold py_int.
  destruct ((0 <=? i) && (i <? d)) eqn:E1.
  - rewrite pick_all_zrange by (intros x [<-|[]]; lia).
    assert (i =? -1 = false) as -> by lia. assert ((- d <=? i) && (i <? d) = true) as -> by lia.
    assert (i <? 0 = false) as -> by lia. reflexivity.
  - destruct ((- d <=? i) && (i <? -1)) eqn:E2.
    + rewrite pick_all_zrange by (intros x [<-|[]]; lia).
      assert (i =? -1 = false) as -> by lia. assert ((- d <=? i) && (i <? d) = true) as -> by lia.
      assert (i <? 0 = true) as -> by lia. reflexivity.
    + cbn. destruct (i =? -1) eqn:?; [reflexivity|].
      assert ((- d <=? i) && (i <? d) = false) as -> by lia. reflexivity.
Qed.

Lemma eager_fused_pt : forall shape idx m d, nth_error shape m = Some d -> 0 <= d ->
  match slice_f (map eslice_spec (e_sliced shape idx) ++ map escalar_spec (e_scalars shape idx)) m (zrange d) with
  | Some (Keep l') => squeeze_f (map e_axis (e_scalars shape idx)) m l'
  | _ => None
  end = eager_pt idx m d.
Proof.
  intros shape idx m d Hm Hd. unfold slice_f, squeeze_f, eager_pt.
  rewrite lookup_spec_app.
  rewrite (lookup_spec_map eslice_spec eslice_spec_axis). rewrite (lookup_spec_map escalar_spec escalar_spec_axis).
  unfold e_axis. rewrite existsb_axis.
  unfold e_sliced, e_scalars. rewrite !find_axis_combine. rewrite Hm.
  rewrite zrange_length by assumption.
  destruct (nth_error idx m) as [c|]; [|reflexivity].
  destruct c as [i|a b s|i|l].
  - cbn [is_sliced is_slice is_escalar andb option_map escalar_spec e_comp e_axis snd fst].
    apply scalar_slice_squeeze. assumption.
  - cbn [is_escalar]. destruct (is_sliced (CSlice a b s)) eqn:Hsl.
    + assert (is_trivial (CSlice a b s) = false) as ->.
      { unfold is_sliced in Hsl. cbn [is_slice andb] in Hsl. destruct (is_trivial (CSlice a b s)); [discriminate|reflexivity]. }
      cbn [option_map eslice_spec e_comp e_dim e_axis snd fst]. unfold eager_slice.
      destruct (eager_bounds d a b s) as [[x y] st].
      destruct (onnx_slice d x y st) as [js|] eqn:Hjs; cbn [option_map]; [|reflexivity].
      rewrite pick_all_zrange by (intros z Hz; eapply onnx_slice_in_range; eassumption). reflexivity.
    + assert (is_trivial (CSlice a b s) = true) as ->.
      { unfold is_sliced in Hsl. cbn [is_slice andb] in Hsl. destruct (is_trivial (CSlice a b s)); [reflexivity|discriminate]. }
      reflexivity.
  - cbn [is_sliced is_slice is_escalar andb option_map escalar_spec e_comp e_axis snd fst].
    apply scalar_slice_squeeze. assumption.
  - reflexivity.
Qed.

Lemma eager_pt_sound : forall idx m d s,
  0 <= d -> (forall c, nth_error idx m = Some c -> is_t1 c = false /\ comp_hazard_free d c = true) ->
  eager_pt idx m d = Some s -> np_pt idx m (zrange d) = Some s.
Proof.
  intros idx m d s Hd Hc H. unfold eager_pt, np_pt in *. rewrite zrange_length by lia.
  destruct (nth_error idx m) as [c|]; [|assumption].
  destruct (Hc c eq_refl) as [Ht Hh]. destruct c as [i|a b st|i|l]; try discriminate.
  - destruct (i =? -1); [discriminate|assumption].
  - destruct (is_trivial (CSlice a b st)) eqn:Ht'.
    + destruct a, b, st; try discriminate. assumption.
    + cbn [sel_of]. rewrite <- eager_slice_eq_python; try assumption.
      cbn in Hh. destruct (neg_start_hazard d (bval a) (bval b) (bval st)); [discriminate|reflexivity].
  - destruct (i =? -1); [discriminate|assumption].
Qed.

Lemma eager_pt_complete : forall idx m d s,
  0 <= d ->
  (forall c, nth_error idx m = Some c -> is_t1 c = false /\ comp_hazard_free d c = true /\ is_eminus1 c = false) ->
  np_pt idx m (zrange d) = Some s -> eager_pt idx m d = Some s.
Proof.
  intros idx m d s Hd Hc H. unfold eager_pt, np_pt in *. rewrite zrange_length in H by lia.
  destruct (nth_error idx m) as [c|]; [|assumption].
  destruct (Hc c eq_refl) as [Ht [Hh Hm]]. destruct c as [i|a b st|i|l]; try discriminate.
  - cbn in Hm. rewrite Hm. assumption.
  - destruct (is_trivial (CSlice a b st)) eqn:Ht'.
    + destruct a, b, st; try discriminate. assumption.
    + cbn [sel_of] in H. rewrite eager_slice_eq_python; try assumption.
      cbn in Hh. destruct (neg_start_hazard d (bval a) (bval b) (bval st)); [discriminate|reflexivity].
  - cbn in Hm. rewrite Hm. assumption.
Qed.

Lemma t1_free_nth : forall idx m c, t1_free idx = true -> nth_error idx m = Some c -> is_t1 c = false.
Proof.
  intros idx m c H Hm. pose proof (forallb_nth _ idx m c H Hm) as Hc. cbn beta in Hc. destruct (is_t1 c); [discriminate|reflexivity].
Qed.

Lemma e_tens_nil : forall shape idx, t1_free idx = true -> e_tens shape idx = [].
Proof.
  intros shape idx H. unfold e_tens.
  apply (filter_enum_nil (fun dc : Z * comp => is_t1 (snd dc))).
  apply forallb_forall. intros [d c] Hin. apply in_combine_r in Hin. cbn.
  unfold t1_free in H. rewrite forallb_forall in H. apply H. assumption.
Qed.

Lemma trivial_of_eflags : forall c, is_sliced c = false -> is_escalar c = false -> is_t1 c = false ->
  c = CSlice BNone BNone BNone.
Proof.
  intros c H1 H2 H3. destruct c as [i|a b s|i|l]; try discriminate.
  unfold is_sliced in H1. cbn in H1. destruct a, b, s; try discriminate. reflexivity.
Qed.

Lemma eager_slice_path_run : forall fx shape idx,
  dims_nat shape -> (length idx <= length shape)%nat ->
  run_ops (OSlice (map eslice_spec (e_sliced shape idx) ++ map escalar_spec (e_scalars shape idx))
           :: (match map e_axis (e_scalars shape idx) with [] => [] | _ => [OSqueeze (map e_axis (e_scalars shape idx))] end)
           ++ egathers fx (map e_axis (e_scalars shape idx)) []) (full shape)
  = map_keeps (fun m l => eager_pt idx m (zlen l)) 0 (full shape).
Proof.
  intros fx shape idx Hd Hlen. rewrite egathers_nil, app_nil_r.
  assert (Hrun : forall S sq v,
    run_ops (OSlice S :: match sq with [] => [] | _ => [OSqueeze sq] end) v = run_ops [OSlice S; OSqueeze sq] v).
  { intros S sq v. destruct sq; [|reflexivity]. cbn [run_ops]. destruct (run_op (OSlice S) v); [|reflexivity].
    rewrite run_squeeze_nil. reflexivity. }
  rewrite Hrun. rewrite run_slice_squeeze.
  - apply map_keeps_full_ext. intros m d Hm. cbn [Nat.add].
    rewrite zrange_length by (apply (dims_nat_nth _ _ _ Hd Hm)).
    apply eager_fused_pt; [assumption|apply (dims_nat_nth _ _ _ Hd Hm)].
  - rewrite map_app, axes_ok_app. rewrite !map_map.
    rewrite (map_ext (fun x => spec_axis (eslice_spec x)) fst eslice_spec_axis).
    rewrite (map_ext (fun x => spec_axis (escalar_spec x)) fst escalar_spec_axis).
    unfold e_sliced, e_scalars. rewrite !axes_ok_filter; [reflexivity| |]; pose proof (combine_length_le shape idx); lia.
  - unfold e_scalars, e_axis. apply axes_ok_filter. pose proof (combine_length_le shape idx); lia.
Qed.

Lemma eager_gather_path_run : forall shape idx p,
  dims_nat shape -> (length idx <= length shape)%nat -> t1_free idx = true ->
  e_sliced shape idx = [] -> e_scalars shape idx = [p] ->
  run_ops [OGather (e_axis p) (gix (e_comp p))] (full shape) = map_keeps (np_pt idx) 0 (full shape).
Proof.
  intros shape idx [a [d0 c0]] Hd Hlen Htf Hsl Hsc.
  pose proof (find_axis_combine is_sliced shape idx) as Fsl. fold (e_sliced shape idx) in Fsl. rewrite Hsl in Fsl.
  pose proof (find_axis_combine is_escalar shape idx) as Fsc. fold (e_scalars shape idx) in Fsc. rewrite Hsc in Fsc.
  assert (Ha : nth_error idx a = Some c0 /\ is_escalar c0 = true /\ (a < length shape)%nat).
  { specialize (Fsc a). cbn in Fsc. rewrite Nat.eqb_refl in Fsc.
    destruct (nth_error shape a) as [d|] eqn:Hs; [|discriminate].
    destruct (nth_error idx a) as [c|]; [|discriminate]. destruct (is_escalar c) eqn:E; [|discriminate].
    injection Fsc as _ ->. split; [reflexivity|split; [assumption|]]. apply nth_error_Some. congruence. }
  destruct Ha as [Ha [Hc0 Hlt]].
  assert (Hix : exists i, gix c0 = G0 i /\ sel_of = sel_of /\ forall d, sel_of d c0 = option_map Pick (py_int d i)).
  { destruct c0 as [i| |i|]; try discriminate; exists i; repeat split; reflexivity. }
  destruct Hix as [i [Hix [_ Hsel]]].
  unfold e_axis, e_comp. cbn [fst snd]. rewrite Hix.
  cbn [run_ops run_op]. rewrite nkeeps_full.
  assert (Nat.ltb a (length shape) = true) as -> by (apply Nat.ltb_lt; assumption).
  destruct (map_keeps (gather_f a (G0 i)) 0 (full shape)) eqn:E; rewrite <- E; clear E;
    apply map_keeps_full_ext; intros m d Hm; cbn [Nat.add]; unfold gather_f, np_pt.
  all: pose proof (dims_nat_nth _ _ _ Hd Hm) as Hdm; rewrite zrange_length by lia.
  all: destruct (Nat.eqb m a) eqn:E.
  all: try (apply Nat.eqb_eq in E; subst m; rewrite Ha; rewrite Hsel; cbn [gather_sel]; rewrite zrange_length by lia;
            rewrite gather_index_py_int; destruct (py_int d i) as [q|] eqn:Hq; cbn [option_map]; [|reflexivity];
            rewrite zrange_nth by (eapply py_int_range; eassumption); reflexivity).
  all: specialize (Fsl m); specialize (Fsc m); cbn in Fsl, Fsc; rewrite (Nat.eqb_sym a m), E in Fsc; rewrite Hm in Fsl, Fsc;
       destruct (nth_error idx m) as [c|] eqn:Hc; [|reflexivity];
       pose proof (t1_free_nth _ _ _ Htf Hc) as Ht;
       destruct (is_sliced c) eqn:E1; [discriminate|]; destruct (is_escalar c) eqn:E2; [discriminate|];
       rewrite (trivial_of_eflags c E1 E2 Ht); reflexivity.
Qed.

Lemma eager_all_trivial : forall shape idx,
  dims_nat shape -> t1_free idx = true -> e_sliced shape idx = [] -> e_scalars shape idx = [] ->
  map_keeps (np_pt idx) 0 (full shape) = Some (full shape).
Proof.
  intros shape idx Hd Htf Hsl Hsc.
  pose proof (find_axis_combine is_sliced shape idx) as Fsl. fold (e_sliced shape idx) in Fsl. rewrite Hsl in Fsl.
  pose proof (find_axis_combine is_escalar shape idx) as Fsc. fold (e_scalars shape idx) in Fsc. rewrite Hsc in Fsc.
  rewrite <- (map_keeps_id_full shape 0). apply map_keeps_full_ext. intros m d Hm. cbn [Nat.add]. unfold np_pt.
  specialize (Fsl m); specialize (Fsc m); cbn in Fsl, Fsc. rewrite Hm in Fsl, Fsc.
  destruct (nth_error idx m) as [c|] eqn:Hc; [|reflexivity].
  pose proof (t1_free_nth _ _ _ Htf Hc) as Ht.
  destruct (is_sliced c) eqn:E1; [discriminate|]. destruct (is_escalar c) eqn:E2; [discriminate|].
  rewrite (trivial_of_eflags c E1 E2 Ht). rewrite zrange_length by (apply (dims_nat_nth _ _ _ Hd Hm)). reflexivity.
Qed.

(* eager_ops with no rank-1 tensor index, by cases *)
Lemma eager_ops_cases : forall fx shape idx, (length idx <= length shape)%nat -> t1_free idx = true ->
  eager_ops fx shape idx =
    match e_sliced shape idx, e_scalars shape idx with
    | [], [] => Some [OIdentity]
    | [], [p] => Some [OGather (e_axis p) (gix (e_comp p))]
    | _, _ =>
        Some (OSlice (map eslice_spec (e_sliced shape idx) ++ map escalar_spec (e_scalars shape idx))
              :: (match map e_axis (e_scalars shape idx) with [] => [] | _ => [OSqueeze (map e_axis (e_scalars shape idx))] end)
              ++ egathers fx (map e_axis (e_scalars shape idx)) [])
    end.
Proof.
  intros fx shape idx Hlen Htf. unfold eager_ops.
  assert (Nat.ltb (length shape) (length idx) = false) as -> by (apply Nat.ltb_ge; assumption).
  cbv zeta.
  change (filter (fun p : nat * (Z * comp) => is_sliced (e_comp p)) (enum_from 0 (combine shape idx))) with (e_sliced shape idx).
  change (filter (fun p : nat * (Z * comp) => is_escalar (e_comp p)) (enum_from 0 (combine shape idx))) with (e_scalars shape idx).
  change (filter (fun p : nat * (Z * comp) => is_t1 (e_comp p)) (enum_from 0 (combine shape idx))) with (e_tens shape idx).
  rewrite (e_tens_nil shape idx Htf).
  destruct (e_sliced shape idx) as [|q sl]; destruct (e_scalars shape idx) as [|p [|p' sc]]; try reflexivity.
  rewrite egathers_nil. reflexivity.
Qed.

Theorem eager_basic_sound : forall fx shape idx v,
  dims_nat shape -> t1_free idx = true -> (length idx <= length shape)%nat ->
  hazard_free shape idx = true ->
  run_eager fx shape idx = Some v -> np_index shape idx = Some v.
Proof.
  intros fx shape idx v Hd Htf Hlen Hhz H.
  assert (Hnn : dims_nonneg shape) by (intros m d Hm; eapply dims_nat_nth; eassumption).
  rewrite np_index_pointwise0 by assumption.
  unfold run_eager in H. rewrite (eager_ops_cases fx shape idx Hlen Htf) in H.
  assert (Hslice : run_ops (OSlice (map eslice_spec (e_sliced shape idx) ++ map escalar_spec (e_scalars shape idx))
           :: (match map e_axis (e_scalars shape idx) with [] => [] | _ => [OSqueeze (map e_axis (e_scalars shape idx))] end)
           ++ egathers fx (map e_axis (e_scalars shape idx)) []) (full shape) = Some v ->
           map_keeps (np_pt idx) 0 (full shape) = Some v).
  { intros Hr. rewrite (eager_slice_path_run fx shape idx Hd Hlen) in Hr.
    eapply map_keeps_full_sound; [|exact Hr].
    intros m d s Hm Hs. cbn [Nat.add] in *. pose proof (dims_nat_nth _ _ _ Hd Hm) as Hdm.
    rewrite zrange_length in Hs by lia. apply eager_pt_sound; try assumption.
    intros c Hc. split; [eapply t1_free_nth; eassumption|eapply hazard_free_nth; eassumption]. }
  destruct (e_sliced shape idx) as [|q sl] eqn:Hsl; destruct (e_scalars shape idx) as [|p [|p' sc]] eqn:Hsc.
  - cbn in H. injection H as <-. apply eager_all_trivial; assumption.
  - rewrite (eager_gather_path_run shape idx p Hd Hlen Htf Hsl Hsc) in H. exact H.
  - apply (Hslice H).
  - apply (Hslice H).
  - apply (Hslice H).
  - apply (Hslice H).
Qed.

Lemma np_index_length : forall idx shape v, np_index shape idx = Some v -> (length idx <= length shape)%nat.
Proof.
  induction idx as [|c idx IH]; intros shape v H; cbn; [lia|].
  destruct shape as [|d shape]; [discriminate|]. cbn in H.
  destruct (sel_of d c); [|discriminate]. destruct (np_index shape idx) eqn:E; [|discriminate].
  specialize (IH _ _ E). cbn. lia.
Qed.

Theorem eager_basic_complete : forall fx shape idx v,
  dims_nat shape -> t1_free idx = true ->
  hazard_free shape idx = true -> eager_minus1_ok idx = true ->
  np_index shape idx = Some v -> run_eager fx shape idx = Some v.
Proof.
  intros fx shape idx v Hd Htf Hhz Hm1 H.
  pose proof (np_index_length _ _ _ H) as Hlen.
  assert (Hnn : dims_nonneg shape) by (intros m d Hm; eapply dims_nat_nth; eassumption).
  rewrite np_index_pointwise0 in H by assumption.
  unfold run_eager. rewrite (eager_ops_cases fx shape idx Hlen Htf).
  assert (Hpath : eager_slice_path idx =
                  negb (Nat.eqb (length (e_sliced shape idx)) 0) || Nat.ltb 1 (length (e_scalars shape idx))).
  { unfold eager_slice_path, e_sliced, e_scalars. rewrite !filter_combine_length by assumption. reflexivity. }
  assert (Hslice : eager_slice_path idx = true ->
           run_ops (OSlice (map eslice_spec (e_sliced shape idx) ++ map escalar_spec (e_scalars shape idx))
           :: (match map e_axis (e_scalars shape idx) with [] => [] | _ => [OSqueeze (map e_axis (e_scalars shape idx))] end)
           ++ egathers fx (map e_axis (e_scalars shape idx)) []) (full shape) = Some v).
  { intros Hp. rewrite (eager_slice_path_run fx shape idx Hd Hlen).
    eapply map_keeps_full_sound; [|exact H].
    intros m d s Hm Hs. cbn [Nat.add] in *. pose proof (dims_nat_nth _ _ _ Hd Hm) as Hdm.
    rewrite zrange_length by lia. apply eager_pt_complete; try assumption.
    intros c Hc. repeat split.
    - eapply t1_free_nth; eassumption.
    - eapply hazard_free_nth; eassumption.
    - unfold eager_minus1_ok in Hm1. rewrite Hp in Hm1. cbn in Hm1.
      pose proof (forallb_nth _ idx m c Hm1 Hc) as Hx. cbn beta in Hx. destruct (is_eminus1 c); [discriminate|reflexivity]. }
  destruct (e_sliced shape idx) as [|q sl] eqn:Hsl; destruct (e_scalars shape idx) as [|p [|p' sc]] eqn:Hsc.
  - cbn. rewrite <- H. symmetry. apply eager_all_trivial; assumption.
  - rewrite (eager_gather_path_run shape idx p Hd Hlen Htf Hsl Hsc). exact H.
  - apply Hslice. rewrite Hpath. reflexivity.
  - apply Hslice. rewrite Hpath. reflexivity.
  - apply Hslice. rewrite Hpath. reflexivity.
  - apply Hslice. rewrite Hpath. reflexivity.
Qed.

(* ============================ Part 4: tensor-valued indices ============================ *)

(* what a view denotes on X = arange(prod shape).reshape(shape) *)
Definition denote (shape : list Z) (v : view) : list Z * list Z := (view_shape v, offsets v shape).

(* Converter, pinned commit: X[i, j] with two rank-0 tensors on shape (2,3,4), i = 1, j = 2.
   Gather(axis=0) removes axis 0, Gather(axis=1) then indexes the axis that was axis 2. *)
Lemma conv_two_scalar_tensors_refuted : exists shape idx v v',
  np_modelled idx = true /\ run_conv false shape idx = Some v /\ np_index shape idx = Some v'
  /\ denote shape v <> denote shape v'.
Proof.
  exists [2; 3; 4], [CT0 1; CT0 2]. eexists. eexists.
  split; [reflexivity|]. split; [vm_compute; reflexivity|]. split; [vm_compute; reflexivity|].
  vm_compute. discriminate.
Qed.

Example conv_two_scalar_tensors_values :
  option_map (denote [2; 3; 4]) (run_conv false [2; 3; 4] [CT0 1; CT0 2]) = Some ([3], [14; 18; 22])
  /\ option_map (denote [2; 3; 4]) (np_index [2; 3; 4] [CT0 1; CT0 2]) = Some ([4], [20; 21; 22; 23])
  /\ run_conv true [2; 3; 4] [CT0 1; CT0 2] = np_index [2; 3; 4] [CT0 1; CT0 2].
Proof. repeat split; vm_compute; reflexivity. Qed.

(* Eager, pinned commit: X[-1, J] with a constant and a rank-1 tensor on shape (2,4,4), J = [3]. *)
Lemma eager_scalar_then_tensor_refuted : exists shape idx v v',
  np_modelled idx = true /\ run_eager false shape idx = Some v /\ np_index shape idx = Some v'
  /\ denote shape v <> denote shape v'.
Proof.
  exists [2; 4; 4], [CInt (-1); CT1 [3]]. eexists. eexists.
  split; [reflexivity|]. split; [vm_compute; reflexivity|]. split; [vm_compute; reflexivity|].
  vm_compute. discriminate.
Qed.

Example eager_scalar_then_tensor_values :
  option_map (denote [2; 4; 4]) (run_eager false [2; 4; 4] [CInt (-1); CT1 [3]]) = Some ([4; 1], [19; 23; 27; 31])
  /\ option_map (denote [2; 4; 4]) (np_index [2; 4; 4] [CInt (-1); CT1 [3]]) = Some ([1; 4], [28; 29; 30; 31])
  /\ run_eager true [2; 4; 4] [CInt (-1); CT1 [3]] = np_index [2; 4; 4] [CInt (-1); CT1 [3]].
Proof. repeat split; vm_compute; reflexivity. Qed.

(* The proposed renumbering (fx = true), checked exhaustively on a finite family -- NOT a general theorem:
   every index tuple of length <= 3 over the alphabet below on every shape with dims in 1..3 of rank 3:
   whenever the patched front end returns a view it is the in-place view np_index. *)
Definition fix_alphabet : list comp :=
  [CInt 0; CInt (-2); CSlice BNone BNone BNone; CSlice (BConst 1) BNone BNone; CSlice BNone BNone (BConst (-1));
   CT0 1; CT0 (-1); CT1 [0; -1]; CT1 [1]].
Fixpoint tuples (n : nat) : list (list comp) :=
  match n with
  | O => [[]]
  | S n' => [] :: flat_map (fun t => map (fun c => c :: t) fix_alphabet) (tuples n')
  end.
Definition shapes3 : list (list Z) :=
  flat_map (fun a => flat_map (fun b => map (fun c => [a; b; c]) [1; 2; 3]) [1; 2; 3]) [1; 2; 3].
Definition oview_eqb (a b : option view) : bool :=
  match a, b with
  | Some x, Some y => (Nat.eqb (length x) (length y)) &&
      forallb (fun p => match p with
                        | (Keep l, Keep m) => (Nat.eqb (length l) (length m)) && forallb (fun q => Z.eqb (fst q) (snd q)) (combine l m)
                        | (Pick i, Pick j) => Z.eqb i j
                        | _ => false end) (combine x y)
  | None, _ => true          (* an error is allowed *)
  | Some _, None => false
  end.
Lemma fixed_variant_bounded :
  forallb (fun shape => forallb (fun idx =>
     oview_eqb (run_conv true shape idx) (np_index shape idx) && oview_eqb (run_eager true shape idx) (np_index shape idx))
     (tuples 3)) shapes3 = true.
Proof. vm_compute. reflexivity. Qed.

(* ---- the full statement, and where it stands ---- *)
(* "whatever the front end returns is NumPy's result", for every index expression whose NumPy result is a view *)
Definition converter_full (fx : bool) : Prop := forall shape idx v,
  dims_ok shape -> (length idx <= length shape)%nat -> hazard_free shape idx = true -> np_modelled idx = true ->
  run_conv fx shape idx = Some v -> np_index shape idx = Some v.
Definition eager_full (fx : bool) : Prop := forall shape idx v,
  dims_ok shape -> (length idx <= length shape)%nat -> hazard_free shape idx = true -> np_modelled idx = true ->
  run_eager fx shape idx = Some v -> np_index shape idx = Some v.

Lemma dims_ok_small : forall l, forallb (fun d => (0 <=? d) && (d <=? 1000)) l = true -> dims_ok l.
Proof.
  intros l H. unfold dims_ok. apply Forall_forall. intros d Hd. rewrite forallb_forall in H. specialize (H d Hd).
  unfold MAXI. lia.
Qed.

Lemma converter_full_pinned_refuted : ~ converter_full false.
Proof.
  intros H. specialize (H [2; 3; 4] [CT0 1; CT0 2] [Pick 1; Keep [0; 1; 2]; Pick 2]).
  assert (E : np_index [2; 3; 4] [CT0 1; CT0 2] = Some [Pick 1; Keep [0; 1; 2]; Pick 2]).
  { apply H; try reflexivity; [apply dims_ok_small; reflexivity|cbn; lia]. }
  vm_compute in E. discriminate.
Qed.

Lemma eager_full_pinned_refuted : ~ eager_full false.
Proof.
  intros H. specialize (H [2; 4; 4] [CInt (-1); CT1 [3]] [Pick 1; Keep [0; 1; 2; 3]; Keep [3]]).
  assert (E : np_index [2; 4; 4] [CInt (-1); CT1 [3]] = Some [Pick 1; Keep [0; 1; 2; 3]; Keep [3]]).
  { apply H; try reflexivity; [apply dims_ok_small; reflexivity|cbn; lia]. }
  vm_compute in E. discriminate.
Qed.

(* ---- the hypotheses of the n-d theorems are satisfiable on non-trivial instances ---- *)
Example conv_basic_instance :
  let shape := [3; 4; 2] in
  let idx := [CSlice (BConst (-1)) BNone (BConst (-2)); CInt 2] in
  dims_ok shape /\ tensor_free idx = true /\ hazard_free shape idx = true /\ conv_accepts idx = true
  /\ conv_minus1_ok idx = true /\ conv_slice_path idx = true
  /\ np_index shape idx = Some [Keep [2; 0]; Pick 2; Keep [0; 1]]
  /\ run_conv false shape idx = Some [Keep [2; 0]; Pick 2; Keep [0; 1]].
Proof. cbv zeta. repeat split; try reflexivity. apply dims_ok_small. reflexivity. Qed.

Example conv_gather_instance :   (* X[:, -1]: Gather route *)
  let shape := [3; 4] in
  let idx := [CSlice BNone BNone BNone; CInt (-1)] in
  tensor_free idx = true /\ conv_minus1_ok idx = true /\ conv_slice_path idx = false
  /\ run_conv false shape idx = Some [Keep [0; 1; 2]; Pick 3] /\ np_index shape idx = Some [Keep [0; 1; 2]; Pick 3].
Proof. cbv zeta. repeat split; reflexivity. Qed.

Example eager_basic_instance :   (* eager X[i, j] with rank-0 tensors is NumPy's, unlike the converter *)
  let shape := [2; 3; 4] in
  let idx := [CT0 1; CT0 2] in
  t1_free idx = true /\ hazard_free shape idx = true /\ eager_minus1_ok idx = true
  /\ run_eager false shape idx = Some [Pick 1; Pick 2; Keep [0; 1; 2; 3]]
  /\ np_index shape idx = Some [Pick 1; Pick 2; Keep [0; 1; 2; 3]].
Proof. cbv zeta. repeat split; reflexivity. Qed.

Example minus1_instance :   (* X[-1, 0]: both front ends fail (Squeeze of an empty axis), NumPy does not *)
  run_conv false [3; 4] [CInt (-1); CInt 0] = None /\ run_eager false [3; 4] [CInt (-1); CInt 0] = None
  /\ np_index [3; 4] [CInt (-1); CInt 0] = Some [Pick 2; Pick 0].
Proof. repeat split; reflexivity. Qed.

(* ============================ Part 5: one tensor-valued index among slices ============================ *)
(* The documented forms A[i], A[:, i], A[i:i+j, k]: no constant int, exactly one tensor-valued index (rank 0 or 1),
   any slices.  No axis is removed in front of the Gather, so the original axis number is right -- for both
   variants of the Gather numbering. *)

Definition one_tensor_no_int (idx : list comp) : bool :=
  Nat.eqb (length (filter is_tensor idx)) 1 && Nat.eqb (length (filter is_cint idx)) 0.

Lemma run_slice_gather : forall S a ix shape,
  axes_ok (length shape) (map spec_axis S) = true -> (a < length shape)%nat ->
  run_ops [OSlice S; OGather a ix] (full shape)
  = map_keeps (fun k l => match slice_f S k l with Some (Keep l') => gather_f a ix k l' | _ => None end) 0 (full shape).
Proof.
  intros S a ix shape H1 H2. cbn [run_ops run_op]. rewrite nkeeps_full, H1.
  pose proof (map_keeps_fuse (slice_f S) (gather_f a ix) (slice_f_keepish S) (full shape) 0%nat) as F.
  destruct (map_keeps (slice_f S) 0 (full shape)) as [v1|] eqn:E.
  - rewrite (map_keeps_nkeeps _ (slice_f_keepish S) _ _ _ E), nkeeps_full.
    assert (Nat.ltb a (length shape) = true) as -> by (apply Nat.ltb_lt; assumption).
    rewrite <- F. destruct (map_keeps (gather_f a ix) 0 v1); reflexivity.
  - rewrite <- F. reflexivity.
Qed.

Lemma mapM_py_int_range : forall d js js', mapM (py_int d) js = Some js' -> forall x, In x js' -> 0 <= x < d.
Proof.
  induction js as [|j js IH]; intros js' H x Hx; cbn in H.
  - injection H as <-. contradiction.
  - destruct (py_int d j) as [p|] eqn:Hp; [|discriminate]. destruct (mapM (py_int d) js) as [r|] eqn:Hr; [|discriminate].
    injection H as <-. destruct Hx as [<-|Hx]; [eapply py_int_range; eassumption|eapply IH; [reflexivity|assumption]].
Qed.

Lemma gather_sel_zrange : forall d c, 0 <= d -> is_tensor c = true -> gather_sel (zrange d) (gix c) = sel_of d c.
Proof.
  intros d c Hd Hc. destruct c as [i|a b s|i|l]; try discriminate; cbn [gix gather_sel sel_of]; rewrite zrange_length by assumption.
  - rewrite gather_index_py_int. destruct (py_int d i) as [p|] eqn:Hp; cbn [option_map]; [|reflexivity].
    rewrite zrange_nth by (eapply py_int_range; eassumption). reflexivity.
  - change (gather_index d) with (py_int d). destruct (mapM (py_int d) l) as [js|] eqn:Hj; cbn [option_map]; [|reflexivity].
    rewrite pick_all_zrange by (eapply mapM_py_int_range; eassumption). reflexivity.
Qed.

Definition conv1_pt (idx : list comp) (m : nat) (d : Z) : option sel :=
  match nth_error idx m with
  | Some (CSlice a b s) =>
      if is_trivial (CSlice a b s) then Some (Keep (zrange d)) else option_map Keep (conv_slice d a b s)
  | Some (CInt _) => Some (Keep (zrange d))
  | Some c => sel_of d c
  | None => Some (Keep (zrange d))
  end.

Lemma length_zero_nil {A} : forall l : list A, Nat.eqb (length l) 0 = true -> l = [].
Proof. intros [|x l] H; [reflexivity|discriminate]. Qed.

Theorem conv_one_tensor_sound : forall fx shape idx v,
  dims_ok shape -> one_tensor_no_int idx = true -> (length idx <= length shape)%nat ->
  hazard_free shape idx = true ->
  run_conv fx shape idx = Some v -> np_index shape idx = Some v.
Proof.
  intros fx shape idx v Hd H1 Hlen Hhz H.
  rewrite np_index_pointwise0 by (try apply dims_ok_nonneg; assumption).
  unfold one_tensor_no_int in H1. apply andb_true_iff in H1. destruct H1 as [Ht Hi].
  assert (Hsc : c_scalars idx = []).
  { apply length_zero_nil. unfold c_scalars. rewrite filter_enum_length. assumption. }
  assert (Htn : exists a c, c_tens idx = [(a, c)]).
  { assert (L : length (c_tens idx) = 1%nat).
    { unfold c_tens. rewrite filter_enum_length. apply Nat.eqb_eq. assumption. }
    destruct (c_tens idx) as [|[a c] [|q t]]; try discriminate. exists a, c. reflexivity. }
  destruct Htn as [a [c0 Htn]].
  pose proof (find_axis_enum0 is_tensor idx) as Ftn. fold (c_tens idx) in Ftn. rewrite Htn in Ftn.
  pose proof (find_axis_enum0 is_cint idx) as Fsc. fold (c_scalars idx) in Fsc. rewrite Hsc in Fsc.
  assert (Ha : nth_error idx a = Some c0 /\ is_tensor c0 = true).
  { specialize (Ftn a). cbn in Ftn. rewrite Nat.eqb_refl in Ftn.
    destruct (nth_error idx a) as [c|]; [|discriminate]. destruct (is_tensor c) eqn:E; [|discriminate].
    injection Ftn as ->. split; [reflexivity|assumption]. }
  destruct Ha as [Ha Hc0].
  assert (Hlt : (a < length shape)%nat).
  { assert (a < length idx)%nat by (apply nth_error_Some; congruence). lia. }
  (* the ops are Slice(specs) (possibly with no entry) followed by the one Gather *)
  assert (Hops : exists specs, mapM slice_spec (c_sliced idx) = Some specs /\
            run_ops [OSlice specs; OGather a (gix c0)] (full shape) = Some v).
  { unfold run_conv in H. rewrite conv_ops_cases in H. rewrite Hsc, Htn in H.
    replace (is_nil (c_sliced idx) && is_nil (@nil (nat * comp)) && is_nil [(a, c0)]) with false in H
      by (destruct (c_sliced idx); reflexivity).
    cbn [length Nat.ltb Nat.leb orb map] in H.
    assert (G : forall sq l, gathers fx [] (l ++ sq) = gathers fx [] (l ++ sq)) by reflexivity.
    assert (Hg : gathers fx [] [(a, c0)] = [OGather a (gix c0)]).
    { destruct fx; cbn; [rewrite Nat.sub_0_r|]; reflexivity. }
    destruct (Nat.eqb (length (c_sliced idx)) 0) eqn:El; cbn [negb orb] in H.
    - rewrite (length_zero_nil _ El). exists []. split; [reflexivity|].
      cbn [app] in H. rewrite Hg in H. cbn [run_ops] in *.
      assert (R : run_op (OSlice []) (full shape) = Some (full shape)).
      { cbn. apply map_keeps_id. }
      rewrite R. exact H.
    - destruct (mapM slice_spec (c_sliced idx)) as [specs|]; [|discriminate].
      exists specs. split; [reflexivity|]. rewrite app_nil_r in H. cbn [app] in H. rewrite Hg in H. exact H. }
  destruct Hops as [specs [Hspecs Hrun]].
  rewrite run_slice_gather in Hrun; [|
    rewrite (map_spec_axis_mapM slice_spec slice_spec_axis _ _ Hspecs); unfold c_sliced; apply axes_ok_filter; assumption
    | assumption].
  eapply map_keeps_full_sound; [|exact Hrun].
  intros m d s Hm Hs. cbn [Nat.add] in *. pose proof (dims_ok_nth _ _ _ Hd Hm) as Hdm.
  (* position by position *)
  unfold slice_f, gather_f in Hs.
  destruct (lookup_spec_mapM slice_spec slice_spec_axis (c_sliced idx) specs m Hspecs) as [L1 L2].
  rewrite L1 in Hs. unfold c_sliced in *. rewrite find_axis_enum0 in Hs, L2.
  specialize (Ftn m). specialize (Fsc m). cbn in Ftn, Fsc. unfold np_pt. rewrite zrange_length in * by lia.
  destruct (nth_error idx m) as [c|] eqn:Hc.
  - destruct c as [i|x y st|i|l].
    + discriminate.
    + pose proof (hazard_free_nth _ _ _ _ _ Hhz Hm Hc) as Hh. cbn in Hh.
      assert (Nat.eqb m a = false) as Hma.
      { destruct (Nat.eqb a m) eqn:E; [discriminate|]. rewrite Nat.eqb_sym. assumption. }
      destruct (is_sliced (CSlice x y st)) eqn:Hsl.
      * specialize (L2 _ eq_refl). unfold slice_spec in *. cbn [snd fst] in *.
        destruct (conv_bounds x y st) as [[[p q] r]|] eqn:Hb; [|congruence].
        destruct (onnx_slice d p q r) as [js|] eqn:Hjs; cbn [option_map] in Hs; [|discriminate].
        rewrite Hma in Hs. injection Hs as <-.
        rewrite pick_all_zrange by (intros z Hz; eapply onnx_slice_in_range; [|eassumption|eassumption]; lia).
        cbn [sel_of]. rewrite <- conv_slice_eq_python; try assumption.
        -- unfold conv_slice. rewrite Hb, Hjs. reflexivity.
        -- congruence.
        -- destruct (neg_start_hazard d (bval x) (bval y) (bval st)); [discriminate|reflexivity].
      * rewrite Hma in Hs. injection Hs as <-.
        unfold is_sliced in Hsl. cbn [is_slice andb] in Hsl. destruct x, y, st; try discriminate. reflexivity.
    + cbn [is_sliced is_slice andb is_tensor] in *. destruct (Nat.eqb a m) eqn:E; [|discriminate].
      injection Ftn as ->. rewrite (Nat.eqb_sym m a), E in Hs. rewrite <- Hs. symmetry. apply gather_sel_zrange; [lia|reflexivity].
    + cbn [is_sliced is_slice andb is_tensor] in *. destruct (Nat.eqb a m) eqn:E; [|discriminate].
      injection Ftn as ->. rewrite (Nat.eqb_sym m a), E in Hs. rewrite <- Hs. symmetry. apply gather_sel_zrange; [lia|reflexivity].
  - assert (Nat.eqb m a = false) as Hma.
    { destruct (Nat.eqb a m) eqn:E; [discriminate|]. rewrite Nat.eqb_sym. assumption. }
    rewrite Hma in Hs. exact Hs.
Qed.

Example one_tensor_instance :   (* A[i:i+j, k] with i = 1, j = 2, k = -1 on shape (4,3) *)
  let shape := [4; 3] in
  let idx := [CSlice (BDyn 1) (BDyn 3) BNone; CT0 (-1)] in
  one_tensor_no_int idx = true /\ hazard_free shape idx = true /\ np_modelled idx = true
  /\ run_conv false shape idx = Some [Keep [1; 2]; Pick 2] /\ np_index shape idx = Some [Keep [1; 2]; Pick 2].
Proof. cbv zeta. repeat split; reflexivity. Qed.
