(* C04 -- initializers that are also graph inputs are only defaults: EVERY read of a constant value in _constant_folding.py is
   enumerated from the current source (coq/Gen/ConstReads.v, regenerated fail-closed by harness/c03_tables.py on every run) and is
   behind the graph-input guard or carries a written reason; the data that FoldConstantsPass._do_inference hands to node-level ONNX
   shape inference is a further guarded read site.  Statements only.
   Not covered: ONNX shape inference itself is not modelled (Opt/Fold.v describes the pass with onnx_shape_inference=False); what a
   static shape derived from a default does downstream is observed by the harness family `shape-override` (harness/c04_shapeov.py)
   on onnxruntime with override values.  Reads of constants through other attributes than const_value are not enumerated. *)
From Coq Require Import List String ZArith Bool.
Require Import OV.Graph.Syntax OV.Opt.Fold OV.Gen.ConstReads OV.Opt.ConstReads OV.Opt.ConstReadsProofs.
Import ListNotations.
Local Open Scope string_scope.

Theorem C04_all_const_reads_guarded : all_const_reads_guarded_b = true.
Proof. exact all_const_reads_guarded. Qed.
Print Assumptions C04_all_const_reads_guarded.

Theorem C04_every_const_read_guarded_or_reasoned : forall s, In s const_read_sites -> site_guarded s = true \/ site_reason s <> "".
Proof. exact every_site_guarded_or_reasoned. Qed.
Print Assumptions C04_every_const_read_guarded_or_reasoned.

Theorem C04_do_inference_site_guarded :
  do_inference_reads_through_numpy_value = true /\ sites_of do_inference_fn <> [] /\
  forallb site_guarded (sites_of do_inference_fn) = true.
Proof. exact do_inference_site_guarded. Qed.
Print Assumptions C04_do_inference_site_guarded.

Theorem C04_do_inference_guarded_default_invisible : forall V v_dtype v_dims (st : state V) x,
  mem x (s_guard V st) = true -> infer_data_src V v_dtype v_dims st x = None.
Proof. exact infer_data_src_guarded_invisible. Qed.
Print Assumptions C04_do_inference_guarded_default_invisible.

Theorem C04_do_inference_variants_differ_only_on_guarded : forall V v_dtype v_dims (st : state V) x,
  mem x (s_guard V st) = false -> infer_data V v_dtype v_dims st x = infer_data_unguarded V v_dims st x.
Proof. exact infer_data_variants_agree. Qed.
Print Assumptions C04_do_inference_variants_differ_only_on_guarded.

Theorem C04_do_inference_unguarded_reads_default_refuted : forall V v_dims (v : V),
  Z.leb (v_size V v_dims v) (Z.of_nat do_inference_size_limit) = true ->
  exists st x, mem x (s_guard V st) = true /\ infer_data_unguarded V v_dims st x = Some v.
Proof. exact infer_data_unguarded_reads_default. Qed.
Print Assumptions C04_do_inference_unguarded_reads_default_refuted.
