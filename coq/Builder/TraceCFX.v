(* Model C of C18, every control-flow operator: the direct reading of a trace whose calls carry subgraph bodies
   built through builder.subgraph -- If (then_branch / else_branch), Loop (body; loop-carried values AND scan
   outputs), Scan (body; state variables + scan inputs, num_scan_inputs, default axes / directions) -- with literal
   operands at every level.  Same value identification and fuel discipline as TraceCF.creplay; the results of a call
   are computed by SemX.ncore applied to the READING of its bodies (`rsub`), i.e. by the same function that the
   extended evaluator SemX.eval_node_x applies to the evaluation of the built subgraphs.  No proofs in this file. *)
From Coq Require Import String List Bool Arith ZArith.
Require Import OV.Graph.Syntax OV.Graph.Sem OV.Builder.Strings OV.Builder.Naming OV.Builder.Trace OV.Builder.TraceCF.
Require Import OV.Builder.SemX.
Import ListNotations.
Local Open Scope string_scope.

Section CReplayX.
  Variable V : Type.
  Variable sem : string -> string -> list (string * attrv) -> list (option V) -> option (list V).
  Variable truth : V -> option bool.
  Variable trip : V -> option nat.
  Variable of_nat : nat -> V.
  Variable of_bool : bool -> V.
  Variable lim : nat.
  Variable stack : list V -> V.
  Variable unstack : V -> option (list V).
  Variable lit_val : string -> V.

  Section WithRB.
    Variable rb : venv V -> nat -> sub -> list V -> option (list V).

    (* how the body bound to attribute `name` of a call is read: `nid` = id of the first value of the call's bodies *)
    Definition rsub (E : venv V) (nid : nat) (subs : list (string * sub)) (name : string)
      : option (list V -> option (list V)) :=
      match sub_at name nid subs with Some (k, sb) => Some (rb E k sb) | None => None end.

    Definition creplay_call_x (E : venv V) (nid : nat) (c : call) : option (venv V * nat) :=
      match c with
      | COp _ dom op args attrs subs outs =>
        let nid_out := nid + nvals_subs subs in
        let n := n_outs_of outs in
        match cargs V sem lit_val E args with
        | None => None
        | Some vs =>
          match ncore V sem truth trip of_nat of_bool lim stack unstack (rsub E nid subs) dom op attrs n vs with
          | Some rs => if Nat.eqb (List.length rs) n then Some (vbind V nid_out rs E, nid_out + n) else None
          | None => None
          end
        end
      | CRaw _ _ _ => None
      end.

    Fixpoint creplay_calls_x (E : venv V) (nid : nat) (tr : list call) : option (venv V * nat) :=
      match tr with
      | [] => Some (E, nid)
      | c :: r => match creplay_call_x E nid c with
                  | Some (E', nid') => creplay_calls_x E' nid' r
                  | None => None
                  end
      end.

    Definition creplay_sub_x (E : venv V) (nid : nat) (sb : sub) (args : list V) : option (list V) :=
      match sb with
      | Sub ins body rets _ =>
        if Nat.eqb (List.length ins) (List.length args) then
          match creplay_calls_x (vbind V nid args E) (nid + List.length ins) body with
          | Some (E', _) => vlooks V E' rets
          | None => None
          end
        else None
      end.
  End WithRB.

  Fixpoint creplay_body_x (fuel : nat) : venv V -> nat -> sub -> list V -> option (list V) :=
    match fuel with
    | O => fun _ _ _ _ => None
    | S f => creplay_sub_x (creplay_body_x f)
    end.

  Definition creplay_x (fuel : nat) (tr : list call) (args : list V) (outs : list nat) : option (list V) :=
    match creplay_calls_x (creplay_body_x fuel) (vbind V 0 args []) (List.length args) tr with
    | Some (E, _) => vlooks V E outs
    | None => None
    end.
End CReplayX.

(* calls that have a reading: every COp (whatever its graph-valued attributes), at every depth; nodes spliced in by
   call_inline (CRaw) have none *)
Fixpoint cfx_call (c : call) : bool :=
  match c with
  | COp _ _ _ _ _ subs _ =>
    (fix go (l : list (string * sub)) : bool := match l with [] => true | (_, sb) :: r => cfx_sub sb && go r end) subs
  | CRaw _ _ _ => false
  end
with cfx_sub (sb : sub) : bool :=
  match sb with
  | Sub _ body _ _ => (fix go (l : list call) : bool := match l with [] => true | c :: r => cfx_call c && go r end) body
  end.
Definition cfx_trace (tr : list call) : bool := forallb cfx_call tr.

(* hypotheses of build_computes_trace_cfx, decidable: no raw nodes; the names the build defines are pairwise
   distinct; "?undefined" is none of them; a literal whose cache key is already bound denotes the bound tensor *)
Definition cfx_hypsb (cf : bcfg) (ins : list string) (tr : list call) : bool :=
  let sf := fst (build_state cf ins tr) in
  cfx_trace tr && nodup_strb (all_defined sf) && lits_okb (b_cache sf) (lits_calls tr) &&
  negb (mem_str "?undefined" (all_defined sf)).

(* ---------------------------------------------------------------- correspondence under the toy kernels *)
Definition toy_stack (l : list Z) : Z := ((toy_mix (map Some l) 3 + 5) mod toyP)%Z.
Definition toy_unstack (z : Z) : option (list Z) :=
  Some (map (fun i => ((z * 31 + Z.of_nat i) mod toyP)%Z) (seq 0 (Z.to_nat (z mod 3)%Z))).

Definition toy_agrees_x (cf : bcfg) (c : toy_case) : bool :=
  let '(ins, tr, outs, g, expected) := c in
  let args := toy_args ins in
  let r := creplay_x Z toy_sem toy_truth toy_trip Z.of_nat toy_of_bool 5 toy_stack toy_unstack toy_lit 3 tr args outs in
  let r' := eval_graph_x Z toy_sem toy_truth toy_trip Z.of_nat toy_of_bool 5 toy_stack toy_unstack 4
                         (toy_init (b_cache (fst (build_state cf ins tr)))) g args in
  match expected, r with
  | None, None => negb (cfx_hypsb cf ins tr) || match r' with None => true | Some _ => false end
  | Some x, Some y => lz_eqb y x && match r' with Some z => lz_eqb z y | None => false end
  | _, _ => false
  end.
Fixpoint toy_disagreeing_x (cf : bcfg) (i : nat) (cs : list toy_case) : list nat :=
  match cs with [] => [] | c :: t => ((if toy_agrees_x cf c then [] else [i]) ++ toy_disagreeing_x cf (S i) t)%list end.

Definition tcase_hyps_x (cf : bcfg) (c : tcase) : bool :=
  let '(ins, tr, _, _, _) := c in cfx_hypsb cf ins tr.
