From Coq Require Import ZArith List Bool Lia.
Require Import OV.Rules.Cast.
Import ListNotations.
Local Open Scope Z_scope.

Lemma rne_exact : forall g x, 0 <= g -> x mod 2 ^ g = 0 -> rne g x = x.
Proof.
  intros g x Hg H. unfold rne. cbn zeta. rewrite H.
  assert (0 < 2 ^ g) by (apply Z.pow_pos_nonneg; lia).
  replace (2 * 0 <? 2 ^ g) with true by (symmetry; apply Z.ltb_lt; lia).
  pose proof (Z.div_mod x (2 ^ g)). lia.
Qed.

(* Cast(Cast(x, type2), type3) = Cast(x, type3) when x is representable in type2 (the side condition CastCast does not check) *)
Theorem castcast_sound_if_representable : forall g1 g2 x, 0 <= g1 -> x mod 2 ^ g1 = 0 -> rne g2 (rne g1 x) = rne g2 x.
Proof. intros g1 g2 x H1 H. now rewrite (rne_exact g1 x H1 H). Qed.

(* from a wider source type it is double rounding: 1 + 2^-11 + 2^-30 (a float64) -> float32 -> float16 gives 1,
   the direct cast 1 + 2^-10 *)
Theorem castcast_double_rounding_refuted : exists x, cc_check FLOAT FLOAT16 = true /\ to_f16 (to_f32 x) <> to_f16 x.
Proof. exists (2 ^ 30 + 2 ^ 19 + 1). split; [reflexivity|]. vm_compute. discriminate. Qed.

(* Cast(ConstantOfShape(s, v), to) = ConstantOfShape(s, cast v): elementwise, for any conversion function *)
Theorem cast_constant_of_shape_sound : forall (A B : Type) (f : A -> B) v n,
  map f (const_of_shape n v) = const_of_shape n (f v).
Proof. intros A B f v n. unfold const_of_shape. induction n as [|n IH]; [reflexivity|]. cbn. now rewrite IH. Qed.

(* where numpy accepts the integer it is what ONNX Cast yields ... *)
Theorem np_int_conv_sound : forall lo hi v w, lo <= hi -> np_int_conv lo hi v = Some w -> w = onnx_int_cast lo hi v.
Proof.
  intros lo hi v w Hl H. unfold np_int_conv in H. destruct ((lo <=? v) && (v <=? hi)) eqn:E; [|discriminate].
  inversion H; subst. apply andb_true_iff in E as [E1 E2]. apply Z.leb_le in E1, E2.
  unfold onnx_int_cast. rewrite Z.mod_small by lia. lia.
Qed.

(* ... outside the range the rule raises instead (finding C05:castconstantofshape:raises:out-of-range-value) *)
Theorem np_int_conv_raises : np_int_conv 0 255 300 = None /\ onnx_int_cast 0 255 300 = 44 /\ np_int_conv 0 255 (-1) = None.
Proof. repeat split; reflexivity. Qed.

Example cast_example : to_f32 (2 ^ 30 + 2 ^ 19 + 1) = 2 ^ 30 + 2 ^ 19 /\ to_f16 (2 ^ 30 + 2 ^ 19) = 2 ^ 30
  /\ to_f16 (2 ^ 30 + 2 ^ 19 + 1) = 2 ^ 30 + 2 ^ 20 /\ cc_check FLOAT BFLOAT16 = true /\ cc_check DOUBLE FLOAT16 = false
  /\ ci_check (Some FLOAT) FLOAT = true /\ ci_check None FLOAT = false.
Proof. repeat split; reflexivity. Qed.
