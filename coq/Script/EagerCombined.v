(* eager = plain-Python reading = graph, for functions without attribute parameters: the conjunction of
   TranslateNestProofs.translate_nested_correct (graph) and EagerProofs.eager_eq_script (eager) on the intersection of
   their classes. *)
From Coq Require Import List String ZArith Bool.
Require Import OV.Graph.Syntax OV.Graph.Sem OV.Script.Syntax OV.Script.Sets OV.Gen.Analysis OV.Gen.ScriptTables OV.Script.Translate
               OV.Script.PySem OV.Script.TranslateProofs OV.Script.TranslateNestDefs OV.Script.TranslateNestProofs
               OV.Script.Eager OV.Script.PySemAttrs OV.Script.EagerClass OV.Script.EagerProofs.
Import ListNotations.
Local Open Scope string_scope.

Lemma resolve1_nil : forall attrs, map (resolve1 []) attrs = attrs.
Proof.
  induction attrs as [|[k v] t IH]; [reflexivity|]. cbn [map]. rewrite IH. f_equal. destruct v; reflexivity.
Qed.

Theorem three_way :
  forall (V : Type) sem truth trip of_nat of_bool limit while_limit globals dyn_cast fun_cast is_float,
    (forall v : V, sem "" "Identity" [] [Some v] = Some [v]) ->
    (forall b, truth (of_bool b) = Some b) ->
    (forall v b, truth v = Some b -> exists r, sem "" "Not" [] [Some v] = Some [r] /\ truth r = Some (negb b)) ->
    (forall a b x y, truth a = Some x -> truth b = Some y ->
       exists r, sem "" "And" [] [Some a; Some b] = Some [r] /\ truth r = Some (x && y)) ->
    while_limit <= limit ->
    (forall z c, const_val V sem (LInt z) = Some c -> trip c = Some (Z.to_nat z)) ->
    (forall l c, const_val V sem l = Some c -> dyn_cast l None = Some c) ->
    (forall l c y r, const_val V sem l = Some c -> sem1 V sem "" "CastLike" [] [Some c; Some y] = Some r -> dyn_cast l (Some y) = Some r) ->
    forall wb cic afuel orders f g xs vs fuel2 k pre es S D,
      (wb = true -> forall v, exists b, truth v = Some b) ->
      (forall c b pe v, cic c = Some b -> eval_expr V sem globals pe c = Some v -> ptruth V truth v = Some b) ->
      f_body f = (pre ++ [SReturn es])%list -> pre_ok globals cic afuel wb 11 pre [SReturn es] [] = true -> forallb expr_ok es = true ->
      f_aparams f = [] -> NoDup (f_tparams f) ->
      block_eok S D [] (f_body f) = true -> globals_in S globals = true ->
      translate false globals cic afuel orders f = Some g ->
      eval_script V sem truth trip of_nat while_limit globals (Datatypes.S fuel2) f xs = Some vs ->
      stmt_depth_fuel <= k ->
      eval_graph V sem truth trip of_nat of_bool limit (Datatypes.S k) [] g xs = Some vs /\
      eval_eager V sem truth trip while_limit globals dyn_cast fun_cast is_float (Datatypes.S fuel2) f xs [] = Some vs.
Proof.
  intros V sem truth trip of_nat of_bool limit while_limit globals dyn_cast fun_cast is_float
         Hid Htb Hnot Hand Hlim Htrip L0 L1 wb cic afuel orders f g xs vs fuel2 k pre es S D Hwb Hcic Hbody Hpre Hes Hap Hnd Hcls Hgl Htr Hev Hk.
  split.
  - eapply translate_nested_correct; eassumption.
  - eapply eager_eq_script with (S := S) (D := D) (A := []) (of_nat := of_nat).
    + intros. rewrite resolve1_nil. reflexivity.
    + exact L0.
    + exact L1.
    + exact Hgl.
    + intros a [].
    + intros a k0 l c H. discriminate H.
    + unfold attr_names. rewrite Hap. reflexivity.
    + intros a [].
    + exact Hcls.
    + rewrite eval_script_attrs_nil by exact Hap. exact Hev.
Qed.
