(* The ONNX Script subset of Python accepted by the converter, as first-order data (DESIGN 3.4).
   Mirrors the Python `ast` of the generated programs: operators are named by their `ast` class
   ("Add", "Mult", "NotEq", "USub", ...) so that the converter's operator table can be a
   generated association list.  No proofs in this file. *)
From Coq Require Import List String ZArith Bool.
Require Import OV.Graph.Syntax.
Import ListNotations.
Local Open Scope string_scope.

Inductive lit :=
| LInt (z : Z)
| LFloat (bits : Z)            (* float32 bit pattern of the literal *)
| LBool (b : bool)
| LInts (l : list Z).          (* [2], [4]: a list literal of ints *)

(* value of a keyword argument of a call: a python constant (already an ONNX attribute value) or a name
   (an attribute parameter of the enclosing function) *)
Inductive kwarg :=
| KLit (a : attrv)
| KName (x : string).

Inductive callee :=
| COp (name : string)          (* op.<name>(...) : operator of the default opset *)
| CFun (name : string).        (* <name>(...) : another script function *)

Inductive expr :=
| EVar (x : string)            (* ast.Name: local variable, parameter, attribute parameter or global *)
| ELit (l : lit)               (* ast.Constant / constant list (a negative literal is one literal) *)
| EUn (op : string) (e : expr)
| EBin (op : string) (a b : expr)
| ECmp (op : string) (a b : expr)
| ECall (f : callee) (args : list (option expr)) (kws : list (string * kwarg)).

Inductive stmt :=
| SAssign (x : string) (e : expr)
| STuple (xs : list string) (e : expr)                 (* a, b = call(...) *)
| SIf (c : expr) (t f : list stmt)
| SFor (i : string) (bound : expr) (body : list stmt)  (* for i in range(bound): body *)
| SWhile (c : string) (body : list stmt)               (* while c: body *)
| SBreak
| SReturn (es : list expr).

Inductive akind := AKFloat | AKInt | AKBool.

Record func := {
  f_name : string;
  f_tparams : list string;                               (* tensor parameters, in order *)
  f_aparams : list (string * akind * bool);              (* attribute parameters: name, kind, has a default *)
  f_body : list stmt
}.

(* children in the sense of ast.iter_child_nodes, for the analyses that traverse expressions generically *)
Definition expr_children (e : expr) : list expr :=
  match e with
  | EVar _ | ELit _ => []
  | EUn _ a => [a]
  | EBin _ a b => [a; b]
  | ECmp _ a b => [a; b]
  | ECall _ args _ => (fix go (l : list (option expr)) : list expr :=
                         match l with [] => [] | Some a :: t => a :: go t | None :: t => go t end) args
  end.

(* the `if c: break` statement form *)
Definition is_break_if (s : stmt) : option expr :=
  match s with
  | SIf c [SBreak] _ => Some c
  | _ => None
  end.
