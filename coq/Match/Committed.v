(* C06 -- the committed-choice meaning of a pattern, stated without the matcher's machinery.

   Match/Matcher.v models the algorithm with its real state: a *stack* of partial matches that is pushed when an
   OrValue alternative is entered, popped when the alternative fails and merged into its parent when it succeeds,
   with every lookup scanning the whole stack.  This file gives the meaning that machinery is supposed to realise,
   in the style of the semantics of ordered choice (parsing expression grammars):

   * there is ONE environment `env` (variable -> value, unnamed pattern -> value, pattern node -> host node, and the
     list of matched nodes), threaded left to right through the pattern: operator/domain/attributes of a node, then
     its inputs in order, then its outputs; a pattern node already in the environment must be met at the same host node;
   * a name (or an unnamed pattern) already in the environment must stand for the same thing: a repeated variable binds
     one value;
   * OrValue (`POr`): the alternatives are tried in order *from the environment at the OrValue*; the result of the
     OrValue is the result of the FIRST alternative that matches from that environment -- the choice is committed: a
     failure later in the enclosing pattern is a failure of the whole match, later alternatives are not tried again
     (`cvalue_or_first` in CommittedProofs.v states this law); a failed alternative leaves no trace;
   * OrValue over node outputs with pairwise distinct operators (`PDisp`): the alternative is selected by the
     operator of the producer of the value;
   * several output nodes: the first is the given node, the others range over the nodes with the same operator
     identifier in graph order; the result is that of the first tuple that matches (and, with the removability
     test, is removable).

   `crun` is total and executable; Err = the cases in which the Python raises (see Matcher.v).
   CommittedProofs.v proves   run fl p g root rm = crun (fresh_iter fl) (attr_fix fl) p g root rm   for the repaired flags:
   a match is reported iff the subgraph is an instance under this meaning, with exactly these bindings.
   No proofs in this file. *)
From Coq Require Import List ZArith String Bool Arith.
Require Import OV.Match.Pattern OV.Match.Matcher.
Import ListNotations.

(* one flat environment; the record of Matcher.v is reused: bindings, value bindings, node bindings, matched nodes
   (newest first) *)
Definition env := partial.
Definition empty_env : env := empty_partial.

Definition e_bind (x : string) (b : bval) (e : env) : option env :=
  match assoc String.eqb x (pb e) with
  | Some b' => if bval_eqb b' b then Some e else None
  | None => Some (mkP ((x, b) :: pb e) (pvb e) (pnb e) (pnodes e))
  end.

Definition e_bind_key (k : vkey) (v : option vid) (e : env) : option env :=
  match assoc vkey_eqb k (pvb e) with
  | Some v' => if ovid_eqb v' v then Some e else None
  | None => Some (mkP (pb e) ((k, v) :: pvb e) (pnb e) (pnodes e))
  end.

Definition e_bind_value (name : option string) (k : vkey) (v : option vid) (e : env) : option env :=
  match name with
  | Some x => e_bind x (bv v) e
  | None => e_bind_key k v e
  end.

Definition e_bind_node (p : pid) (n : nid) (e : env) : env :=
  mkP (pb e) (pvb e) ((p, n) :: pnb e) (n :: pnodes e).

Definition e_bind_tag (tagv : option string) (tag : Z) (e : env) : res env :=
  match tagv with
  | None => Ok e
  | Some x => match e_bind x (BTag tag) e with Some e' => Ok e' | None => Err end
  end.

Definition e_bind_attr_name (name : option string) (b : bval) (e : env) : res env :=
  match name with
  | None => Ok e
  | Some x => of_opt (e_bind x b e)
  end.

(* attributes: a constant pattern needs an equal attribute; a variable binds the attribute (or None when the
   attribute is absent and the variable may be None) *)
Fixpoint c_attrs (afix : bool) (pats : list (string * apat)) (h : hnode) (e : env) : res env :=
  match pats with
  | [] => Ok e
  | (name, ap) :: t =>
      match assoc String.eqb name (h_attrs h), ap with
      | None, APConst _ => Fail
      | None, APVar x none_ok =>
          if none_ok then e1 <- e_bind_attr_name x BNone e ;; c_attrs afix t h e1 else Fail
      | Some a, APConst c =>
          match attr_const_matches c a with
          | None => if afix then Fail else Err      (* scalar pattern, list attribute: no match (as read: TypeError) *)
          | Some true => c_attrs afix t h e
          | Some false => Fail
          end
      | Some a, APVar x _ => e1 <- e_bind_attr_name x (BAttr name a) e ;; c_attrs afix t h e1
      end
  end.

Definition c_node_local (afix : bool) (np : npat) (h : hnode) (e : env) : res env :=
  if negb (spat_matches (np_op np) (h_op h)) then Fail else
  if negb (spat_matches (np_dom np) (h_dom h)) then Fail else
  e1 <- c_attrs afix (np_attrs np) h e ;;
  if np_other_attrs np || no_other_attrs np h then Ok e1 else Fail.

Section WithGraph.
Variable afix : bool.
Variable g : hgraph.
Variable tbl : list npat.

Section Value.
Variable rec : pid -> nid -> env -> res env.

Definition c_node_output (p : pid) (i : nat) (v : option vid) (e : env) : res env :=
  match v with
  | None => Fail
  | Some x => match producer g x with
              | None => Fail
              | Some (n, idx) => if Nat.eqb idx i then rec p n e else Fail
              end
  end.

Fixpoint cvalue (pv : vpat) (v : option vid) (e : env) {struct pv} : res env :=
  if boundary_blocks g pv v then Fail else
  match pv with
  | PAny => Ok e
  | PVar x none_ok =>
      e1 <- of_opt (e_bind x (bv v) e) ;;
      match v with None => if none_ok then Ok e1 else Fail | Some _ => Ok e1 end
  | PConst k c =>
      e1 <- of_opt (e_bind_key (KObj k) v e) ;;
      match v with None => Fail | Some x => if const_ok g c x then Ok e1 else Fail end
  | POut p i =>
      e1 <- of_opt (e_bind_value (out_name tbl p i) (KOut p i) v e) ;;
      c_node_output p i v e1
  | POr k name tagv alts =>
      e1 <- of_opt (e_bind_value name (KObj k) v e) ;;
      (* ordered, committed choice: every alternative starts from e1; the first that matches decides *)
      (fix first (l : list (Z * vpat)) : res env :=
         match l with
         | [] => Fail
         | (tag, alt) :: t =>
             match cvalue alt v e1 with
             | Ok e2 => e_bind_tag tagv tag e2
             | Fail => first t
             | Err => Err
             | Soft s => Soft s
             end
         end) alts
  | PDisp k name tagv alts =>
      e1 <- of_opt (e_bind_value name (KObj k) v e) ;;
      match v with
      | None => Fail
      | Some x =>
          match producer g x with
          | None => Fail
          | Some (n, _) =>
              match nth_error (g_nodes g) n with
              | None => Err
              | Some h =>
                  match dispatch tbl alts (h_opid h) with
                  | None => Fail
                  | Some (tag, (q, i)) =>
                      e2 <- of_opt (e_bind_value (out_name tbl q i) (KOut q i) v e1) ;;
                      e3 <- c_node_output q i v e2 ;;
                      e_bind_tag tagv tag e3
                  end
              end
          end
      end
  end.

(* inputs in order; the node's inputs are padded with None up to the number of pattern inputs *)
Fixpoint cinputs (pins : list (option vpat)) (ins : list (option vid)) (e : env) : res env :=
  match pins with
  | [] => Ok e
  | pp :: ptl =>
      let a := match ins with [] => None | a :: _ => a end in
      let atl := match ins with [] => [] | _ :: atl => atl end in
      match pp with
      | None => match a with None => cinputs ptl atl e | Some _ => Fail end
      | Some pv => e1 <- cvalue pv a e ;; cinputs ptl atl e1
      end
  end.
End Value.

(* a pattern node with k outputs needs a host node with at least k outputs; each output pattern stands for the output *)
Fixpoint coutputs (p : pid) (names : list (option string)) (outs : list vid) (i : nat) (e : env) : res env :=
  match names with
  | [] => Ok e
  | name :: t =>
      match outs with
      | [] => Fail
      | o :: outs' => e1 <- of_opt (e_bind_value name (KOut p i) (Some o) e) ;; coutputs p t outs' (S i) e1
      end
  end.

Fixpoint cnode (fuel : nat) (p : pid) (n : nid) (e : env) : res env :=
  match fuel with
  | O => Err
  | S f =>
      match assoc Nat.eqb p (pnb e) with
      | Some m => if Nat.eqb m n then Ok e else Fail
      | None =>
          match nth_error tbl p, nth_error (g_nodes g) n with
          | Some np, Some h =>
              e1 <- c_node_local afix np h e ;;
              let e2 := e_bind_node p n e1 in
              if (List.length (np_ins np) <? List.length (h_ins h)) && negb (np_other_ins np) then Fail else
              e3 <- cinputs (cnode f) (np_ins np) (h_ins h) e2 ;;
              coutputs p (np_outs np) (h_outs h) 0 e3
          | _, _ => Err
          end
      end
  end.

End WithGraph.

(* the values the outputs of the pattern stand for *)
Definition c_output_value (tbl : list npat) (e : env) (pv : vpat) : option bval :=
  let by_name_or_key (name : option string) (k : vkey) :=
    match name with
    | Some x => assoc String.eqb x (pb e)
    | None => option_map bv (assoc vkey_eqb k (pvb e))
    end in
  match pv with
  | PAny => None
  | PVar x _ => assoc String.eqb x (pb e)
  | PConst k _ => by_name_or_key None (KObj k)
  | POut p i => by_name_or_key (out_name tbl p i) (KOut p i)
  | POr k name _ _ => by_name_or_key name (KObj k)
  | PDisp k name _ _ => by_name_or_key name (KObj k)
  end.

Fixpoint c_output_values (tbl : list npat) (e : env) (outs : list vpat) : option (list bval) :=
  match outs with
  | [] => Some []
  | pv :: t => match c_output_value tbl e pv, c_output_values tbl e t with
               | Some b, Some bs => Some (b :: bs)
               | _, _ => None
               end
  end.

Fixpoint croots (afix : bool) (g : hgraph) (p : gpat) (roots : list pid) (cand : list nid) (e : env) : res env :=
  match roots, cand with
  | r :: rt, c :: ct => e1 <- cnode afix g (gp_nodes p) (fuel_for p) r c e ;; croots afix g p rt ct e1
  | _, _ => Ok e
  end.

(* the observable result: bindings (pattern inputs that were not reached are None), the matched nodes in matching
   order, the output values, the node map and the map of unnamed patterns *)
Definition cfinish (g : hgraph) (p : gpat) (removable : bool) (e : env) : res matched :=
  match c_output_values (gp_nodes p) e (gp_outs p) with
  | None => Fail
  | Some outs =>
      let ns := rev (pnodes e) in
      if removable && negb (valid_to_replace g ns outs) then Fail
      else Ok (mkM (fill_inputs (gp_inputs p) (pb e)) ns outs (pnb e) (pvb e))
  end.

Definition ctry (afix : bool) (g : hgraph) (p : gpat) (removable : bool) (cand : list nid) : res matched :=
  match croots afix g p (output_nodes p) cand empty_env with
  | Ok e => cfinish g p removable e
  | Fail => Fail
  | Err => Err
  | Soft s => Soft s
  end.

Fixpoint cfirst (afix : bool) (g : hgraph) (p : gpat) (removable : bool) (cands : list (list nid)) : res matched :=
  match cands with
  | [] => Fail
  | c :: t => match ctry afix g p removable c with
              | Ok m => Ok m
              | Fail => cfirst afix g p removable t
              | Err => Err
              | Soft s => Soft s
              end
  end.

(* `fresh` = every output node without operator identifier ranges over all nodes (the repaired behaviour);
   `afix` = a scalar constant attribute pattern against a list attribute is `no match` (the repaired behaviour; false: Err) *)
Definition crun (fresh afix : bool) (p : gpat) (g : hgraph) (root : nid) (removable : bool) : res matched :=
  match output_nodes p with
  | [] => Err
  | [_] => ctry afix g p removable [root]
  | _ :: others =>
      let ids := map (fun q => match nth_error (gp_nodes p) q with Some np => np_opid np | None => None end) others in
      cfirst afix g p removable (product ([root] :: candidate_lists (mkF true true true fresh afix) (g_nodes g) g ids false))
  end.

(* a committed match, as a relation *)
Definition cmatch (p : gpat) (g : hgraph) (root : nid) (removable : bool) (m : matched) : Prop :=
  crun true true p g root removable = Ok m.
