(* C07 proofs, part 4: a rewrite application placed where Rewrite/Apply.v places it keeps every container
   topologically ordered (main graph, If/Loop bodies at any depth, bodies of model-local functions), over a pass and
   over a model; the stable topological sort returns an ordered permutation and leaves ordered lists alone. *)
From Coq Require Import List String ZArith Bool Arith Lia Permutation.
Require Import OV.Graph.Syntax OV.Graph.Sem OV.Graph.Names OV.Graph.Wf OV.Graph.SemProofs.
Require Import OV.Rewrite.Apply OV.Rewrite.ApplyProofs OV.Rewrite.KeepProofs OV.Rewrite.Order.
Import ListNotations.
Local Open Scope list_scope.

Lemma topo_node_eq d o ins outs a subs vis :
  topo_node vis (Node d o ins outs a subs) = all_in (present ins) vis && topo_subs vis subs.
Proof.
  cbn [topo_node]. f_equal. induction subs as [|[k g] t IH]; [reflexivity|].
  cbn [topo_subs]. rewrite <- IH. reflexivity.
Qed.

Lemma topo_graph_eq gi gn ns go vis :
  topo_graph vis (Graph gi gn ns go) = topo_nodes (gi ++ gn ++ vis) ns.
Proof. reflexivity. Qed.

Lemma all_in_spec xs vis : all_in xs vis = true <-> (forall x, In x xs -> In x vis).
Proof.
  unfold all_in. rewrite forallb_forall. split; intros H x Hx; specialize (H x Hx).
  - apply mem_In; exact H.
  - apply mem_In; exact H.
Qed.

(* ---- relevance: the order predicate depends on the visible names only through the names the node mentions ---- *)
Lemma depth_subs_le (subs : list (string * graph)) k key g :
  (fix go (l : list (string * graph)) : nat :=
     match l with [] => 0 | (_, g) :: t => Nat.max (depth_graph g) (go t) end) subs <= k ->
  In (key, g) subs -> depth_graph g <= k.
Proof.
  induction subs as [|[k0 g0] t IH]; intros D I; [destruct I|]. destruct I as [E|I].
  - inversion E; subst. lia.
  - apply IH; [lia|exact I].
Qed.

Lemma topo_rel_n : forall k,
  (forall n, depth_node n <= k -> forall v v',
      (forall x, In x (names_node n) -> In x v -> In x v') -> topo_node v n = true -> topo_node v' n = true) /\
  (forall g, depth_graph g <= k -> forall v v',
      (forall x, In x (names_graph g) -> In x v -> In x v') -> topo_graph v g = true -> topo_graph v' g = true).
Proof.
  induction k as [|k [IHn IHg]].
  - split; [intros [? ? ? ? ? ?]|intros [? ? ? ?]]; cbn; intros; lia.
  - split.
    + intros [d o ins outs at_ subs] D v v' R T.
      rewrite topo_node_eq in *. rewrite names_node_eq in R.
      apply andb_true_iff in T. destruct T as [T1 T2]. apply andb_true_iff. split.
      * apply all_in_spec. intros x Hx. apply R; [apply in_or_app; left; exact Hx|].
        eapply all_in_spec; eassumption.
      * cbn [depth_node] in D. apply le_S_n in D.
        assert (R' : forall x, In x (names_subs subs) -> In x v -> In x v').
        { intros x Hx. apply R. apply in_or_app; right. apply in_or_app; right. exact Hx. }
        clear R T1. revert D R' T2.
        induction subs as [|[key g] t IH]; intros D R' T; [reflexivity|].
        cbn [topo_subs] in *. apply andb_true_iff in T. destruct T as [Tg Tt].
        apply andb_true_iff. split.
        -- eapply IHg; [lia| |exact Tg]. intros x Hx. apply R'. cbn [names_subs]. apply in_or_app; left; exact Hx.
        -- apply IH; [lia| |exact Tt]. intros x Hx. apply R'. cbn [names_subs]. apply in_or_app; right; exact Hx.
    + intros [gi gn ns go] D v v' R T.
      rewrite topo_graph_eq in *. rewrite names_graph_eq in R.
      cbn [depth_graph] in D. apply le_S_n in D.
      assert (R' : forall x, In x (names_nodes ns) -> In x (gi ++ gn ++ v) -> In x (gi ++ gn ++ v')).
      { intros x Hx Hv. apply in_app_or in Hv. destruct Hv as [Hv|Hv]; [apply in_or_app; left; exact Hv|].
        apply in_app_or in Hv. destruct Hv as [Hv|Hv]; [apply in_or_app; right; apply in_or_app; left; exact Hv|].
        apply in_or_app; right; apply in_or_app; right. apply R; [|exact Hv].
        apply in_or_app; right; apply in_or_app; right; apply in_or_app; right; exact Hx. }
      clear R. revert D R' T. generalize (gi ++ gn ++ v) (gi ++ gn ++ v'). clear gi gn go v v'.
      induction ns as [|n t IH]; intros w w' D R T; [reflexivity|].
      cbn [topo_nodes] in *. apply andb_true_iff in T. destruct T as [Tn Tt].
      apply andb_true_iff. split.
      * eapply IHn; [lia| |exact Tn]. intros x Hx. apply R. cbn [names_nodes]. apply in_or_app; left; exact Hx.
      * eapply IH; [lia| |exact Tt]. intros x Hx Hv.
        apply in_app_or in Hv. destruct Hv as [Hv|Hv]; [apply in_or_app; left; exact Hv|].
        apply in_or_app; right. apply R; [|exact Hv]. cbn [names_nodes]. apply in_or_app; right; exact Hx.
Qed.

Lemma topo_node_rel n v v' :
  (forall x, In x (names_node n) -> In x v -> In x v') -> topo_node v n = true -> topo_node v' n = true.
Proof. apply (proj1 (topo_rel_n (depth_node n))). lia. Qed.

Lemma topo_graph_rel g v v' :
  (forall x, In x (names_graph g) -> In x v -> In x v') -> topo_graph v g = true -> topo_graph v' g = true.
Proof. apply (proj2 (topo_rel_n (depth_graph g))). lia. Qed.

Lemma topo_nodes_rel ns : forall v v',
  (forall x, In x (names_nodes ns) -> In x v -> In x v') -> topo_nodes v ns = true -> topo_nodes v' ns = true.
Proof.
  induction ns as [|n t IH]; intros v v' R T; [reflexivity|].
  cbn [topo_nodes] in *. apply andb_true_iff in T. destruct T as [Tn Tt]. apply andb_true_iff. split.
  - eapply topo_node_rel; [|exact Tn]. intros x Hx. apply R. cbn [names_nodes]. apply in_or_app; left; exact Hx.
  - eapply IH; [|exact Tt]. intros x Hx Hv.
    apply in_app_or in Hv. destruct Hv as [Hv|Hv]; [apply in_or_app; left; exact Hv|].
    apply in_or_app; right. apply R; [|exact Hv]. cbn [names_nodes]. apply in_or_app; right; exact Hx.
Qed.

Lemma topo_nodes_incl ns v v' : incl v v' -> topo_nodes v ns = true -> topo_nodes v' ns = true.
Proof. intros I. apply topo_nodes_rel. intros x _ Hx. apply I; exact Hx. Qed.

Lemma topo_graph_incl g v v' : incl v v' -> topo_graph v g = true -> topo_graph v' g = true.
Proof. intros I. apply topo_graph_rel. intros x _ Hx. apply I; exact Hx. Qed.

(* ---- concatenation ---------------------------------------------------------------------------------- *)
Lemma topo_nodes_app a : forall b v,
  topo_nodes v (a ++ b) = true <-> topo_nodes v a = true /\ topo_nodes (vis_after v a) b = true.
Proof.
  unfold vis_after. induction a as [|n t IH]; intros b v.
  - cbn. tauto.
  - cbn [List.app topo_nodes defs_nodes flat_map]. rewrite andb_true_iff, andb_true_iff, IH.
    assert (E : topo_nodes (flat_map n_outs t ++ n_outs n ++ v) b = true
                <-> topo_nodes ((n_outs n ++ flat_map n_outs t) ++ v) b = true).
    { split; apply topo_nodes_incl; intros x Hx; repeat (apply in_app_or in Hx; destruct Hx as [Hx|Hx]);
        repeat rewrite in_app_iff; tauto. }
    unfold defs_nodes in *. tauto.
Qed.

(* ---- what remains of the window is ordered ------------------------------------------------------------ *)
Lemma indep_all_names n l : forallb (indepb n) l = true ->
  forall x, In x (names_nodes l) -> ~ In x (n_outs n).
Proof.
  induction l as [|u t IH]; intros H x Hx; [destruct Hx|].
  cbn [forallb] in H. apply andb_true_iff in H. destruct H as [Hu Ht].
  cbn [names_nodes] in Hx. apply in_app_or in Hx. destruct Hx as [Hx|Hx].
  - unfold indepb in Hu. apply andb_true_iff in Hu. destruct Hu as [H1 _].
    apply disjointb_sound in H1. intro Hn. exact (H1 x Hn Hx).
  - apply IH; assumption.
Qed.

(* removing rule: the unmatched nodes of the window, in their order *)
Lemma unsel_ordered mask : forall win v,
  movableb mask win = true -> topo_nodes v win = true -> topo_nodes v (unsel mask win) = true.
Proof.
  induction mask as [|b mt IH]; intros [|n t] v M T; try exact T; try reflexivity.
  cbn [movableb] in M. apply andb_true_iff in M. destruct M as [Mn Mt].
  cbn [topo_nodes] in T. apply andb_true_iff in T. destruct T as [Tn Tt].
  specialize (IH t _ Mt Tt).
  destruct b; cbn [unsel List.app].
  - eapply topo_nodes_rel; [|exact IH]. intros x Hx Hv.
    apply in_app_or in Hv. destruct Hv as [Hv|Hv]; [|exact Hv].
    exfalso. exact (indep_all_names n _ Mn x Hx Hv).
  - cbn [topo_nodes]. apply andb_true_iff. split; assumption.
Qed.

Lemma topo_node_rename dead n v : topo_node v (rename_outs dead n) = topo_node v n.
Proof. destruct n as [d o i outs a s]. reflexivity. Qed.

(* keeping rule: the window with the outputs of the root renamed to their dead names *)
Lemma renamed_ordered dead : forall win mask v,
  disjoint (map fst dead) (defs_nodes (removelast win)) ->
  topo_nodes v win = true -> topo_nodes v (renamed dead mask win) = true.
Proof.
  induction win as [|n t IH]; intros [|b mt] v D T; try exact T; try reflexivity.
  cbn [renamed]. cbn [topo_nodes] in T. apply andb_true_iff in T. destruct T as [Tn Tt].
  destruct t as [|n2 t2].
  - destruct mt; cbn [renamed topo_nodes]; rewrite andb_true_r;
      (destruct b; [rewrite topo_node_rename|]; exact Tn).
  - assert (Dn : disjoint (map fst dead) (n_outs n)).
    { intros x Hx Hn. apply (D x Hx). change (removelast (n :: n2 :: t2)) with (n :: removelast (n2 :: t2)).
      unfold defs_nodes. cbn [flat_map]. apply in_or_app; left; exact Hn. }
    assert (Dt : disjoint (map fst dead) (defs_nodes (removelast (n2 :: t2)))).
    { intros x Hx Hn. apply (D x Hx). change (removelast (n :: n2 :: t2)) with (n :: removelast (n2 :: t2)).
      unfold defs_nodes. cbn [flat_map]. apply in_or_app; right; exact Hn. }
    assert (E : (if b then rename_outs dead n else n) = n).
    { destruct b; [apply rename_outs_id; exact Dn|reflexivity]. }
    rewrite E. cbn [topo_nodes]. apply andb_true_iff. split; [exact Tn|].
    apply IH; assumption.
Qed.

(* ---- one application at a node list --------------------------------------------------------------------- *)
Theorem apply_nodes_order : forall vis a ns ns',
  order_okb vis a ns = true -> topo_nodes vis ns = true -> apply_nodes a ns = Some ns' ->
  topo_nodes vis ns' = true.
Proof.
  intros vis a ns ns' O T A.
  unfold apply_nodes in A. unfold order_okb in O.
  apply andb_true_iff in O. destruct O as [O O4].
  apply andb_true_iff in O. destruct O as [O O3].
  apply andb_true_iff in O. destruct O as [O1 O2].
  rewrite O1 in A.
  inversion A; subst ns'; clear A.
  set (k := List.length (a_mask a)) in *.
  fold (window_kept a ns) in *. set (K := window_kept a ns) in *.
  rewrite <- (firstn_skipn k ns) in T. apply topo_nodes_app in T. destruct T as [Tw Tr].
  apply topo_nodes_app. split; [|apply topo_nodes_app; split].
  - unfold K, window_kept. fold k. destruct (a_remove a).
    + rewrite kept_remove. apply unsel_ordered; assumption.
    + rewrite kept_keep. apply renamed_ordered; [apply disjointb_sound; assumption|exact Tw].
  - exact O3.
  - eapply topo_nodes_rel; [|exact Tr]. unfold vis_after. intros x Hx Hv.
    apply in_app_or in Hv. destruct Hv as [Hv|Hv].
    + rewrite forallb_forall in O4. specialize (O4 x Hv).
      apply orb_true_iff in O4. destruct O4 as [H|H].
      * apply negb_true_iff in H. apply (proj2 (mem_In x _)) in Hx. congruence.
      * apply mem_In in H. repeat rewrite in_app_iff in *. tauto.
    + repeat rewrite in_app_iff. tauto.
Qed.

(* ---- at any nesting level ---------------------------------------------------------------------------------- *)
Lemma nth_error_split_at {A} (l : list A) : forall i x, nth_error l i = Some x ->
  l = firstn i l ++ x :: skipn (S i) l.
Proof.
  induction l as [|h t IH]; intros [|i] x E; cbn in *; try discriminate.
  - inversion E; reflexivity.
  - f_equal. apply IH. exact E.
Qed.

Lemma set_nth_split_at {A} (l : list A) : forall i x y, nth_error l i = Some x ->
  set_nth i y l = firstn i l ++ y :: skipn (S i) l.
Proof.
  induction l as [|h t IH]; intros [|i] x y E; cbn in *; try discriminate.
  - reflexivity.
  - f_equal. eapply IH. exact E.
Qed.

Lemma topo_subs_find v subs : forall key sg,
  topo_subs v subs = true -> find_sub key subs = Some sg -> topo_graph v sg = true.
Proof.
  induction subs as [|[k g] t IH]; intros key sg T F; cbn in *; [discriminate|].
  apply andb_true_iff in T. destruct T as [Tg Tt].
  destruct (String.eqb k key); [inversion F; subst; exact Tg|eapply IH; eassumption].
Qed.

Lemma topo_subs_set v subs : forall key sg',
  topo_subs v subs = true -> topo_graph v sg' = true -> topo_subs v (set_sub key sg' subs) = true.
Proof.
  induction subs as [|[k g] t IH]; intros key sg' T G; cbn in *; [reflexivity|].
  apply andb_true_iff in T. destruct T as [Tg Tt].
  destruct (String.eqb k key); cbn [topo_subs]; apply andb_true_iff; split; auto.
Qed.

Theorem apply_at_order : forall p a vis g g',
  order_ok_at vis p a g = true -> topo_graph vis g = true -> apply_at p a g = Some g' ->
  topo_graph vis g' = true.
Proof.
  induction p as [|[idx key] p IH]; intros a vis [gi gn ns go] g' O T A.
  - cbn in A. destruct (apply_nodes a ns) as [ns'|] eqn:E; cbn in A; [|discriminate].
    inversion A; subst. rewrite topo_graph_eq in *. cbn [order_ok_at] in O.
    eapply apply_nodes_order; eassumption.
  - cbn [apply_at] in A. cbn [order_ok_at] in O.
    destruct (nth_error ns idx) as [[d op ins outs at_ subs]|] eqn:N; [|discriminate].
    cbn [n_subs] in O.
    destruct (find_sub key subs) as [sg|] eqn:F; [|discriminate].
    destruct (apply_at p a sg) as [sg'|] eqn:E; [|discriminate].
    inversion A; subst g'; clear A.
    rewrite topo_graph_eq in *.
    rewrite (set_nth_split_at ns idx _ _ N).
    rewrite (nth_error_split_at ns idx _ N) in T.
    apply topo_nodes_app in T. destruct T as [Tp Tn].
    apply topo_nodes_app. split; [exact Tp|].
    cbn [topo_nodes] in *. apply andb_true_iff in Tn. destruct Tn as [Tn Tr].
    apply andb_true_iff. split; [|exact Tr].
    rewrite topo_node_eq in *. apply andb_true_iff in Tn. destruct Tn as [Ti Ts].
    apply andb_true_iff. split; [exact Ti|].
    apply topo_subs_set; [exact Ts|].
    eapply IH; [exact O| |exact E].
    eapply topo_subs_find; eassumption.
Qed.

(* ---- a pass over one container, and over the containers of a model ------------------------------------------ *)
Theorem apply_pass_order : forall ext l g g',
  order_ok_pass ext l g = true -> topo_graph ext g = true -> apply_pass l g = Some g' ->
  topo_graph ext g' = true.
Proof.
  induction l as [|[p a] t IH]; intros g g' O T A; cbn in *.
  - inversion A; subst; exact T.
  - apply andb_true_iff in O. destruct O as [O1 O2].
    destruct (apply_at p a g) as [g1|] eqn:E; [|discriminate].
    eapply IH; [exact O2| |exact A]. eapply apply_at_order; eassumption.
Qed.

Lemma forallb_set_nth {A} (f : A -> bool) (l : list A) : forall i x,
  forallb f l = true -> f x = true -> forallb f (set_nth i x l) = true.
Proof.
  induction l as [|h t IH]; intros [|i] x F X; cbn in *; auto;
    apply andb_true_iff in F; destruct F as [F1 F2]; apply andb_true_iff; split; auto.
Qed.

Lemma forallb_nth_error {A} (f : A -> bool) (l : list A) : forall i x,
  forallb f l = true -> nth_error l i = Some x -> f x = true.
Proof.
  intros i x F N. rewrite forallb_forall in F. apply F. eapply nth_error_In; exact N.
Qed.

Theorem apply_model_order : forall ext l cs cs',
  order_ok_model ext l cs = true -> model_sorted ext cs = true -> apply_model_pass l cs = Some cs' ->
  model_sorted ext cs' = true.
Proof.
  unfold model_sorted. induction l as [|[[c p] a] t IH]; intros cs cs' O T A; cbn in *.
  - inversion A; subst; exact T.
  - destruct (nth_error cs c) as [g|] eqn:N; [|discriminate].
    apply andb_true_iff in O. destruct O as [O1 O2].
    destruct (apply_at p a g) as [g1|] eqn:E; [|discriminate].
    eapply IH; [exact O2| |exact A].
    apply forallb_set_nth; [exact T|].
    eapply apply_at_order; [exact O1| |exact E].
    eapply forallb_nth_error; eassumption.
Qed.

(* what the correspondence evaluates on the real data *)
Theorem check_order_sound : forall ext l g g',
  check_order ext l g = true -> apply_pass (map fst l) g = Some g' -> topo_graph ext g' = true.
Proof.
  unfold check_order. intros ext l g g' C A. apply andb_true_iff in C. destruct C as [C1 C2].
  eapply apply_pass_order; eassumption.
Qed.

(* ---- the stable topological sort ----------------------------------------------------------------------------- *)
Lemma pick_ready_spec vis : forall ns n rest, pick_ready vis ns = Some (n, rest) ->
  topo_node vis n = true /\ Permutation ns (n :: rest).
Proof.
  induction ns as [|h t IH]; intros n rest P; cbn in P; [discriminate|].
  destruct (topo_node vis h) eqn:Th.
  - inversion P; subst. split; [exact Th|apply Permutation_refl].
  - destruct (pick_ready vis t) as [[m t']|] eqn:Pt; [|discriminate].
    inversion P; subst. destruct (IH _ _ eq_refl) as [Tm Pm]. split; [exact Tm|].
    eapply Permutation_trans; [apply perm_skip; exact Pm|apply perm_swap].
Qed.

Theorem stable_sort_ordered : forall fuel vis ns l, stable_sort fuel vis ns = Some l ->
  topo_nodes vis l = true /\ Permutation ns l.
Proof.
  induction fuel as [|f IH]; intros vis ns l S.
  - destruct ns; cbn in S; [inversion S; subst; split; [reflexivity|constructor]|discriminate].
  - destruct ns as [|h t]; [cbn in S; inversion S; subst; split; [reflexivity|constructor]|].
    cbn [stable_sort] in S.
    destruct (pick_ready vis (h :: t)) as [[n rest]|] eqn:P; [|discriminate].
    destruct (stable_sort f (n_outs n ++ vis) rest) as [l'|] eqn:R; [|discriminate].
    inversion S; subst l; clear S.
    destruct (pick_ready_spec _ _ _ _ P) as [Tn Pn]. destruct (IH _ _ _ R) as [Tl Pl].
    split.
    + cbn [topo_nodes]. apply andb_true_iff. split; assumption.
    + eapply Permutation_trans; [exact Pn|apply perm_skip; exact Pl].
Qed.

(* "the sort is stable, sorted graphs are unchanged" *)
Theorem stable_sort_sorted_id : forall ns vis, topo_nodes vis ns = true ->
  stable_sort (List.length ns) vis ns = Some ns.
Proof.
  induction ns as [|h t IH]; intros vis T; [reflexivity|].
  cbn [topo_nodes] in T. apply andb_true_iff in T. destruct T as [Th Tt].
  cbn [List.length stable_sort pick_ready]. rewrite Th. rewrite (IH _ Tt). reflexivity.
Qed.
