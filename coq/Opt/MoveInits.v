(* C03 / C04: model of `_move_initializers_to_graph(src, dst)` in onnxscript/optimizer/_constant_folding.py, the helper of the If partial
   evaluator (`if_op`) that moves the initializers of the taken branch into the graph that owns the If node:

       counter = {}
       for name in list(src.initializers):              # dict: the names of src are pairwise distinct
           initializer = src.initializers.pop(name)
           new_name = name
           while new_name in dst.initializers:          # fresh_name_search_loops (Gen/MoveInits.v): a `while` in the source
               counter[name] = counter.get(name, 0) + 1
               new_name = f"{name}_{counter[name]}"
           if new_name != name: initializer.name = new_name
           dst.register_initializer(initializer)        # raises ValueError when the name is registered for another value

   The counter of a name starts at 0 for every name of every call, so the chosen name is `name` itself when it is free, else the FIRST
   `name_<n>`, n = 1, 2, ..., that is not an initializer name of dst at that moment (names moved earlier in the same call included).
   Renaming the ir.Value renames every use of it (uses hold the object), which the name-based model of the pass (Opt/Fold.v pe_if)
   does not need on its domain: there the names are unique across graphs, no name clashes, and the move is the identity on names
   (move_inits_no_clash).  Only the initializer names of dst are consulted - other values of dst with that name are repaired later by
   NameFixPass (not modelled here).  `first_free` and `nat_to_string` are those of C07's naming model (Rewrite/State.v).
   No proofs in this file. *)
From Coq Require Import List String Bool.
Require Import OV.Graph.Syntax OV.Rewrite.State OV.Gen.MoveInits.
Import ListNotations.
Local Open Scope string_scope.

Definition bumped (name : string) (k : nat) : string := name ++ "_" ++ nat_to_string k.

(* the `while` loop: at most S (length dst) candidates are needed (pigeonhole) *)
Definition fresh_init_name (name : string) (dst : list string) : option string :=
  if mem name dst then option_map (bumped name) (first_free (bumped name) dst (S (List.length dst)) 1)
  else Some name.

(* the single `if` (one bump, no re-test): what register_initializer then does with a taken name is to raise *)
Definition fresh_init_name_once (name : string) (dst : list string) : option string :=
  if mem name dst then (if mem (bumped name 1) dst then None else Some (bumped name 1)) else Some name.

Section Move.
  Variable choose : string -> list string -> option string.
  (* -> (renaming old name -> new name in the order of src, initializer names of dst afterwards); None = the real code raises *)
  Fixpoint move_with (src dst : list string) : option (list (string * string) * list string) :=
    match src with
    | [] => Some ([], dst)
    | x :: r =>
      match choose x dst with
      | None => None
      | Some y => match move_with r (dst ++ [y])%list with
                  | Some (ren, d) => Some ((x, y) :: ren, d)
                  | None => None
                  end
      end
    end.
  (* several calls in a row: the taken branches of sibling / nested constant-condition Ifs, in the order the folder inlines them *)
  Fixpoint move_many_with (srcs : list (list string)) (dst : list string) : option (list (list (string * string)) * list string) :=
    match srcs with
    | [] => Some ([], dst)
    | s :: r =>
      match move_with s dst with
      | None => None
      | Some (ren, d) => match move_many_with r d with
                         | Some (rens, d') => Some (ren :: rens, d')
                         | None => None
                         end
      end
    end.
End Move.

Definition move_inits := move_with fresh_init_name.
Definition move_inits_once := move_with fresh_init_name_once.
Definition move_many := move_many_with fresh_init_name.
Definition move_many_once := move_many_with fresh_init_name_once.
(* what the current source does *)
Definition move_inits_src := if fresh_name_search_loops then move_inits else move_inits_once.
Definition move_many_src := if fresh_name_search_loops then move_many else move_many_once.

(* comparison with an observed call of the real helper: (src names, dst names before, raised, new names of the moved values, dst names after) *)
Definition lists_eqb (a b : list string) : bool :=
  Nat.eqb (List.length a) (List.length b) && forallb (fun p => String.eqb (fst p) (snd p)) (combine a b).
Definition observed_ok (src dst : list string) (raised : bool) (news after : list string) : bool :=
  match move_inits_src src dst with
  | None => raised
  | Some (ren, d) => negb raised && lists_eqb (map fst ren) src && lists_eqb (map snd ren) news && lists_eqb d after
  end.
