(* C18, part 2: "Inlining a function gives the same results as calling it, all value and node names are
   unique".  Statements only, each closed by `exact`, Print Assumptions beneath.
   Model D: coq/Builder/Inline.v (instantiate + Cloner + the renaming of call_inline, on names);
   proofs in InlineProofs.v over the shared evaluator OV.Graph.Sem for an arbitrary kernel semantics. *)
From Coq Require Import String Ascii List Bool Arith ZArith.
Require Import OV.Graph.Syntax OV.Graph.Sem OV.Graph.Names OV.Graph.SemProofs.
Require Import OV.Builder.Strings OV.Builder.Naming OV.Builder.Inline OV.Builder.InlineProofs.
Import ListNotations.
Local Open Scope string_scope.

(* --- inline = call.  `c : icfg` is the variant of _inliner.instantiate the harness probes on every run
   (icfg_pinned = the tree as read; icfg_fixed = with proposed_fixes/ready/C18_01 and C18_02: inputs of
   cloned subgraphs prefixed, missing actuals mapped to None); the theorem holds for every variant.
   For every kernel semantics, function f (body with nested If/Loop subgraphs, reference
   attributes with / without declared default), call site s (scope, _prefix, node counter, actuals of which
   some may be omitted or missing, call-site attributes, _outputs) and caller environment e in which the
   actuals have the values vs: if the executable side conditions `inline_okb f s` hold, running the nodes
   produced by call_inline from e binds the renamed outputs to exactly the values the call computes from the
   body (call_sem: body evaluated with NO outer scope, formals bound to the values of the actuals, a formal
   without value read as the empty name, reference attributes resolved by call-site value, else declared
   default, else dropped), and every name of e other than the names defined by the inlined nodes keeps its
   value.  If the call fails, the inlined nodes fail or leave an output unbound.
   `inline_okb` (evaluated by the harness on every generated case): formals distinct; not more actuals than
   formals; _outputs has the right length; the body is closed (uses only formals that have an actual and
   earlier definitions, scoped); the NEW names of the definitions of one node are distinct and are not the new
   name of any other visible value - in particular not the name of an actual, and a subgraph input (which
   the Cloner does not rename) is not the name of an actual -; subgraphs have no initializers; every output
   is defined by a top-level body node (a returned formal makes call_inline rename a value of the CALLER,
   which the name-based model does not express: the harness observes that class directly).
   Not covered: scan outputs of Loop and Scan bodies (OV.Graph.Sem does not model them); type/shape
   annotations; that the inlined names are not names of the calling graph (`inline_fresh`, evaluated per
   case; the naming theorems below give the general part). *)
Theorem C18_inline_eq_call :
  forall (V : Type) (sem : string -> string -> list (string * attrv) -> list (option V) -> option (list V))
         (truth : V -> option bool) (trip : V -> option nat) (of_nat : nat -> V) (of_bool : bool -> V) (limit : nat)
         (c : icfg) (fuel : nat) (f : func) (s : site) (e : list (vname * V)) (vs : list (option V)),
  inline_okb c f s = true -> lookup_opts e (s_actuals s) = Some vs ->
  match call_sem V sem truth trip of_nat of_bool limit (S fuel) f (s_attrs s) vs with
  | Some rs => exists e', run V sem truth trip of_nat of_bool limit
                              (eval_graph V sem truth trip of_nat of_bool limit fuel) e (inline_nodes c f s) = Some e'
                          /\ lookups e' (inline_outs c f s) = Some rs
                          /\ agree_except V (defs_nodes (inline_nodes c f s)) e e'
  | None => match run V sem truth trip of_nat of_bool limit
                    (eval_graph V sem truth trip of_nat of_bool limit fuel) e (inline_nodes c f s) with
            | Some e' => lookups e' (inline_outs c f s) = None
            | None => True
            end
  end.
Proof. exact inline_eq_call. Qed.
Print Assumptions C18_inline_eq_call.

(* the same against the function-call NODE, for any kernel semantics that interprets a call of f by f's body
   (premise; it also covers bodies that call other functions: inner calls stay call nodes after one level of
   inlining and are interpreted by the same `sem` on both sides) *)
Theorem C18_inline_eq_call_node :
  forall (V : Type) (sem : string -> string -> list (string * attrv) -> list (option V) -> option (list V))
         (truth : V -> option bool) (trip : V -> option nat) (of_nat : nat -> V) (of_bool : bool -> V) (limit : nat)
         (c : icfg) (fuel : nat) (f : func) (s : site) (e : list (vname * V)) (outs : list vname),
  (forall attrs vs, sem (f_dom f) (f_name f) attrs vs = call_sem V sem truth trip of_nat of_bool limit (S fuel) f attrs vs) ->
  is_if (f_dom f) (f_name f) = false -> is_loop (f_dom f) (f_name f) = false ->
  inline_okb c f s = true -> lookup_opts e (s_actuals s) <> None ->
  NoDup outs -> List.length outs = List.length (f_outs f) ->
  match eval_node V sem truth trip of_nat of_bool limit
                  (eval_graph V sem truth trip of_nat of_bool limit fuel) e (call_node f s outs) with
  | Some ec => exists ei, run V sem truth trip of_nat of_bool limit
                              (eval_graph V sem truth trip of_nat of_bool limit fuel) e (inline_nodes c f s) = Some ei
                          /\ lookups ei (inline_outs c f s) = lookups ec outs
                          /\ lookups ec outs <> None
                          /\ agree_except V (defs_nodes (inline_nodes c f s)) e ei
                          /\ agree_except V outs e ec
  | None => match run V sem truth trip of_nat of_bool limit
                    (eval_graph V sem truth trip of_nat of_bool limit fuel) e (inline_nodes c f s) with
            | Some ei => lookups ei (inline_outs c f s) = None
            | None => True
            end
  end.
Proof. exact inline_eq_call_node. Qed.
Print Assumptions C18_inline_eq_call_node.

(* the renaming lemma behind both: evaluation commutes with cloning (injective renaming of definitions,
   substitution of free names through the value map, attribute substitution) at every nesting depth *)
Theorem C18_eval_commutes_with_clone :
  forall (V : Type) (sem : string -> string -> list (string * attrv) -> list (option V) -> option (list V))
         (truth : V -> option bool) (trip : V -> option nat) (of_nat : nat -> V) (of_bool : bool -> V) (limit : nat)
         om am rn ri fuel g vis m (e1 e2 : list (vname * V)) args,
  inv V vis om m e1 e2 -> ok_graph ri rn om vis m g = true ->
  eval_graph V sem truth trip of_nat of_bool limit fuel e1 (omit_graph om am g) args
  = eval_graph V sem truth trip of_nat of_bool limit fuel e2 (clone_graph ri rn am m g) args.
Proof. exact eval_graph_rel. Qed.
Print Assumptions C18_eval_commutes_with_clone.

(* the hypotheses are satisfiable: a function whose inner names `tmp`, `v_Add_0` equal the names of the
   caller's actuals, a reference attribute with default (supplied / defaulted) and one without (dropped), a
   nested If reading a formal and body values, two outputs, explicit output names, scope + _prefix *)
Example C18_inline_hypotheses_satisfiable :
  func_wfb ex_fn = true
  /\ inline_okb icfg_pinned ex_fn ex_site = true /\ inline_okb icfg_pinned ex_fn ex_site_default = true
  /\ lookup_opts ex_env (s_actuals ex_site) = Some [Some 4%Z; Some (-4)%Z]
  /\ toy_call 3 ex_fn (s_attrs ex_site) [Some 4%Z; Some (-4)%Z] = Some [5%Z; 10%Z]
  /\ toy_inline icfg_pinned 2 ex_fn ex_site ex_env = Some [5%Z; 10%Z]
  /\ toy_call 3 ex_fn [] [Some 4%Z; Some (-4)%Z] = Some [1%Z; 2%Z]
  /\ toy_inline icfg_pinned 2 ex_fn ex_site_default ex_env = Some [1%Z; 2%Z]
  /\ inline_outs icfg_pinned ex_fn ex_site = ["v_enc.out"; "v_enc.tmp"]
  /\ inline_outs icfg_pinned ex_fn ex_site_default = ["v_exf_node_2/u"; "v_exf_node_2/v_Add_0"]
  /\ inline_fresh icfg_pinned ex_fn ex_site (map fst ex_env) = true
  /\ inline_fresh icfg_pinned ex_fn ex_site_default (map fst ex_env) = false
  /\ inline_okb icfg_fixed ex_fn ex_site = true /\ inline_okb icfg_fixed ex_fn ex_site_default = true
  /\ toy_inline icfg_fixed 2 ex_fn ex_site ex_env = Some [5%Z; 10%Z].
Proof. exact ex_inline_hypotheses. Qed.

(* --- without the no-capture side conditions the statement is FALSE of the faithful model (findings, each
   replayed on the real code by harness/c18_inline.py) *)
(* well-formed functions, any site with at most as many actuals as formals *)
Theorem C18_inline_eq_call_full_refuted :
  ~ inline_eq_call_full Z toy_sem toy_truth toy_trip toy_of_nat toy_of_bool 10 icfg_pinned.
Proof. exact inline_eq_call_full_refuted. Qed.
Print Assumptions C18_inline_eq_call_full_refuted.

(* a Loop in the body: the Cloner keeps the names of the Loop body's inputs; a caller value called like one
   of them (acc_0) is captured inside the cloned body: the call gives 8, the inlined nodes 16 *)
Theorem C18_inline_subgraph_input_capture_refuted :
  func_wfb w_loop_fn = true
  /\ inline_okb icfg_pinned w_loop_fn w_capture_site = false /\ inline_okb icfg_pinned w_loop_fn w_plain_site = true
  /\ toy_call 3 w_loop_fn [] [Some 2%Z] = Some [8%Z]
  /\ toy_inline icfg_pinned 2 w_loop_fn w_plain_site [("x", 2%Z)] = Some [8%Z]
  /\ toy_inline icfg_pinned 2 w_loop_fn w_capture_site [("acc_0", 2%Z)] = Some [16%Z]
  (* with the inputs of cloned subgraphs prefixed (proposed_fixes/ready/C18_01) the same site is fine *)
  /\ inline_okb icfg_fixed w_loop_fn w_capture_site = true
  /\ toy_inline icfg_fixed 2 w_loop_fn w_capture_site [("acc_0", 2%Z)] = Some [8%Z].
Proof. exact inline_subgraph_input_capture_refuted. Qed.
Print Assumptions C18_inline_subgraph_input_capture_refuted.

(* fewer actuals than formals: zip() leaves the trailing formal without entry, the Cloner passes its name
   through: dangling, or captured by a caller value of that name; with an explicit None it is omitted *)
Theorem C18_inline_fewer_actuals_refuted :
  func_wfb w_opt_fn = true
  /\ inline_okb icfg_pinned w_opt_fn w_fewer_site = false /\ inline_okb icfg_pinned w_opt_fn w_none_site = true
  /\ toy_call 2 w_opt_fn [] [Some 1%Z] = Some [1%Z]
  /\ toy_inline icfg_pinned 1 w_opt_fn w_none_site [("x", 1%Z)] = Some [1%Z]
  /\ toy_inline icfg_pinned 1 w_opt_fn w_fewer_site [("x", 1%Z)] = None
  /\ toy_inline icfg_pinned 1 w_opt_fn w_fewer_site [("lo", 5%Z); ("x", 1%Z)] = Some [6%Z]
  (* with the missing actuals mapped to None (proposed_fixes/ready/C18_02) the same site is fine *)
  /\ inline_okb icfg_fixed w_opt_fn w_fewer_site = true
  /\ toy_inline icfg_fixed 1 w_opt_fn w_fewer_site [("lo", 5%Z); ("x", 1%Z)] = Some [1%Z].
Proof. exact inline_fewer_actuals_refuted. Qed.
Print Assumptions C18_inline_fewer_actuals_refuted.

(* --- the generated names.  Distinct inline sites have distinct node counters (every inlined function adds
   at least the nodes counted by _node_count), and the counter can be read back from the prefix: *)
Theorem C18_inline_prefix_determines_counter : forall f1 s1 f2 s2,
  site_prefix f1 s1 = site_prefix f2 s2 -> s_count s1 = s_count s2.
Proof. exact site_prefix_inj. Qed.
Print Assumptions C18_inline_prefix_determines_counter.

(* names of two sites never coincide (inner names without "/": every name the converter and the builder
   generate inside a function), whatever the scopes and function names; nested values and top-level values *)
Theorem C18_inline_nested_names_of_sites_disjoint : forall f1 s1 f2 s2 x y,
  has_char "/"%char x = false -> has_char "/"%char y = false ->
  nested_name f1 s1 x = nested_name f2 s2 y -> s_count s1 = s_count s2 /\ x = y.
Proof. exact nested_names_sites_disjoint. Qed.
Print Assumptions C18_inline_nested_names_of_sites_disjoint.

Theorem C18_inline_qualified_names_of_sites_disjoint : forall st1 f1 s1 st2 f2 s2 x y,
  has_char "/"%char x = false -> has_char "/"%char y = false ->
  qualify_value st1 (site_prefix f1 s1 ++ x) = qualify_value st2 (site_prefix f2 s2 ++ y) ->
  s_count s1 = s_count s2 /\ x = y.
Proof. exact qualified_names_sites_disjoint. Qed.
Print Assumptions C18_inline_qualified_names_of_sites_disjoint.

(* within one site: distinct inner names give distinct new names *)
Theorem C18_inline_site_names_distinct : forall f s l, NoDup l ->
  NoDup (map (nested_name f s) l) /\ NoDup (map (fun x => qualify_value (site_scope s) (site_prefix f s ++ x)) l).
Proof. exact site_names_nodup. Qed.
Print Assumptions C18_inline_site_names_distinct.

Example C18_inline_site_names_example :
  site_prefix ex_fn ex_site = "enc/p/exf_node_7/" /\ site_prefix ex_fn ex_site_default = "exf_node_2/"
  /\ has_char "/"%char "tmp" = false.
Proof. exact ex_site_names. Qed.
