(* C08 -- aten_diagonal: (i) values: on every [n1, n2] matrix of the transposed tensor the EyeLike mask / Mul / ReduceSum /
   Slice composition selects exactly the elements torch.diagonal selects; (ii) shape: Transpose(perm) / Mul / ReduceSum /
   Slice yield torch.diagonal's shape, for every rank, extent, offset and dim pair (negative dims included). *)
From Coq Require Import ZArith List Bool Lia ZifyBool.
Require Import OV.Torch.Onnx OV.Torch.Onnx2 OV.Torch.Spec OV.Torch.Spec2 OV.Torch.Aten OV.Torch.Aten2
               OV.Torch.Lemmas OV.Torch.ShapeProofs OV.Torch.StackProofs.
Import ListNotations.
Local Open Scope Z_scope.

(* ------------------------------------------------------------------ generic list facts *)
Lemma mapi_map_gen : forall A B C (g : B -> C) (f : Z -> A -> B) l i, map g (mapi f i l) = mapi (fun i x => g (f i x)) i l.
Proof. induction l; intro i; cbn; [reflexivity|]. rewrite IHl. reflexivity. Qed.
Lemma mapi_ext : forall A B (f g : Z -> A -> B) l i, (forall j x, f j x = g j x) -> mapi f i l = mapi g i l.
Proof. induction l; intros i H; cbn; [reflexivity|]. rewrite H, IHl by assumption. reflexivity. Qed.

Lemma firstn_seq' : forall c s n, (c <= n)%nat -> firstn c (seq s n) = seq s c.
Proof.
  induction c; intros s n H; [reflexivity|]. destruct n; [lia|]. cbn. f_equal. apply IHc. lia.
Qed.
Lemma firstn_skipn_seq : forall a c s n, (a + c <= n)%nat -> firstn c (skipn a (seq s n)) = seq (s + a) c.
Proof.
  induction a; intros c s n H.
  - cbn [skipn]. rewrite firstn_seq' by lia. f_equal. lia.
  - destruct n; [lia|]. cbn [seq skipn]. rewrite IHa by lia. f_equal. lia.
Qed.
Lemma map_seq_shift : forall B c a (h : nat -> B), map h (seq a c) = map (fun x => h (a + x)%nat) (seq 0 c).
Proof.
  induction c; intros a h; [reflexivity|].
  cbn [seq map]. f_equal; [f_equal; lia|].
  rewrite (IHc (S a) h). rewrite (IHc 1%nat (fun x => h (a + x)%nat)).
  apply map_ext. intro x. f_equal. lia.
Qed.
Lemma take_drop_map_iota : forall B (g : Z -> B) n a c, 0 <= a -> 0 <= c -> a + c <= n ->
  take c (drop a (map g (iota n))) = map (fun t => g (a + t)) (iota c).
Proof.
  intros B g n a c Ha Hc Hn. unfold take, drop, iota.
  rewrite !map_map. rewrite skipn_map, firstn_map. rewrite firstn_skipn_seq by lia.
  rewrite map_seq_shift. apply map_ext. intro x. f_equal. lia.
Qed.
Lemma zlen_map_iota : forall B (g : Z -> B) n, 0 <= n -> zlen (map g (iota n)) = n.
Proof. intros. unfold zlen. rewrite map_length, iota_length by assumption. lia. Qed.

Lemma nthZ_nth : forall A (l : list A) i d, 0 <= i < zlen l -> nthZ l i = Some (nth (Z.to_nat i) l d).
Proof.
  intros A l i d H. unfold nthZ. replace (i <? 0) with false by lia.
  apply nth_error_nth'. unfold zlen in H. lia.
Qed.

(* ------------------------------------------------------------------ values *)
Lemma col_mask : forall k i row (n : nat) j0,
  nth n (mapi (fun j v => v * eye k i j) j0 row) 0 = nth n row 0 * eye k i (j0 + Z.of_nat n).
Proof.
  induction row as [|x t IH]; intros n j0.
  - destruct n; reflexivity.
  - destruct n as [|n']; cbn [mapi nth].
    + f_equal. f_equal. lia.
    + rewrite IH. f_equal. f_equal. lia.
Qed.

Lemma sum_diag : forall k j rows i0,
  fold_right Z.add 0 (mapi (fun i row => col j row * eye k i j) i0 rows)
  = if (i0 <=? j - k) && (j - k <? i0 + zlen rows) then col j (nth (Z.to_nat (j - k - i0)) rows []) else 0.
Proof.
  induction rows as [|x t IH]; intro i0.
  - rewrite zlen_nil. cbn [mapi fold_right]. case_if; [lia | reflexivity].
  - cbn [mapi fold_right]. rewrite IH. rewrite zlen_cons. unfold eye.
    destruct (j =? i0 + k) eqn:E.
    + replace ((i0 + 1 <=? j - k) && (j - k <? i0 + 1 + zlen t)) with false by lia.
      pose proof (zlen_nonneg _ t).
      replace ((i0 <=? j - k) && (j - k <? i0 + (1 + zlen t))) with true by lia.
      replace (Z.to_nat (j - k - i0)) with O by lia. cbn [nth]. lia.
    + replace ((i0 <=? j - k) && (j - k <? i0 + (1 + zlen t))) with ((i0 + 1 <=? j - k) && (j - k <? i0 + 1 + zlen t)) by lia.
      destruct ((i0 + 1 <=? j - k) && (j - k <? i0 + 1 + zlen t)) eqn:E2; [|lia].
      replace (Z.to_nat (j - k - i0)) with (S (Z.to_nat (j - k - (i0 + 1)))) by lia. cbn [nth]. lia.
Qed.

Definition diag_col (m : list (list Z)) (k j : Z) : Z :=
  if (0 <=? j - k) && (j - k <? zlen m) then col j (nth (Z.to_nat (j - k)) m []) else 0.

Lemma reduce_mask : forall m k n2, reduce_sum_rows n2 (mask_rows k m) = map (diag_col m k) (iota n2).
Proof.
  intros m k n2. unfold reduce_sum_rows, mask_rows. apply map_ext_in. intros j Hj. apply iota_In in Hj.
  rewrite mapi_map_gen.
  rewrite (mapi_ext _ _ _ (fun i row => col j row * eye k i j)).
  - rewrite sum_diag. unfold diag_col. replace (j - k - 0) with (j - k) by lia. reflexivity.
  - intros i row. unfold col at 1. rewrite col_mask. unfold col. f_equal. f_equal. lia.
Qed.

Lemma diag_arith : forall k n1 n2, 0 <= n1 -> 0 <= n2 ->
  let a := sl_lo n2 (diag_start k) in
  let c := sl_lo n2 (diag_start k + diag_len k n1 n2) - a in
  c = torch_diag_len k n1 n2 /\ 0 <= a /\ 0 <= c /\ a + c <= n2 /\ (0 < c -> a = Z.max k 0).
Proof.
  intros k n1 n2 H1 H2. cbv zeta. unfold sl_lo, clampZ, diag_start, diag_len, torch_diag_len.
  repeat case_if; lia.
Qed.

Lemma diag_matrix_correct : forall m n2 offset,
  0 <= n2 -> (forall row, In row m -> zlen row = n2) ->
  aten_diag_matrix m n2 offset = torch_diag_matrix m n2 offset.
Proof.
  intros m n2 k Hn2 Hrows. unfold aten_diag_matrix, torch_diag_matrix.
  rewrite reduce_mask. rewrite slice_axis_step1. rewrite zlen_map_iota by assumption.
  pose proof (zlen_nonneg _ m) as Hn1.
  destruct (diag_arith k (zlen m) n2 Hn1 Hn2) as (Hc & Ha & Hc0 & Hac & Hpos).
  rewrite take_drop_map_iota by assumption. rewrite Hc.
  symmetry. erewrite omap_all_map; [reflexivity|].
  intros t Ht. apply iota_In in Ht. cbv beta.
  rewrite Hpos by lia.
  assert (Hlen : torch_diag_len k (zlen m) n2 <= zlen m + Z.min k 0 /\ torch_diag_len k (zlen m) n2 <= n2 - Z.max k 0).
  { unfold torch_diag_len in *. case_if; lia. }
  rewrite (nthZ_nth _ m (t + Z.max (- k) 0) []) by lia. cbn [obind].
  assert (Hin : In (nth (Z.to_nat (t + Z.max (- k) 0)) m []) m) by (apply nth_In; unfold zlen in *; lia).
  rewrite (nthZ_nth _ _ (t + Z.max k 0) 0) by (rewrite (Hrows _ Hin); lia).
  f_equal. unfold diag_col.
  replace ((0 <=? Z.max k 0 + t - k) && (Z.max k 0 + t - k <? zlen m)) with true by lia.
  unfold col. f_equal; [f_equal; lia|]. f_equal. lia.
Qed.

(* ------------------------------------------------------------------ shape *)
Fixpoint filter_idx {A} (f : Z -> bool) (i : Z) (l : list A) : list A :=
  match l with [] => [] | x :: t => if f i then x :: filter_idx f (i + 1) t else filter_idx f (i + 1) t end.

Lemma filter_idx_ext : forall A (f g : Z -> bool) (l : list A) i0, (forall i, i0 <= i -> f i = g i) -> filter_idx f i0 l = filter_idx g i0 l.
Proof.
  induction l; intros i0 H; cbn; [reflexivity|]. rewrite (H i0) by lia. rewrite (IHl (i0 + 1)) by (intros; apply H; lia). reflexivity.
Qed.
Lemma filter_idx_all : forall A (f : Z -> bool) (l : list A) i0, (forall i, i0 <= i -> f i = true) -> filter_idx f i0 l = l.
Proof.
  induction l; intros i0 H; cbn; [reflexivity|]. rewrite (H i0) by lia. rewrite (IHl (i0 + 1)) by (intros; apply H; lia). reflexivity.
Qed.

Lemma nth_filter_idx : forall (f : Z -> bool) (s pre : list Z),
  omap_all (nthZ (pre ++ s)) (filter f (map Z.of_nat (seq (length pre) (length s)))) = Some (filter_idx f (zlen pre) s).
Proof.
  induction s as [|x t IH]; intro pre; [reflexivity|].
  cbn [length seq map filter filter_idx]. fold (zlen pre).
  specialize (IH (pre ++ [x])). rewrite <- app_assoc in IH. cbn [app] in IH.
  rewrite app_length in IH. cbn [length] in IH. replace (length pre + 1)%nat with (S (length pre)) in IH by lia.
  rewrite zlen_app in IH. change (zlen [x]) with 1 in IH.
  destruct (f (zlen pre)); [|exact IH].
  cbn [omap_all]. rewrite nthZ_middle. rewrite IH. reflexivity.
Qed.

Lemma erase_nil : forall A i, @erase A i [] = [].
Proof. intros. unfold erase, take, drop. rewrite firstn_nil, skipn_nil. reflexivity. Qed.
Lemma erase_0 : forall A (x : A) t, erase 0 (x :: t) = t.
Proof. reflexivity. Qed.
Lemma erase_cons : forall A (x : A) t k, 0 < k -> erase k (x :: t) = x :: erase (k - 1) t.
Proof.
  intros A x t k H. unfold erase, take, drop.
  replace (Z.to_nat k) with (S (Z.to_nat (k - 1))) by lia.
  replace (Z.to_nat (k + 1)) with (S (Z.to_nat (k - 1 + 1))) by lia. reflexivity.
Qed.

Lemma filter_idx_erase1 : forall A (s : list A) i0 d, i0 <= d -> filter_idx (fun i => negb (i =? d)) i0 s = erase (d - i0) s.
Proof.
  induction s as [|x t IH]; intros i0 d H; [rewrite erase_nil; reflexivity|].
  cbn [filter_idx]. destruct (i0 =? d) eqn:E; cbn [negb].
  - replace (d - i0) with 0 by lia. rewrite erase_0. apply filter_idx_all. intros; lia.
  - rewrite erase_cons by lia. f_equal. rewrite IH by lia. f_equal. lia.
Qed.

Lemma filter_idx_erase2 : forall A (s : list A) i0 lo hi, i0 <= lo -> lo < hi ->
  filter_idx (fun i => negb (i =? lo) && negb (i =? hi)) i0 s = erase (lo - i0) (erase (hi - i0) s).
Proof.
  induction s as [|x t IH]; intros i0 lo hi H1 H2; [rewrite !erase_nil; reflexivity|].
  cbn [filter_idx]. rewrite (erase_cons _ x t (hi - i0)) by lia.
  destruct (i0 =? lo) eqn:E.
  - cbn [negb andb].
    replace (lo - i0) with 0 by lia. rewrite erase_0.
    rewrite (filter_idx_ext _ _ (fun i => negb (i =? hi))) by (intros; lia).
    rewrite filter_idx_erase1 by lia. f_equal. lia.
  - replace (i0 =? hi) with false by lia. cbn [negb andb].
    rewrite erase_cons by lia. f_equal. rewrite IH by lia. f_equal; [lia|]. f_equal. lia.
Qed.

Lemma zlen_erase : forall A (l : list A) i, 0 <= i < zlen l -> zlen (erase i l) = zlen l - 1.
Proof. intros. unfold erase. rewrite zlen_app, zlen_take, zlen_drop by lia. lia. Qed.

Lemma omap_all_app : forall A B (h : A -> option B) a b x y,
  omap_all h a = Some x -> omap_all h b = Some y -> omap_all h (a ++ b) = Some (x ++ y).
Proof.
  induction a; intros b x y Ha Hb; cbn in *.
  - inversion Ha; subst. exact Hb.
  - destruct (h a); [|discriminate]. destruct (omap_all h a0) eqn:E; [|discriminate]. inversion Ha; subst.
    rewrite (IHa b l y eq_refl Hb). reflexivity.
Qed.

Lemma reduce_dims_filter_idx : forall s i ax, reduce_dims s i ax false = filter_idx (fun j => negb (has j ax)) i s.
Proof. induction s; intros i ax; cbn; [reflexivity|]. rewrite IHs. destruct (has i ax); reflexivity. Qed.

Lemma erase_last2 : forall (o : list Z) a b, erase (zlen o) (o ++ [a; b]) = o ++ [b].
Proof. intros. unfold erase. rewrite take_app_exact. rewrite (drop_app_exact o [b] a). reflexivity. Qed.

Lemma diag_slice_arith : forall k n1 n2, 0 <= n1 -> 0 <= n2 ->
  snd (slice_bounds n2 (diag_start k) (diag_start k + diag_len k n1 n2) 1) = torch_diag_len k n1 n2.
Proof.
  intros k n1 n2 H1 H2. unfold slice_bounds. cbn [Z.ltb Z.compare snd]. rewrite ceil_div_1.
  unfold clampZ, diag_start, diag_len, torch_diag_len. repeat case_if; lia.
Qed.

Lemma diagonal_shape_correct : forall s offset dim1 dim2 out,
  shape_ok s ->
  torch_diagonal_shape s offset dim1 dim2 = Some out -> aten_diagonal_shape s offset dim1 dim2 = Some out.
Proof.
  intros s k dim1 dim2 out Hok. unfold torch_diagonal_shape, aten_diagonal_shape.
  destruct (wrap_dim (zlen s) dim1) as [d1|] eqn:E1; [|discriminate]. cbn [obind].
  destruct (wrap_dim (zlen s) dim2) as [d2|] eqn:E2; [|discriminate]. cbn [obind].
  destruct (d1 =? d2) eqn:Ed; [discriminate|].
  pose proof (zlen_nonneg _ s) as Hr0.
  assert (Hr : 0 < zlen s).
  { destruct (Z.eq_dec (zlen s) 0) as [Hz|]; [|lia]. rewrite Hz in E1, E2. unfold wrap_dim in E1, E2. change (Z.max 0 1) with 1 in E1, E2.
    destruct ((- (1) <=? dim1) && (dim1 <? 1)) eqn:Ea; [|discriminate].
    destruct ((- (1) <=? dim2) && (dim2 <? 1)) eqn:Eb; [|discriminate].
    inversion E1; inversion E2; subst d1 d2. destruct (dim1 <? 0) eqn:?; destruct (dim2 <? 0) eqn:?; lia. }
  destruct (wrap_dim_val _ _ _ Hr E1) as [Hd1 Hr1]. destruct (wrap_dim_val _ _ _ Hr E2) as [Hd2 Hr2].
  unfold diag_norm. rewrite <- Hd1, <- Hd2. clear Hd1 Hd2 E1 E2 dim1 dim2.
  destruct (nthZ s d1) as [n1|] eqn:En1; [|discriminate]. cbn [obind].
  destruct (nthZ s d2) as [n2|] eqn:En2; [|discriminate]. cbn [obind].
  intro H; inversion H; subst out; clear H.
  set (r := zlen s) in *.
  set (lo := Z.min d1 d2). set (hi := Z.max d1 d2).
  set (others := erase lo (erase hi s)).
  assert (Hlo : zlen others = r - 2).
  { unfold others. rewrite zlen_erase; rewrite zlen_erase; unfold lo, hi; fold r; lia. }
  unfold diag_perm. replace ((0 <=? d1) && (d1 <? r) && (0 <=? d2) && (d2 <? r) && negb (d1 =? d2)) with true by lia.
  cbn [obind].
  assert (Hg : forall d n, 0 <= d < r -> nthZ s d = Some n -> gather1 s d = Some n).
  { intros d n Hd Hn. unfold gather1. fold r. replace ((- r <=? d) && (d <? r)) with true by lia.
    replace (d <? 0) with false by lia. assumption. }
  rewrite (Hg _ _ Hr1 En1), (Hg _ _ Hr2 En2). cbn [obind].
  (* Transpose *)
  assert (Hfil : omap_all (nthZ s) (filter (fun i => negb (i =? d1) && negb (i =? d2)) (iota r)) = Some others).
  { rewrite (filter_ext _ (fun i => negb (i =? lo) && negb (i =? hi))) by (intro; unfold lo, hi; lia).
    pose proof (nth_filter_idx (fun i => negb (i =? lo) && negb (i =? hi)) s []) as Hn. cbn [app length] in Hn.
    unfold iota, r, zlen. rewrite Nat2Z.id. rewrite Hn. rewrite zlen_nil.
    rewrite filter_idx_erase2 by (unfold lo, hi; lia). unfold others. f_equal. f_equal; [lia|]. f_equal. lia. }
  assert (Hts : transpose_shape s (Some (filter (fun i => negb (i =? d1) && negb (i =? d2)) (iota r) ++ [d1; d2])) = Some (others ++ [n1; n2])).
  { unfold transpose_shape. fold r.
    assert (is_perm r (filter (fun i => negb (i =? d1) && negb (i =? d2)) (iota r) ++ [d1; d2]) = true) as ->.
    { unfold is_perm. apply andb_true_intro. split.
      - rewrite zlen_app. apply omap_all_length in Hfil. unfold zlen in *. cbn [length]. lia.
      - apply forallb_forall. intros i Hi. apply has_In. apply in_or_app.
        destruct (i =? d1) eqn:Ei1; [right; left; lia|]. destruct (i =? d2) eqn:Ei2; [right; right; left; lia|].
        left. apply filter_In. split; [assumption|]. rewrite Ei1, Ei2. reflexivity. }
    apply omap_all_app; [assumption|]. cbn [omap_all]. rewrite En1, En2. reflexivity. }
  rewrite Hts. cbn [obind].
  (* Mul with the [n1, n2] mask *)
  assert (Hb : bcast_shape (others ++ [n1; n2]) [n1; n2] = Some (others ++ [n1; n2])).
  { unfold bcast_shape. rewrite rev_app_distr. cbn [rev app bcast_rev]. unfold bdim. rewrite !Z.eqb_refl.
    assert (bcast_rev (rev others) [] = Some (rev others)) as -> by (destruct (rev others); reflexivity).
    cbn [option_map rev]. rewrite rev_involutive. rewrite <- !app_assoc. reflexivity. }
  rewrite Hb. cbn [obind].
  (* ReduceSum(axes = [r - 2], keepdims = 0) *)
  assert (Hred : reduce_shape (others ++ [n1; n2]) (Some [r - 2]) false = Some (others ++ [n2])).
  { unfold reduce_shape. rewrite zlen_app. change (zlen [n1; n2]) with 2. rewrite Hlo.
    cbn [omap_all]. unfold norm_axis. replace ((- (r - 2 + 2) <=? r - 2) && (r - 2 <? r - 2 + 2)) with true by lia.
    replace (r - 2 <? 0) with false by lia. cbn [obind].
    rewrite reduce_dims_filter_idx.
    rewrite (filter_idx_ext _ _ (fun j => negb (j =? r - 2))) by (intros; unfold has; cbn [existsb]; lia).
    rewrite filter_idx_erase1 by lia. replace (r - 2 - 0) with (zlen others) by lia. rewrite erase_last2. reflexivity. }
  rewrite Hred. cbn [obind].
  (* Slice *)
  unfold slice_shape. rewrite zlen_app. change (zlen [n2]) with 1. rewrite Hlo.
  unfold norm_axis. replace ((- (r - 2 + 1) <=? r - 2) && (r - 2 <? r - 2 + 1)) with true by lia.
  replace (r - 2 <? 0) with false by lia. cbn [obind].
  rewrite <- Hlo. rewrite nthZ_middle. cbn [obind].
  assert (Hn1 : 0 <= n1 /\ 0 <= n2).
  { unfold shape_ok in Hok. rewrite Forall_forall in Hok. split; apply Hok.
    - unfold nthZ in En1. destruct (d1 <? 0); [discriminate|]. eapply nth_error_In; eassumption.
    - unfold nthZ in En2. destruct (d2 <? 0); [discriminate|]. eapply nth_error_In; eassumption. }
  rewrite diag_slice_arith by lia.
  unfold replace_at. rewrite take_app_exact. rewrite (drop_app_exact others [] n2). reflexivity.
Qed.

(* the implementation never produces a value where torch.diagonal refuses for identical / out-of-range dims *)
Lemma diagonal_refuses : forall s offset dim1 dim2,
  0 < zlen s -> torch_diagonal_shape s offset dim1 dim2 = None ->
  - zlen s <= dim1 < zlen s -> - zlen s <= dim2 < zlen s ->
  aten_diagonal_shape s offset dim1 dim2 = None.
Proof.
  intros s k dim1 dim2 Hr. unfold torch_diagonal_shape, aten_diagonal_shape. intros H H1 H2.
  rewrite !wrap_dim_norm_axis in H by assumption. unfold norm_axis in H.
  replace ((- zlen s <=? dim1) && (dim1 <? zlen s)) with true in H by lia.
  replace ((- zlen s <=? dim2) && (dim2 <? zlen s)) with true in H by lia. cbn [obind] in H.
  unfold diag_norm, diag_perm.
  destruct ((if dim1 <? 0 then dim1 + zlen s else dim1) =? (if dim2 <? 0 then dim2 + zlen s else dim2)) eqn:E.
  - rewrite andb_false_r. reflexivity.
  - destruct (nthZ_some _ s (if dim1 <? 0 then dim1 + zlen s else dim1) ltac:(case_if; lia)) as [x Hx].
    destruct (nthZ_some _ s (if dim2 <? 0 then dim2 + zlen s else dim2) ltac:(case_if; lia)) as [y Hy].
    rewrite Hx, Hy in H. discriminate.
Qed.

(* ------------------------------------------------------------------ the repaired variant (Where instead of Mul) *)
Lemma where_rows_mask : forall k m, where_rows k m = mask_rows k m.
Proof.
  intros k m. unfold where_rows, mask_rows. apply mapi_ext. intros i row. apply mapi_ext. intros j v.
  unfold eye. destruct (j =? i + k); lia.
Qed.
Lemma diag_matrix_fixed_correct : forall m n2 offset,
  0 <= n2 -> (forall row, In row m -> zlen row = n2) ->
  aten_diag_matrix_fixed m n2 offset = torch_diag_matrix m n2 offset.
Proof.
  intros m n2 k H1 H2. unfold aten_diag_matrix_fixed. rewrite where_rows_mask. apply diag_matrix_correct; assumption.
Qed.
