"""C11: the index forms the documentation lists, re-read from /repo on every run.

Sources: docs/tutorial/index.md section "Indexing and Slicing" and the docstring of Converter._translate_subscript_expr.
Every form listed there must be known to this harness (fail-closed: an unknown form breaks the tie), is mapped to the stream
that generates it and to the theorems it falls under (or is explicitly outside of); the list goes into the evidence.
Ellipsis / newaxis ("not supported") are probed directly: an error is fine, a different tensor is a violation.
"""
from __future__ import annotations

import os
import re

import numpy as np

from harness import c11_impl as impl
from harness import common

# docstring form -> (index source in the generated functions, theorems)
BASIC = "Props/C11.v C11_converter_basic_sound/_complete, C11_eager_basic_sound/_complete; Props/C11_summary.v C11_indexing_summary"
ONE_T = "Props/C11_adv.v C11_converter_adv_good_sound/_complete, C11_eager_adv_good_sound/_complete (Props/C11_summary.v), C11_indexing_summary"
DOCSTRING = {
    "A[:, 1]": (":, 1", BASIC), "A[:2, 0]": (":2, 0", BASIC), "A[:2, :1]": (":2, :1", BASIC), "A[2:0:-1]": ("2:0:-1", BASIC),
    "A[1:]": ("1:", BASIC), "A[:2]": (":2", BASIC), "A[1:-1]": ("1:-1", BASIC), "A[1:2]": ("1:2", BASIC), "A[-1]": ("-1", BASIC),
    "A[0]": ("0", BASIC), "A[:0:-1]": (":0:-1", BASIC),
    "A[i]": ("a0", ONE_T),
    "A[i+1:i+2]": ("a0:a1", BASIC + " (tensor-valued bounds: BDyn; Props/C11_dyn.v C11_converter_dynamic_bounds_eq_python; also generated "
                                    "with the arithmetic in the subscript, stream expr-bounds)"),
    "A[i:i+j, k]": ("a0:a1, a2", ONE_T),
    "A[::-1]": ("::-1", BASIC + " (listed as 'Not supported' in the docstring; accepted by both front ends and equal to NumPy)"),
}
TUTORIAL_PHRASES = [
    ("`n` is either the rank of the", "e[i_1, ..., i_n] with n <= rank",
     "every stream omits trailing axes; all n-axis theorems carry length idx <= length shape"),
    ("a scalar value (a tensor of rank zero)", "index = rank-0 tensor",
     "kinds t0 in documented / axis-exhaustive / tensor-forms / adv-forms; " + ONE_T),
    ("a higher-dimensional tensor", "index = tensor of rank >= 1",
     "kinds t1, t2 in tensor-forms / adv-forms (the note below says 'not yet supported'): on good forms " + ONE_T +
     "; the other forms are the characterised exceptions (C11_arrangement_differs_iff, C11_two_tensor_indices_rank_differs)"),
    ("slice-expression of the form `start:end:step`", "index = slice start:end:step",
     "axis-exhaustive sweep of the quantifier; Props/C11.v C11_converter_slice_axis, Props/C11_summary.v C11_converter_slice_differs_iff (corner), "
     "Props/C11_fix.v C11_eager_slice_axis_fixed"),
    ("does not yet support the use of arbitrary", "note: arbitrary tensors in index expressions not yet supported",
     "generated all the same (adv-forms); see the previous entry"),
    ("ellipsis or", "ellipsis / newaxis not supported",
     "stream outside-forms (harness/c11_dyn.py): Ellipsis / None / True / False / float / str at every position of every basic tuple of "
     "length <= 2 must fail or equal NumPy; model DynForms.run_conv_x / run_eager_x; Props/C11_dyn.v C11_unsupported_rejected_fixed / "
     "_asread_refuted, C11_converter_bool_literal_rank_differs; X[..., 0], X[None], X[None, 1] also probed here"),
]


def read_docstring_forms(repo):
    import ast
    src = open(os.path.join(repo, "onnxscript", "_internal", "converter.py")).read()
    tree = ast.parse(src)
    for node in ast.walk(tree):
        if isinstance(node, ast.FunctionDef) and node.name == "_translate_subscript_expr":
            doc = ast.get_docstring(node) or ""
            return [m.group(0) for m in re.finditer(r"\bA\[[^\]\n]*\]", doc)]
    return None


def probe_outside(ctx):
    """Ellipsis / newaxis: an error (at conversion, at run time, eagerly) or NumPy's result."""
    import tempfile
    import shutil
    res = []
    tmp = tempfile.mkdtemp(prefix="c11-doc-")
    try:
        forms = [("..., 0", 0), ("None", 0), ("None, 1", 0)]
        loaded = impl.load_forms(forms, tmp)
        X = np.arange(6, dtype=np.int64).reshape(2, 3)
        for (src, _n), (fn, err) in zip(forms, loaded):
            o_np = impl.numpy_run(src, X, [])
            outs = {}
            if fn is None:
                outs["converter"] = ("err", "refused: " + err)
                outs["eager"] = ("err", "refused: " + err)
            else:
                outs["converter"] = impl.Graph(fn).run(X, [])
                outs["eager"] = impl.eager_run(fn, X, [])[0]
            for front, o in outs.items():
                ctx.case(("outside-forms", src, front, o[0]))
                bad = o[0] == "ok" and not (o_np[0] == "ok" and o[1].shape == o_np[1].shape and np.array_equal(o[1], o_np[1]))
                if bad:
                    ctx.violation(f"C11:{front}:ellipsis-or-newaxis-returns-different-tensor",
                                  f"{front}: X[{src}] on shape (2, 3) returns {o[1].tolist()} while NumPy returns "
                                  f"{o_np[1].tolist() if o_np[0] == 'ok' else o_np[1]}",
                                  {"front": front, "source": f"X[{src}]", "shape": [2, 3]})
            res.append({"form": f"X[{src}]", "converter": outs["converter"][0] if outs["converter"][0] == "ok" else "error",
                        "eager": outs["eager"][0] if outs["eager"][0] == "ok" else "error"})
    finally:
        shutil.rmtree(tmp, ignore_errors=True)
    return res


def run(ctx, documented_sources):
    """documented_sources: the index sources the 'documented' stream evaluated. -> list for the evidence"""
    repo = common.REPO if hasattr(common, "REPO") else os.environ.get("OSVERIF_REPO", "/repo")
    out = []
    forms = read_docstring_forms(repo)
    if not forms:
        ctx.tie_broken("translator", "converter.py:_translate_subscript_expr docstring", "no A[...] forms found in the docstring")
        forms = []
    unknown = [f for f in forms if f not in DOCSTRING]
    missing = [f for f in forms if f in DOCSTRING and DOCSTRING[f][0] not in documented_sources]
    ctx.obligation(f"documented forms: all {len(forms)} forms of the _translate_subscript_expr docstring are known and generated "
                   f"by the 'documented' stream", not unknown and not missing, f"unknown {unknown} not generated {missing}")
    if unknown or missing:
        ctx.tie_broken("translator", "converter.py:_translate_subscript_expr docstring",
                       f"forms listed in the docstring that the harness does not generate: {unknown + missing}")
    for f in forms:
        src, thm = DOCSTRING.get(f, ("?", "?"))
        out.append({"where": "onnxscript/_internal/converter.py _translate_subscript_expr docstring", "form": f,
                    "generated_as": f"X[{src}] (stream documented)", "theorems": thm})
    path = os.path.join(repo, "docs", "tutorial", "index.md")
    text = open(path).read() if os.path.exists(path) else ""
    m = re.search(r"## Indexing and Slicing\n(.*?)\n## ", text, re.S)
    sect = m.group(1) if m else ""
    lost = [p for p, _f, _t in TUTORIAL_PHRASES if p not in sect]
    ctx.obligation("documented forms: docs/tutorial/index.md section 'Indexing and Slicing' still lists the forms the harness maps "
                   f"({len(TUTORIAL_PHRASES)} statements)", bool(sect) and not lost, f"not found: {lost}")
    if not sect or lost:
        ctx.tie_broken("translator", "docs/tutorial/index.md", f"the section on indexing changed; statements not found: {lost or 'section'}")
    for p, form, thm in TUTORIAL_PHRASES:
        out.append({"where": "docs/tutorial/index.md Indexing and Slicing", "form": form, "statement": p, "streams_and_theorems": thm})
    out.append({"outside_forms_probe": probe_outside(ctx)})
    return out
