(* C12 -- proofs about the operator spellings (model: Operators.v; tables: Gen/C12Operators.v, Gen/Schemas.v). *)
From Coq Require Import NArith List Bool String Lia.
Require Import OV.Autocast.Autocast OV.Autocast.AutocastProofs OV.Autocast.Operators.
Require OV.Gen.Schemas OV.Gen.C12Operators.
Import ListNotations.
Local Open Scope string_scope.

(* ---- lookup_schema is onnx.defs.get_schema restricted to the registry ---- *)
Definition cand (name : string) (v : N) (s : schema) : Prop := s_name s = name /\ (s_ver s <= v)%N.

Lemma better_inv name v best s r : better name v best s = Some r ->
  (best = Some r) \/ (r = s /\ cand name v s).
Proof.
  unfold better. destruct (String.eqb (s_name s) name && (s_ver s <=? v)%N) eqn:E.
  - apply andb_true_iff in E. destruct E as [E1 E2]. apply String.eqb_eq in E1. apply N.leb_le in E2.
    destruct best as [b|].
    + destruct (s_ver b <? s_ver s)%N; intro H; injection H as <-; [right; split; [reflexivity|split; assumption] | left; reflexivity].
    + intro H; injection H as <-. right. split; [reflexivity|split; assumption].
  - intro H. left. exact H.
Qed.

Lemma fold_better_sound name v : forall all best r,
  fold_left (better name v) all best = Some r ->
  (best = Some r) \/ (In r all /\ cand name v r).
Proof.
  induction all as [|s t IH]; intros best r H; cbn in H.
  - left. exact H.
  - apply IH in H. destruct H as [H | [Hin Hc]].
    + apply better_inv in H. destruct H as [H | [-> Hc]].
      * left. exact H.
      * right. split; [left; reflexivity | exact Hc].
    + right. split; [right; exact Hin | exact Hc].
Qed.

Theorem lookup_schema_sound : forall all name v s, lookup_schema all name v = Some s ->
  In s all /\ s_name s = name /\ (s_ver s <= v)%N.
Proof.
  intros all name v s H. apply fold_better_sound in H. destruct H as [H | [Hin [Hn Hv]]]; [discriminate|].
  split; [exact Hin | split; assumption].
Qed.

(* every other candidate is not newer *)
Lemma better_ge name v best s r : better name v best s = Some r ->
  (forall b, best = Some b -> (s_ver b <= s_ver r)%N) /\ (cand name v s -> (s_ver s <= s_ver r)%N).
Proof.
  unfold better. destruct (String.eqb (s_name s) name && (s_ver s <=? v)%N) eqn:E.
  - destruct best as [b|].
    + destruct (s_ver b <? s_ver s)%N eqn:L; intro H; inversion H; subst.
      * apply N.ltb_lt in L. split; [intros b0 Hb; inversion Hb; subst; lia | intros _; lia].
      * apply N.ltb_ge in L. split; [intros b0 Hb; inversion Hb; subst; lia | intros _; exact L].
    + intro H; inversion H; subst. split; [intros b Hb; discriminate | intros _; lia].
  - intro H. subst best. split; [intros b Hb; inversion Hb; lia|].
    intros [Hn Hv]. apply String.eqb_eq in Hn. apply N.leb_le in Hv. rewrite Hn, Hv in E. discriminate.
Qed.

Lemma fold_better_mono name v : forall all best r,
  fold_left (better name v) all best = Some r -> forall b, best = Some b -> (s_ver b <= s_ver r)%N.
Proof.
  induction all as [|s t IH]; intros best r H b Hb; cbn in H.
  - rewrite Hb in H. inversion H. lia.
  - destruct (better name v best s) as [r1|] eqn:E.
    + pose proof (better_ge _ _ _ _ _ E) as [G1 _]. specialize (G1 _ Hb).
      specialize (IH _ _ H _ eq_refl). lia.
    + exfalso. unfold better in E. rewrite Hb in E.
      destruct (String.eqb (s_name s) name && (s_ver s <=? v)%N); [destruct (s_ver b <? s_ver s)%N|]; discriminate.
Qed.

Theorem lookup_schema_newest : forall all name v s s', lookup_schema all name v = Some s ->
  In s' all -> s_name s' = name -> (s_ver s' <= v)%N -> (s_ver s' <= s_ver s)%N.
Proof.
  unfold lookup_schema. intros all name v. generalize (@None schema).
  induction all as [|a t IH]; intros best s s' H Hin Hn Hv; [destruct Hin|].
  cbn in H. destruct Hin as [-> | Hin].
  - destruct (better name v best s') as [r1|] eqn:E.
    + pose proof (better_ge _ _ _ _ _ E) as [_ G2]. specialize (G2 (conj Hn Hv)).
      pose proof (fold_better_mono _ _ _ _ _ H _ eq_refl). lia.
    + exfalso. unfold better in E. apply String.eqb_eq in Hn. apply N.leb_le in Hv. rewrite Hn, Hv in E. cbn in E.
      destruct best as [b|]; [destruct (s_ver b <? s_ver s')%N|]; discriminate.
  - eapply IH; eassumption.
Qed.

(* ---- promotion through a spelling = promotion through the operator it maps to ---- *)
Theorem spelling_ok_sound : forall all v sp, spelling_okb all v sp = true ->
  exists s, lookup_schema all (sp_emit sp) v = Some s /\ schema_okb s = true /\
            forall args, promote_spelling all v sp args = promote_static s args
                         /\ promote_op_static all v (sp_emit sp) args = promote_static s args.
Proof.
  intros all v sp H. unfold spelling_okb in H.
  apply andb_true_iff in H. destruct H as [H H3]. apply andb_true_iff in H. destruct H as [H1 H2].
  destruct (sp_cast sp) as [c|] eqn:Ec; [|discriminate]. apply String.eqb_eq in H2. subst c.
  destruct (lookup_schema all (sp_emit sp) v) as [s|] eqn:El; [|discriminate].
  exists s. split; [reflexivity|]. split; [exact H3|].
  intro args. unfold promote_spelling, promote_op_static, promote_static_named. rewrite H1, Ec, El. split; reflexivity.
Qed.

Definition table_okb : bool :=
  forallb (fun sp => forallb (fun v => spelling_okb OV.Gen.Schemas.all v sp) opsets) OV.Gen.C12Operators.converter_spellings.

Lemma table_ok : table_okb = true.
Proof. vm_compute. reflexivity. Qed.

Theorem operator_spelling_is_op : forall sp v,
  In sp OV.Gen.C12Operators.converter_spellings -> In v opsets ->
  exists s, lookup_schema OV.Gen.Schemas.all (sp_emit sp) v = Some s /\ schema_okb s = true /\
            forall args, promote_spelling OV.Gen.Schemas.all v sp args = promote_static s args
                         /\ promote_op_static OV.Gen.Schemas.all v (sp_emit sp) args = promote_static s args.
Proof.
  intros sp v Hsp Hv. apply spelling_ok_sound.
  pose proof table_ok as T. unfold table_okb in T. rewrite forallb_forall in T. specialize (T _ Hsp).
  rewrite forallb_forall in T. exact (T _ Hv).
Qed.

(* ... and therefore follows the rule of the property text *)
Theorem operator_spelling_follows_rule : forall sp v args slots pre post l p outs s,
  In sp OV.Gen.C12Operators.converter_spellings -> In v opsets ->
  lookup_schema OV.Gen.Schemas.all (sp_emit sp) v = Some s -> plainb l = true ->
  annotate s args = OK slots -> slots = (pre ++ (ALit l, p) :: post)%list ->
  promote_spelling OV.Gen.Schemas.all v sp args = OK outs ->
  exists o, nth_error outs (List.length pre) = Some o /\ out_literal o = Some l /\
            exists d, out_dtype o = Some d /\ spec_dtype (pre ++ post)%list l p d.
Proof.
  intros sp v args slots pre post l p outs s Hsp Hv Hl Hp Ha Hs Ho.
  destruct (operator_spelling_is_op sp v Hsp Hv) as [s' [Hl' [Hok Heq]]].
  rewrite Hl in Hl'. inversion Hl'; subst s'. destruct (Heq args) as [E _]. rewrite E in Ho.
  eapply static_eq_spec; eassumption.
Qed.

(* the cast-like step driven by a name that has no schema promotes nothing: `x != 2.5` beside a DOUBLE tensor would hand
   Equal a FLOAT constant (what the table check excludes) *)
Definition sp_ne_by_name : spelling := mkSp "NotEq" "!=" (Some "NotEqual") "Equal" (Some "Not") true.
Theorem spelling_by_unmapped_name_refuted :
  spelling_okb OV.Gen.Schemas.all 18 sp_ne_by_name = false /\
  promote_spelling OV.Gen.Schemas.all 18 sp_ne_by_name [ATensor DOUBLE true; ALit (LScalar (SFloat false 5 1))]
    = OK [OKeep (ATensor DOUBLE true); OConst (LScalar (SFloat false 5 1)) FLOAT] /\
  promote_op_static OV.Gen.Schemas.all 18 "Equal" [ATensor DOUBLE true; ALit (LScalar (SFloat false 5 1))]
    = OK [OKeep (ATensor DOUBLE true); OCastLike (LScalar (SFloat false 5 1)) FLOAT DOUBLE].
Proof. vm_compute. repeat split; reflexivity. Qed.

(* ---- eager Tensor methods ---- *)
Definition methods_okb : bool :=
  forallb (fun tm => forallb (fun v => method_okb OV.Gen.Schemas.all v tm) opsets) OV.Gen.C12Operators.tensor_methods.
Lemma methods_ok : methods_okb = true.
Proof. vm_compute. reflexivity. Qed.

Lemma method_ok_sound : forall all v tm self other, method_okb all v tm = true ->
  exists s, lookup_schema all (tm_op tm) v = Some s /\ schema_okb s = true /\
            promote_method all v tm self other
              = promote_eager s (if tm_swapped tm then [other; self] else [self; other]).
Proof.
  intros all v tm self other T. unfold method_okb in T. unfold promote_method.
  destruct (lookup_schema all (tm_op tm) v) as [s|]; [|discriminate].
  exists s. split; [reflexivity|]. split; [exact T|reflexivity].
Qed.

Theorem tensor_method_is_op : forall tm v self other,
  In tm OV.Gen.C12Operators.tensor_methods -> In v opsets ->
  exists s, lookup_schema OV.Gen.Schemas.all (tm_op tm) v = Some s /\ schema_okb s = true /\
            promote_method OV.Gen.Schemas.all v tm self other
              = promote_eager s (if tm_swapped tm then [other; self] else [self; other]).
Proof.
  intros tm v self other Htm Hv. apply method_ok_sound.
  pose proof methods_ok as T. unfold methods_okb in T. rewrite forallb_forall in T. specialize (T _ Htm).
  rewrite forallb_forall in T. exact (T _ Hv).
Qed.

(* ---- a literal on either side of a binary operator with a shared type variable gets the tensor's type in all
        three front ends (so `1 < x`, which Python evaluates as x.__gt__(1) = Greater(x, 1), and the converter's
        Less(1, x) give the literal the same type) ---- *)
Lemma lookup1 (I : Type) t (d : I) : lookup I [(t, d)] t = Some d.
Proof. cbn. rewrite String.eqb_refl. reflexivity. Qed.

Theorem binary_shared_either_side : forall s, binary_sharedb s = true -> forall l d k,
  promote_static s [ATensor d k; ALit l] = OK [OKeep (ATensor d k); OCastLike l (ir_default_dtype l) d] /\
  promote_static s [ALit l; ATensor d k] = OK [OCastLike l (ir_default_dtype l) d; OKeep (ATensor d k)] /\
  promote_eager s [ATensor d k; ALit l] = OK [OKeep (ATensor d k); OConst l d] /\
  promote_eager s [ALit l; ATensor d k] = OK [OConst l d; OKeep (ATensor d k)].
Proof.
  intros s H l d k. unfold binary_sharedb in H.
  destruct (s_formals s) as [|f1 [|f2 [|f3 r]]] eqn:Ef; try discriminate.
  repeat (apply andb_true_iff in H; destruct H as [H ?]).
  apply String.eqb_eq in H.
  unfold promote_static, promote_eager, annotate, positions. rewrite Ef. cbn [List.length Nat.leb firstn map bind combine].
  unfold cast_inputs, bindings, head_info, akey_f. rewrite <- H. rewrite H3.
  cbn [fold_left map]. unfold bind1, cast_slot. cbn [fst snd p_akey info_dtype].
  apply negb_true_iff in H2. rewrite H2. cbn [cast_static cast_eager].
  rewrite !lookup1. cbn. repeat split; reflexivity.
Qed.

Definition shared_names : list string :=
  ["Add"; "Sub"; "Mul"; "Div"; "Mod"; "And"; "Or"; "Equal"; "Less"; "LessOrEqual"; "Greater"; "GreaterOrEqual"].
Lemma shared_table : forallb (fun n => forallb (shared_at OV.Gen.Schemas.all n) opsets) shared_names = true.
Proof. vm_compute. reflexivity. Qed.

Lemma shared_at_sound : forall all n v, shared_at all n v = true ->
  exists s, lookup_schema all n v = Some s /\ binary_sharedb s = true.
Proof.
  intros all n v T. unfold shared_at in T. destruct (lookup_schema all n v) as [s|]; [|discriminate].
  exists s. split; [reflexivity|exact T].
Qed.

Theorem comparison_literal_side_irrelevant : forall n v, In n shared_names -> In v opsets ->
  exists s, lookup_schema OV.Gen.Schemas.all n v = Some s /\ forall l d k,
    promote_static s [ATensor d k; ALit l] = OK [OKeep (ATensor d k); OCastLike l (ir_default_dtype l) d] /\
    promote_static s [ALit l; ATensor d k] = OK [OCastLike l (ir_default_dtype l) d; OKeep (ATensor d k)] /\
    promote_eager s [ATensor d k; ALit l] = OK [OKeep (ATensor d k); OConst l d] /\
    promote_eager s [ALit l; ATensor d k] = OK [OConst l d; OKeep (ATensor d k)].
Proof.
  intros n v Hn Hv. pose proof shared_table as T. rewrite forallb_forall in T. specialize (T _ Hn).
  rewrite forallb_forall in T. specialize (T _ Hv). apply shared_at_sound in T. destruct T as [s [E B]].
  exists s. split; [exact E|]. apply binary_shared_either_side. exact B.
Qed.
