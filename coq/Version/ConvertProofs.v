(* C10 -- proofs about the conversion loop, the pass and the ModelProto wrapper of Model.v.
   All statements are for an arbitrary adapter function (any registry) unless said otherwise. *)
From Coq Require Import ZArith List Bool String Lia.
Import ListNotations.
Require Import OV.Version.Model.
Open Scope Z_scope.

(* ---------------------------------------------------------------- small facts *)
Lemma g_cons_fin : forall n l0 r out l,
  g_cons n l0 r = GFin out l -> exists out' l', r = GFin out' l' /\ out = n :: out' /\ l = (l0 ++ l')%list.
Proof. intros n l0 [ns l1|e ns l1] out l H; cbn in H; inversion H; eauto. Qed.
Lemma g_log_fin : forall l0 r out l,
  g_log l0 r = GFin out l -> exists l', r = GFin out l' /\ l = (l0 ++ l')%list.
Proof. intros l0 [ns l1|e ns l1] out l H; cbn in H; inversion H; eauto. Qed.
Lemma g_cons_abort : forall n l0 r e out l,
  g_cons n l0 r = GAbort e out l -> exists out' l', r = GAbort e out' l' /\ out = n :: out' /\ l = (l0 ++ l')%list.
Proof. intros n l0 [ns l1|e' ns l1] e out l H; cbn in H; inversion H; eauto. Qed.

Lemma set_ver_subs : forall n v, n_subs (set_ver n v) = n_subs n. Proof. intros []; reflexivity. Qed.
Lemma set_ver_dflt : forall n v, n_dflt (set_ver n v) = n_dflt n. Proof. intros []; reflexivity. Qed.
Lemma set_ver_ref : forall n v, n_ref (set_ver n v) = n_ref n. Proof. intros []; reflexivity. Qed.
Lemma set_ver_ver : forall n v, n_ver (set_ver n v) = Some v. Proof. intros []; reflexivity. Qed.
Lemma set_subs_subs : forall n s, n_subs (set_subs n s) = s. Proof. intros []; reflexivity. Qed.
Lemma set_subs_dflt : forall n s, n_dflt (set_subs n s) = n_dflt n. Proof. intros []; reflexivity. Qed.
Lemma set_subs_ref : forall n s, n_ref (set_subs n s) = n_ref n. Proof. intros []; reflexivity. Qed.
Lemma set_subs_ver : forall n s, n_ver (set_subs n s) = n_ver n. Proof. intros []; reflexivity. Qed.

Lemma at_version_unfold : forall t n,
  at_version t n = negb (n_dflt n) || (oz_none_or (n_ver n) t && forallb (at_version t) (n_subs n)).
Proof. intros t []; reflexivity. Qed.

(* ---------------------------------------------------------------- unfolding equations *)
Lemma conv_S : forall adapt t dv f todo,
  conv adapt t dv (S f) todo =
  match todo with
  | [] => GFin [] []
  | n :: rest =>
    if negb (n_dflt n) then g_cons n [] (conv adapt t dv f rest)
    else
      match (match n_ver n with Some v => Some v | None => dv end) with
      | None => GAbort ENoVersion todo []
      | Some v =>
        if n_ref n then GAbort ERefAttr todo []
        else if t <? v then GAbort EDowngrade todo []
        else
          match steps adapt t dv f n v (Z.to_nat (t - v)) [] with
          | SKept n' l => g_cons n' l (conv adapt t dv f rest)
          | SRepl news l => g_log l (conv adapt t dv f (news ++ rest))
          | SAbortKept e n' l => GAbort e (n' :: rest) l
          | SAbortRepl e news l => GAbort e (news ++ rest) l
          end
      end
  end.
Proof. reflexivity. Qed.

Lemma steps_S : forall adapt t dv f n k cnt log,
  steps adapt t dv (S f) n k cnt log =
  match cnt with
  | O => SKept n log
  | S c =>
    match adapt (n_op n) k n with
    | ANone =>
      match conv adapt t dv f (n_subs n) with
      | GFin sb l => steps adapt t dv f (set_ver (set_subs n sb) (k + 1)) (k + 1) c (log ++ l)
      | GAbort e sb l =>
        if is_vce e then steps adapt t dv f (set_subs n sb) (k + 1) c (log ++ l ++ [n_op n])
        else SAbortKept e (set_subs n sb) (log ++ l)
      end
    | ARaiseVCE => steps adapt t dv f n (k + 1) c (log ++ [n_op n])
    | ARaiseOther => SAbortKept EOther n log
    | AReplace news =>
      let news' := map (fun m => set_ver m (k + 1)) news in
      match ghost adapt n (k + 1) c log with
      | (None, l) => SRepl news' l
      | (Some e, l) => SAbortRepl e news' l
      end
    end
  end.
Proof. reflexivity. Qed.

(* ---------------------------------------------------------------- the log only grows *)
Section Loop.
  Variable adapt : adapter.
  Variable t : Z.
  Variable dv : option Z.

  Lemma ghost_log : forall cnt n k log e l,
    ghost adapt n k cnt log = (e, l) -> exists l', l = (log ++ l')%list.
  Proof.
    induction cnt as [|c IH]; intros n k log e l H; cbn in H.
    - inversion H. exists []. now rewrite app_nil_r.
    - destruct (adapt (n_op n) k n).
      + eapply IH; eauto.
      + apply IH in H as [l' ->]. exists ([n_op n] ++ l')%list. now rewrite app_assoc.
      + inversion H. exists []. now rewrite app_nil_r.
      + inversion H. exists []. now rewrite app_nil_r.
  Qed.

  Definition sres_log (r : sres) : list string :=
    match r with SKept _ l | SRepl _ l | SAbortKept _ _ l | SAbortRepl _ _ l => l end.

  Lemma steps_log : forall f n k cnt log,
    exists l', sres_log (steps adapt t dv f n k cnt log) = (log ++ l')%list.
  Proof.
    induction f as [|f IH]; intros n k cnt log.
    - cbn. exists []. now rewrite app_nil_r.
    - rewrite steps_S. destruct cnt as [|c].
      + cbn. exists []. now rewrite app_nil_r.
      + destruct (adapt (n_op n) k n) as [| | |news].
        * destruct (conv adapt t dv f (n_subs n)) as [sb l|e sb l].
          -- destruct (IH (set_ver (set_subs n sb) (k + 1)) (k + 1) c (log ++ l)%list) as [l' E].
             rewrite E. exists (l ++ l')%list. now rewrite app_assoc.
          -- destruct (is_vce e).
             ++ destruct (IH (set_subs n sb) (k + 1) c (log ++ l ++ [n_op n])%list) as [l' E].
                rewrite E. exists ((l ++ [n_op n]) ++ l')%list. now rewrite !app_assoc.
             ++ cbn. eauto.
        * destruct (IH n (k + 1) c (log ++ [n_op n])%list) as [l' E].
          rewrite E. exists ([n_op n] ++ l')%list. now rewrite app_assoc.
        * cbn. exists []. now rewrite app_nil_r.
        * destruct (ghost adapt n (k + 1) c log) as [[e|] l] eqn:G;
            apply ghost_log in G as [l' ->]; cbn; eauto.
  Qed.

  Lemma steps_log_nil : forall f n k cnt log,
    sres_log (steps adapt t dv f n k cnt log) = [] -> log = [].
  Proof.
    intros f n k cnt log H. destruct (steps_log f n k cnt log) as [l' E].
    rewrite E in H. now apply app_eq_nil in H.
  Qed.
End Loop.

(* ---------------------------------------------------------------- consistency of a finished conversion *)
Section Consistent.
  Variable adapt : adapter.
  (* replacement nodes have no subgraphs (true of every registered adapter: AdaptersProofs.adapt_of_flat) *)
  Hypothesis adapt_flat : forall op k n news,
    adapt op k n = AReplace news -> Forall (fun m => n_subs m = []) news.
  Variables s t : Z.      (* the version the input is consistent at; the target *)

  Notation conv' := (conv adapt t (Some s)).
  Notation steps' := (steps adapt t (Some s)).

  (* nodes found on the work list: original nodes (uniformly at s) or nodes made by an adapter *)
  Definition W (n : node) : Prop :=
    at_version s n = true \/ (n_subs n = [] /\ exists v, n_ver n = Some v /\ s < v <= t).
  (* nodes of a finished graph *)
  Definition Good (n : node) : Prop :=
    at_version t n = true /\ (s < t -> n_dflt n = true -> n_ver n = Some t /\ n_ref n = false).
  Definition Strict (n : node) : Prop := n_dflt n = true -> n_ver n = Some t /\ n_ref n = false.

  Lemma Good_at : forall l, Forall Good l -> forallb (at_version t) l = true.
  Proof. intros l H. apply forallb_forall. intros x Hx. rewrite Forall_forall in H. apply H, Hx. Qed.

  (* visiting an already converted graph again changes nothing *)
  Lemma conv_strict_id : forall f l out log,
    Forall Strict l -> conv' f l = GFin out log -> out = l /\ log = [].
  Proof.
    induction f as [|f IH]; intros l out log Hs H; [discriminate|].
    rewrite conv_S in H. destruct l as [|n rest]; [inversion H; auto|].
    inversion Hs as [|? ? Hn Hrest]; subst.
    destruct (negb (n_dflt n)) eqn:Ed.
    - apply g_cons_fin in H as (out' & l' & Hc & -> & ->).
      apply IH in Hc as [-> ->]; auto.
    - apply negb_false_iff in Ed. destruct (Hn Ed) as [Hv Hr]. rewrite Hv, Hr in H.
      rewrite Z.ltb_irrefl in H. rewrite Z.sub_diag in H. cbn [Z.to_nat] in H.
      destruct f as [|f']; [discriminate|]. rewrite steps_S in H.
      apply g_cons_fin in H as (out' & l' & Hc & -> & ->).
      apply (IH rest out' l' Hrest) in Hc as [-> ->]. auto.
  Qed.

  (* state of a node while it is being stepped, at from_version k *)
  Definition Inv (n : node) (k : Z) : Prop :=
    n_dflt n = true /\ n_ref n = false /\
    ((k = s /\ at_version s n = true) \/ (s < k /\ n_ver n = Some k /\ Forall Good (n_subs n))).

  Definition P (f : nat) : Prop := forall todo out,
    Forall W todo -> conv' f todo = GFin out [] -> Forall Good out.
  Definition Q (f : nat) : Prop := forall n k cnt log,
    Inv n k -> Z.of_nat cnt = t - k ->
    match steps' f n k cnt log with
    | SKept n' l => l = [] -> Good n'
    | SRepl news l => l = [] -> Forall W news
    | _ => True
    end.

  Lemma at_version_subs : forall v n, n_dflt n = true -> at_version v n = true ->
    oz_none_or (n_ver n) v = true /\ Forall (fun m => at_version v m = true) (n_subs n).
  Proof.
    intros v n Hd H. rewrite at_version_unfold, Hd in H. cbn in H.
    apply andb_true_iff in H as [H1 H2]. split; auto.
    apply Forall_forall. rewrite forallb_forall in H2. exact H2.
  Qed.

  Lemma main : forall f, P f /\ Q f.
  Proof.
    induction f as [|f [IHP IHQ]].
    { split; [intros todo out _ H; discriminate | intros n k cnt log _ _; exact I]. }
    assert (HQ : Q (S f)).
    { intros n k cnt log (Hd & Hr & Hst) Hcnt. rewrite steps_S.
      destruct cnt as [|c].
      - (* loop finished *)
        intros _. assert (k = t) by lia. subst k. split.
        + destruct Hst as [[-> Ha]|(Hlt & Hv & Hsub)]; [exact Ha|].
          rewrite at_version_unfold, Hd, Hv. cbn. rewrite Z.eqb_refl. cbn. apply Good_at, Hsub.
        + intros Hlt _. destruct Hst as [[-> _]|(_ & Hv & _)]; [lia|]. auto.
      - assert (Hk : k < t) by lia.
        destruct (adapt (n_op n) k n) as [| | |news] eqn:Ea.
        + (* no replacement: subgraphs, then node.version = k+1 *)
          destruct (conv' f (n_subs n)) as [sb l|e sb l] eqn:Ec.
          * pose proof (IHQ (set_ver (set_subs n sb) (k + 1)) (k + 1) c (log ++ l)%list) as HQn.
            destruct (steps' f (set_ver (set_subs n sb) (k + 1)) (k + 1) c (log ++ l)%list) as [n' l1|news l1|? ? ?|? ? ?] eqn:Es;
              try exact I.
            -- intro Hl1. subst l1.
               assert (Hll : (log ++ l)%list = []) by (eapply (steps_log_nil adapt t (Some s) f); rewrite Es; reflexivity).
               apply app_eq_nil in Hll as [-> ->].
               apply HQn; [|lia|reflexivity].
               split; [now rewrite set_ver_dflt, set_subs_dflt|].
               split; [now rewrite set_ver_ref, set_subs_ref|]. right.
               split; [lia|]. split; [apply set_ver_ver|]. rewrite set_ver_subs, set_subs_subs.
               destruct Hst as [[-> Ha]|(Hlt & Hv & Hsub)].
               ++ apply (IHP (n_subs n)); [|exact Ec].
                  destruct (at_version_subs s n Hd Ha) as [_ Hsubs].
                  eapply Forall_impl; [|exact Hsubs]. intros m Hm. left. exact Hm.
               ++ assert (Hid : sb = n_subs n /\ @nil string = []).
                  { eapply conv_strict_id; [|exact Ec].
                    eapply Forall_impl; [|exact Hsub]. intros m [_ Hm] Hdm. apply Hm; [lia|exact Hdm]. }
                  destruct Hid as [-> _]. exact Hsub.
            -- intro Hl1. subst l1.
               assert (Hll : (log ++ l)%list = []) by (eapply (steps_log_nil adapt t (Some s) f); rewrite Es; reflexivity).
               apply app_eq_nil in Hll as [-> ->].
               apply HQn; [|lia|reflexivity].
               split; [now rewrite set_ver_dflt, set_subs_dflt|].
               split; [now rewrite set_ver_ref, set_subs_ref|]. right.
               split; [lia|]. split; [apply set_ver_ver|]. rewrite set_ver_subs, set_subs_subs.
               destruct Hst as [[-> Ha]|(Hlt & Hv & Hsub)].
               ++ apply (IHP (n_subs n)); [|exact Ec].
                  destruct (at_version_subs s n Hd Ha) as [_ Hsubs].
                  eapply Forall_impl; [|exact Hsubs]. intros m Hm. left. exact Hm.
               ++ assert (Hid : sb = n_subs n /\ @nil string = []).
                  { eapply conv_strict_id; [|exact Ec].
                    eapply Forall_impl; [|exact Hsub]. intros m [_ Hm] Hdm. apply Hm; [lia|exact Hdm]. }
                  destruct Hid as [-> _]. exact Hsub.
          * destruct (is_vce e); [|exact I].
            (* a logged skip: the final log cannot be empty *)
            destruct (steps' f (set_subs n sb) (k + 1) c (log ++ l ++ [n_op n])%list) as [n' l1|news l1|? ? ?|? ? ?] eqn:Es;
              try exact I; intro Hl1; subst l1; exfalso;
              assert (Hll : (log ++ l ++ [n_op n])%list = []) by (eapply (steps_log_nil adapt t (Some s) f); rewrite Es; reflexivity);
              apply app_eq_nil in Hll as [_ Hll]; apply app_eq_nil in Hll as [_ Hll]; discriminate.
        + destruct (steps' f n (k + 1) c (log ++ [n_op n])%list) as [n' l1|news l1|? ? ?|? ? ?] eqn:Es;
            try exact I; intro Hl1; subst l1; exfalso;
            assert (Hll : (log ++ [n_op n])%list = []) by (eapply (steps_log_nil adapt t (Some s) f); rewrite Es; reflexivity);
            apply app_eq_nil in Hll as [_ Hll]; discriminate.
        + exact I.
        + (* replacement: new nodes stamped k+1 *)
          destruct (ghost adapt n (k + 1) c log) as [[e|] l]; [exact I|].
          intros _. apply adapt_flat in Ea.
          apply Forall_forall. intros m Hm. apply in_map_iff in Hm as (m0 & <- & Hm0).
          rewrite Forall_forall in Ea. right. rewrite set_ver_subs. split; [apply Ea, Hm0|].
          exists (k + 1). rewrite set_ver_ver. split; [reflexivity|].
          destruct Hst as [[-> _]|(Hlt & _)]; lia. }
    split; [|exact HQ].
    (* the work list *)
    intros todo out HW H. rewrite conv_S in H.
    destruct todo as [|n rest]; [inversion H; constructor|].
    inversion HW as [|? ? Hn Hrest]; subst.
    destruct (negb (n_dflt n)) eqn:Ed.
    - apply g_cons_fin in H as (out' & l' & Hc & -> & Hl). cbn in Hl. subst l'.
      constructor; [|eapply IHP; eauto].
      split; [rewrite at_version_unfold, Ed; reflexivity|].
      intros _ Hd. apply negb_true_iff in Ed. congruence.
    - apply negb_false_iff in Ed.
      (* effective version of the node *)
      assert (Hv : exists v, (match n_ver n with Some v => Some v | None => Some s end) = Some v /\
                             ((v = s /\ at_version s n = true) \/ (s < v <= t /\ n_ver n = Some v /\ n_subs n = []))).
      { destruct Hn as [Ha|(Hsb & v & Hv & Hr)].
        - destruct (at_version_subs s n Ed Ha) as [Ho _].
          destruct (n_ver n) as [v|]; cbn in Ho; [apply Z.eqb_eq in Ho; subst v|]; exists s; auto.
        - exists v. rewrite Hv. split; auto. }
      destruct Hv as (v & Ev & Hcase). rewrite Ev in H.
      destruct (n_ref n) eqn:Er; [discriminate|].
      destruct (t <? v) eqn:Elt; [discriminate|]. apply Z.ltb_ge in Elt.
      pose proof (IHQ n v (Z.to_nat (t - v)) []) as HQn.
      assert (HInv : Inv n v).
      { split; [exact Ed|]. split; [exact Er|].
        destruct Hcase as [[-> Ha]|(Hr & Hvv & Hsb)]; [left; auto|right].
        split; [lia|]. split; [exact Hvv|]. rewrite Hsb. constructor. }
      specialize (HQn HInv). rewrite Z2Nat.id in HQn by lia. specialize (HQn eq_refl).
      destruct (steps' f n v (Z.to_nat (t - v)) []) as [n' l1|news l1|? ? ?|? ? ?]; try discriminate.
      + apply g_cons_fin in H as (out' & l' & Hc & -> & Hl).
        symmetry in Hl. apply app_eq_nil in Hl as [-> ->].
        constructor; [apply HQn; reflexivity|eapply IHP; eauto].
      + apply g_log_fin in H as (l' & Hc & Hl).
        symmetry in Hl. apply app_eq_nil in Hl as [-> ->].
        eapply IHP; [|exact Hc]. apply Forall_app. split; [apply HQn; reflexivity|exact Hrest].
  Qed.

  Lemma conv_consistent : forall f todo out,
    forallb (at_version s) todo = true -> conv' f todo = GFin out [] -> forallb (at_version t) out = true.
  Proof.
    intros f todo out Hu H. apply Good_at. eapply (proj1 (main f)); [|exact H].
    apply Forall_forall. intros x Hx. left. rewrite forallb_forall in Hu. apply Hu, Hx.
  Qed.

  (* a target below the version of the nodes: nothing is touched, whatever the outcome *)
  Lemma conv_downgrade_unchanged : forall f todo,
    t < s -> forallb (at_version s) todo = true ->
    match conv' f todo with GFin out l | GAbort _ out l => out = todo /\ l = [] end.
  Proof.
    induction f as [|f IH]; intros todo Hlt Hu; [cbn; auto|].
    rewrite conv_S. destruct todo as [|n rest]; [auto|].
    cbn [forallb] in Hu. apply andb_true_iff in Hu as [Hn Hrest].
    destruct (negb (n_dflt n)) eqn:Ed.
    - specialize (IH rest Hlt Hrest). destruct (conv' f rest); cbn; destruct IH as [-> ->]; auto.
    - apply negb_false_iff in Ed. destruct (at_version_subs s n Ed Hn) as [Ho _].
      assert (Ev : (match n_ver n with Some v => Some v | None => Some s end) = Some s).
      { destruct (n_ver n) as [v|]; cbn in Ho; [apply Z.eqb_eq in Ho; subst v|]; reflexivity. }
      rewrite Ev. destruct (n_ref n); [auto|].
      assert (E : (t <? s) = true) by (apply Z.ltb_lt; lia). rewrite E. auto.
  Qed.
End Consistent.

Lemma consistent_at_inv : forall s M, consistent_at s M = true ->
  oz_is (m_decl M) s = true /\ oz_none_or (m_ai M) s = true /\
  forallb (at_version s) (m_graph M) = true /\ forallb (func_at s) (m_funcs M) = true.
Proof.
  intros s M H. unfold consistent_at in H.
  apply andb_true_iff in H as [H H4]. apply andb_true_iff in H as [H H3].
  apply andb_true_iff in H as [H1 H2]. auto.
Qed.
Lemma oz_is_eq : forall v s, oz_is v s = true -> v = Some s.
Proof. intros [x|] s H; cbn in H; [apply Z.eqb_eq in H; now subst|discriminate]. Qed.

(* ---------------------------------------------------------------- model level *)
Section NativeTheorems.
  Variable adapt : adapter.
  Hypothesis adapt_flat : forall op k n news,
    adapt op k n = AReplace news -> Forall (fun m => n_subs m = []) news.
  Variables smin smax : Z.
  Variable fuel : nat.

  Lemma default_version_consistent : forall s M,
    consistent_at s M = true -> default_version M = Some (Some s).
  Proof.
    intros s M H. apply consistent_at_inv in H as (H1 & H2 & _ & _). unfold default_version.
    rewrite (oz_is_eq _ _ H1).
    destruct (m_ai M) as [b|]; [|reflexivity]. cbn in *. now rewrite Z.eqb_sym, H2.
  Qed.

  Lemma conv_funcs_consistent : forall s t fs fs' l,
    forallb (func_at s) fs = true ->
    conv_funcs adapt fuel t (Some s) fs = (fs', None, l) -> l = [] ->
    forallb (func_at t) fs' = true.
  Proof.
    intros s t. induction fs as [|f fs IH]; intros fs' l Hu H Hl; cbn in H.
    - inversion H. reflexivity.
    - cbn [forallb] in Hu. apply andb_true_iff in Hu as [Hf Hfs].
      destruct (conv adapt t (Some s) fuel (f_nodes f)) as [ns l1|e ns l1] eqn:Ec; [|inversion H].
      destruct (conv_funcs adapt fuel t (Some s) fs) as [[rest' e] l2] eqn:Er.
      inversion H; subst. apply app_eq_nil in H3 as [-> ->].
      cbn [forallb]. rewrite (IH rest' [] Hfs eq_refl eq_refl), andb_true_r.
      unfold func_at in *. cbn. rewrite Z.eqb_refl. cbn.
      apply andb_true_iff in Hf as [_ Hn].
      eapply conv_consistent; eauto.
  Qed.

  (* convert_consistent: a conversion that finished without a logged skip leaves a model that declares
     the target consistently: model import, every function import, every default-domain node *)
  Theorem native_consistent : forall s t M M',
    consistent_at s M = true ->
    convert_native adapt smin smax fuel M t = MDone M' [] ->
    consistent_at t M' = true.
  Proof.
    intros s t M M' Hc H. unfold convert_native in H.
    destruct ((t >? smax) || (t <? smin)); [discriminate|].
    rewrite (default_version_consistent s M Hc) in H.
    destruct (conv adapt t (Some s) fuel (m_graph M)) as [g l|e g l] eqn:Eg; [|discriminate].
    destruct (conv_funcs adapt fuel t (Some s) (m_funcs M)) as [[fs [e|]] l'] eqn:Ef; [discriminate|].
    apply consistent_at_inv in Hc as (_ & _ & Hg & Hf).
    injection H as <- Hl. apply app_eq_nil in Hl as [-> ->].
    unfold consistent_at. cbn. rewrite Z.eqb_refl. cbn.
    rewrite (conv_consistent adapt adapt_flat s t fuel _ _ Hg Eg). cbn.
    eapply conv_funcs_consistent; eauto.
  Qed.

  (* every finished conversion stamps the model and all functions, skipped nodes or not *)
  Theorem native_stamps : forall t M M' l,
    convert_native adapt smin smax fuel M t = MDone M' l ->
    m_decl M' = Some t /\ m_ai M' = None /\ Forall (fun f => f_decl f = Some t /\ f_ai f = None) (m_funcs M').
  Proof.
    intros t M M' l H. unfold convert_native in H.
    destruct ((t >? smax) || (t <? smin)); [discriminate|].
    destruct (default_version M) as [dv|]; [|discriminate].
    destruct (conv adapt t dv fuel (m_graph M)) as [g l1|e g l1]; [|discriminate].
    destruct (conv_funcs adapt fuel t dv (m_funcs M)) as [[fs [e|]] l'] eqn:Ef; [discriminate|].
    inversion H; subst. cbn. repeat split; auto. clear H.
    revert fs l' Ef. induction (m_funcs M) as [|f fs0 IH]; intros fs l' Ef; cbn in Ef.
    - inversion Ef. constructor.
    - destruct (conv adapt t dv fuel (f_nodes f)); [|inversion Ef].
      destruct (conv_funcs adapt fuel t dv fs0) as [[rest' e] l2] eqn:Er.
      inversion Ef; subst. constructor; [cbn; auto|]. eapply IH; eauto.
  Qed.

  (* all-or-nothing, the part that holds: a target below the model's version (function-free model, as
     after inlining) raises before anything is changed *)
  Theorem native_downgrade_unchanged : forall s t M e M' l,
    consistent_at s M = true -> m_funcs M = [] -> t < s ->
    convert_native adapt smin smax fuel M t = MRaised e M' l -> M' = M /\ l = [].
  Proof.
    intros s t M e M' l Hc Hf Hlt H. unfold convert_native in H.
    destruct ((t >? smax) || (t <? smin)); [inversion H; auto|].
    rewrite (default_version_consistent s M Hc) in H.
    assert (Hg : forallb (at_version s) (m_graph M) = true) by (apply consistent_at_inv in Hc; tauto).
    pose proof (conv_downgrade_unchanged adapt s t fuel (m_graph M) Hlt Hg) as Hd.
    destruct (conv adapt t (Some s) fuel (m_graph M)) as [g l1|e1 g l1]; destruct Hd as [-> ->].
    - rewrite Hf in H. cbn in H. discriminate.
    - inversion H; subst. destruct M; cbn in *. auto.
  Qed.

  (* ------------------------------------------------------------ the pass *)
  Variable inline cleanup : model -> model.
  Variable capi : model -> Z -> option model.
  (* assumed of onnx_ir's passes and of the ONNX C-API converter; measured by the harness on every case *)
  Hypothesis inline_keeps : forall s M, consistent_at s M = true -> consistent_at s (inline M) = true.
  Hypothesis cleanup_keeps : forall s M, consistent_at s M = true -> consistent_at s (cleanup M) = true.
  Hypothesis inline_no_funcs : forall M, m_funcs (inline M) = [].
  Hypothesis capi_consistent : forall M t M2, capi M t = Some M2 ->
    consistent_at t (Model (m_decl M2) (m_ai M2) (m_graph M2) []) = true.

  Notation pass := (pass_convert adapt smin smax fuel inline cleanup capi).

  (* either converted and consistent at the target, or (fallback on, conversion unsupported natively,
     C API failed) left consistent at the source version *)
  Theorem pass_consistent : forall fb s t M M',
    consistent_at s M = true ->
    pass fb M t = MDone M' [] ->
    consistent_at t M' = true \/
    (fb = true /\ supported smin smax (inline M) t = false /\ capi (inline M) t = None /\
     M' = cleanup (inline M) /\ consistent_at s M' = true).
  Proof.
    intros fb s t M M' Hc H. unfold pass_convert in H.
    pose proof (inline_keeps s M Hc) as Hi.
    destruct (match m_decl (inline M) with Some c => c =? t | None => false end) eqn:Enoop.
    - (* already at the target *)
      inversion H; subst. left. apply cleanup_keeps.
      assert (s = t).
      { pose proof (consistent_at_inv _ _ Hi) as (Hd & _). apply oz_is_eq in Hd. rewrite Hd in Enoop.
        apply Z.eqb_eq in Enoop. exact Enoop. }
      subst. exact Hi.
    - destruct (negb fb || supported smin smax (inline M) t) eqn:Eb.
      + destruct (convert_native adapt smin smax fuel (inline M) t) as [M2 l|e M2 l] eqn:En; [|discriminate].
        inversion H; subst. left. apply cleanup_keeps. eapply native_consistent; eauto.
      + apply orb_false_iff in Eb as [Efb Esup]. apply negb_false_iff in Efb.
        destruct (capi (inline M) t) as [M2|] eqn:Ecapi.
        * inversion H; subst. left. apply cleanup_keeps. rewrite inline_no_funcs.
          eapply capi_consistent; eauto.
        * inversion H; subst. right. repeat split; auto.
  Qed.

  (* an exception leaves the caller's ModelProto untouched; the in-memory model only when the target is
     below the model's version (the other raising paths may have mutated it: see the _refuted theorems) *)
  Theorem pass_downgrade_unchanged : forall s t M e M' l,
    consistent_at s M = true -> t < s ->
    pass false M t = MRaised e M' l -> M' = inline M /\ l = [].
  Proof.
    intros s t M e M' l Hc Hlt H. unfold pass_convert in H.
    destruct (match m_decl (inline M) with Some c => c =? t | None => false end); [discriminate|].
    cbn [negb orb] in H.
    destruct (convert_native adapt smin smax fuel (inline M) t) as [M2 l2|e2 M2 l2] eqn:En; [discriminate|].
    inversion H; subst.
    eapply native_downgrade_unchanged; eauto.
  Qed.
End NativeTheorems.

(* ---------------------------------------------------------------- ModelProto wrapper *)
Lemma at_version_strip : forall t n, at_version t (strip n) = true.
Proof.
  intros t. fix IH 1. intros [o d v r a i sh sb]. cbn [strip at_version oz_none_or].
  destruct d; cbn; [|reflexivity].
  induction sb as [|m sb IHsb]; cbn; [reflexivity|]. rewrite IH. exact IHsb.
Qed.

Lemma forallb_at_version_strip : forall t l, forallb (at_version t) (map strip l) = true.
Proof. intros t l. induction l; cbn; [reflexivity|]. now rewrite at_version_strip. Qed.

Lemma consistent_strip : forall t M,
  consistent_at t M = true ->
  consistent_at t (Model (m_decl M) (m_ai M) (map strip (m_graph M)) (map strip_func (m_funcs M))) = true.
Proof.
  intros t M H. apply consistent_at_inv in H as (H1 & H2 & _ & H4).
  unfold consistent_at. cbn. rewrite H1, H2, forallb_at_version_strip. cbn.
  clear - H4. induction (m_funcs M) as [|f fs IH]; cbn in *; [reflexivity|].
  apply andb_true_iff in H4 as [Hf Hfs]. rewrite (IH Hfs), andb_true_r.
  unfold func_at in *. cbn. apply andb_true_iff in Hf as [Hf _]. apply andb_true_iff in Hf as [Hf1 Hf2].
  now rewrite Hf1, Hf2, forallb_at_version_strip.
Qed.

Lemma of_proto_consistent : forall s p, consistent_at s p = true -> consistent_at s (of_proto p) = true.
Proof. intros. now apply consistent_strip. Qed.

(* the repaired wrapper (opset_import and functions copied back): whatever consistency the pass
   guarantees for the in-memory model holds for the caller's proto *)
Theorem proto_fixed_consistent : forall (pass : model -> Z -> mres) p t p' l v M',
  pass (of_proto p) t = MDone M' l -> consistent_at v M' = true ->
  proto_convert true pass p t = PDone p' l -> consistent_at v p' = true.
Proof.
  intros pass p t p' l v M' Hp Hc H. unfold proto_convert in H. rewrite Hp in H.
  inversion H; subst. now apply consistent_strip.
Qed.

(* the wrapper as it stands keeps the proto's imports: after a real conversion the proto cannot be
   consistent at the target *)
Theorem proto_current_keeps_imports : forall (pass : model -> Z -> mres) p t p' l,
  proto_convert false pass p t = PDone p' l -> m_decl p' = m_decl p /\ m_funcs p' = [].
Proof.
  intros pass p t p' l H. unfold proto_convert in H.
  destruct (pass (of_proto p) t); inversion H; subst; auto.
Qed.

Corollary proto_current_inconsistent : forall (pass : model -> Z -> mres) p s t p' l,
  consistent_at s p = true -> s <> t ->
  proto_convert false pass p t = PDone p' l -> consistent_at t p' = false.
Proof.
  intros pass p s t p' l Hc Hne H. apply proto_current_keeps_imports in H as [Hd _].
  apply consistent_at_inv in Hc as (Hc & _). apply oz_is_eq in Hc.
  unfold consistent_at. rewrite Hd, Hc.
  cbn. destruct (s =? t) eqn:E; [apply Z.eqb_eq in E; contradiction|reflexivity].
Qed.

(* an exception raised by the pass leaves the proto as it was *)
Theorem proto_raise_unchanged : forall b (pass : model -> Z -> mres) p t e p',
  proto_convert b pass p t = PRaised e p' -> p' = p.
Proof.
  intros b pass p t e p' H. unfold proto_convert in H.
  destruct (pass (of_proto p) t); [destruct b|]; inversion H; auto.
Qed.
