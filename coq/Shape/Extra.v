(* C09 -- further shape-reading simplifications (model file: definitions only).
     Size evaluator, _merge_shapes (Identity backward / forward inference merge), Concat zero-size operand removal,
     SqueezeReshape rule, collapse_slice_rule (constant bounds), redundant ScatterND rules, the static-shape guard of
     broadcast_to_matmul, the scalar-split branch of SplitToSequence. *)
From Coq Require Import String ZArith List Bool.
Require Import OV.Shape.SymDim OV.Shape.PartialEval.
Import ListNotations.
Open Scope Z_scope.

(* ---- Size: `for d in shape: if not isinstance(d, int): return None; size *= d` -> Constant(value_int=size) ---- *)
Fixpoint size_fold (x : list dim) : option Z :=
  match x with
  | [] => Some 1
  | DInt a :: t => match size_fold t with Some b => Some (a * b) | None => None end
  | _ :: _ => None
  end.
Definition size_decision (x : option (list dim)) : option Z := match x with Some l => size_fold l | None => None end.

(* ---- _merge_shapes(preferred, other) ------------------------------------------------------------------- *)
Definition merge_dims (d1 d2 : dim) : dim :=
  if dim_ir_eqb d1 d2 then d1
  else match d1, d2 with
       | DInt _, _ => d1          (* prefer int value over symbolic dim *)
       | _, DInt _ => d2
       | DUnk, _ => d2            (* dim1.value is None *)
       | _, _ => d1
       end.
Fixpoint map2 {A B C} (f : A -> B -> C) (a : list A) (b : list B) : list C :=
  match a, b with x :: a', y :: b' => f x y :: map2 f a' b' | _, _ => [] end.
(* a rank mismatch raises ValueError, which both callers swallow: the preferred shape stays *)
Definition merge_shapes (p o : option (list dim)) : option (list dim) :=
  match p, o with
  | None, _ => o
  | _, None => p
  | Some a, Some b => if Nat.eqb (List.length a) (List.length b) then Some (map2 merge_dims a b) else Some a
  end.

(* ---- Concat: operands whose dim on `axis` is the int 0 are dropped ------------------------------------- *)
Definition has_zero_size (axis : Z) (s : option (list dim)) : bool :=
  match s with
  | Some l => match py_index l axis with Some (DInt 0) => true | _ => false end
  | None => false
  end.
(* what the evaluator emits: None = node kept; Some [] = Identity(inputs[0]); Some l = Concat of the operands at positions l *)
Fixpoint kept_positions (axis : Z) (i : nat) (ops : list (option (list dim))) : list nat :=
  match ops with
  | [] => []
  | s :: t => (if has_zero_size axis s then [] else [i]) ++ kept_positions axis (S i) t
  end.
Definition concat_decision (axis : Z) (ops : list (option (list dim))) : option (list nat) :=
  match ops with
  | [_] => Some []                                   (* Concat(x) -> Identity(x) *)
  | _ => let k := kept_positions axis 0 ops in
         if Nat.eqb (List.length k) (List.length ops) then None else Some k
  end.

(* ONNX Concat on concrete shapes: same rank, axis in range, every other dim equal; the axis dims add up *)
Definition norm_axis (rank axis : Z) : option nat :=
  if (0 <=? axis) && (axis <? rank) then Some (Z.to_nat axis)
  else if (axis <? 0) && (- rank <=? axis) then Some (Z.to_nat (axis + rank)) else None.
Fixpoint set_nth {A} (l : list A) (n : nat) (v : A) : list A :=
  match l, n with
  | [], _ => []
  | _ :: t, O => v :: t
  | a :: t, S k => a :: set_nth t k v
  end.
Definition compatible (ax : nat) (a b : list Z) : bool :=
  Nat.eqb (List.length a) (List.length b) && forallb2 Z.eqb (set_nth a ax 0) (set_nth b ax 0).
Definition concat_shape (axis : Z) (cs : list (list Z)) : option (list Z) :=
  match cs with
  | [] => None
  | c0 :: _ =>
      match norm_axis (Z.of_nat (List.length c0)) axis with
      | None => None
      | Some ax =>
          if forallb (compatible ax c0) cs
          then Some (set_nth c0 ax (fold_right Z.add 0 (map (fun c => nth ax c 0) cs)))
          else None
      end
  end.
(* ---- repaired evaluator (proposed_fixes/ready/C09_01_concat_zero_operand.diff): a zero-size operand is dropped only when its other dims are
   KNOWN equal (same int / same name) to those of a reference operand that is kept: the first operand that is not
   zero-size, or operand 0 when all are *)
Definition keq_except (ax : nat) (a b : list dim) : bool :=
  forallb2 same_dim (set_nth a ax (DInt 0)) (set_nth b ax (DInt 0)).
Definition same_except_axis (axis : Z) (s r : option (list dim)) : bool :=
  match s, r with
  | Some a, Some b =>
      Nat.eqb (List.length a) (List.length b) &&
      match norm_axis (Z.of_nat (List.length a)) axis with Some ax => keq_except ax a b | None => false end
  | _, _ => false
  end.
Fixpoint first_false (i : nat) (l : list bool) : option nat :=
  match l with [] => None | b :: t => if b then first_false (S i) t else Some i end.
Fixpoint kept_positions_fixed (axis : Z) (ref : nat) (rs : option (list dim)) (i : nat) (ops : list (option (list dim))) : list nat :=
  match ops with
  | [] => []
  | s :: t => (if negb (has_zero_size axis s) || Nat.eqb i ref || negb (same_except_axis axis s rs) then [i] else [])
              ++ kept_positions_fixed axis ref rs (S i) t
  end.
(* None = node kept; Some l = Identity / Concat of the operands at positions l (never empty) *)
Definition concat_decision_fixed (axis : Z) (ops : list (option (list dim))) : option (list nat) :=
  match ops with
  | [_] => Some [O]
  | _ => let zs := map (has_zero_size axis) ops in
         if negb (existsb (fun b => b) zs) then None
         else let ref := match first_false 0 zs with Some i => i | None => O end in
              let k := kept_positions_fixed axis ref (nth ref ops None) 0 ops in
              if Nat.eqb (List.length k) (List.length ops) then None else Some k
  end.
(* the shipped evaluator in the same observable form: Identity(inputs[0]) = position 0 *)
Definition concat_decision_shipped (axis : Z) (ops : list (option (list dim))) : option (list nat) :=
  match concat_decision axis ops with Some [] => Some [O] | d => d end.

(* element level: a tensor of shape (outer.., a_i, inner..) is, per outer index, one block of a_i * inner elements;
   Concat appends the blocks of the operands *)
Definition block_concat {V} (outer : nat) (ops : list (list (list V))) : list (list V) :=
  map (fun o => flat_map (fun op => nth o op []) ops) (seq 0 outer).

(* ---- SqueezeReshape: Reshape(Squeeze(x), [-1]) -> Identity(x) when has_rank(x, 1) ----------------------- *)
Definition squeeze_all (cx : list Z) : list Z := filter (fun d => negb (d =? 1)) cx.
Definition sqre_check (x : option (list dim)) : bool := match x with Some [_] => true | _ => false end.

(* ---- collapse_slice_rule: constant scalar start / end / axis / step ------------------------------------- *)
Definition int64_max : Z := 9223372036854775807.
(* d = the annotated dim on the sliced axis (None: no shape / IndexError is not modelled) *)
Definition cs1_check (d : option dim) (start stop step : Z) : bool :=
  (step =? 1) && (start =? 0) &&
  ((stop =? int64_max) || match d with Some (DInt n) => n <=? stop | _ => false end).

(* ---- redundant ScatterND ---------------------------------------------------------------------------------- *)
Definition scatter_dyn_check_with (eqd : dim -> dim -> bool) (data tdata : option (list dim)) (axis : Z) : bool :=
  match data, tdata with
  | Some d, Some (t0 :: _) => match py_index d axis with Some a => eqd a t0 | None => false end
  | _, _ => false
  end.
Definition scatter_dyn_check := scatter_dyn_check_with same_dim.
Definition scatter_dyn_check_pyeq := scatter_dyn_check_with dim_ir_eqb.      (* `dim1 == dim2` instead of same_dim *)
(* ScatterAllStatic: data.shape[0] is an int n, same_shape(data, updates), indices == [[0], ..., [n-1]] *)
Definition scatter_static_check (data upd : option (list dim)) (idx : list Z) : bool :=
  match data with
  | Some (DInt n :: _) => iu_same_shape data upd && forallb2 Z.eqb idx (map Z.of_nat (seq 0 (Z.to_nat n))) && (0 <=? n)
  | _ => false
  end.
(* ScatterND with indices of shape [k,1] on the rows of a tensor: later updates win *)
Fixpoint scatter_rows {V} (rows : list V) (idx : list nat) (upd : list V) : list V :=
  match idx, upd with
  | i :: idx', u :: upd' => scatter_rows (set_nth rows i u) idx' upd'
  | _, _ => rows
  end.

(* ---- _ir_utils.broadcast_keeps_rank(value, reference): only RANKS are compared (used by the fusion rules: C19) ---------- *)
Definition bkr_check (v r : option (list dim)) : bool :=
  match v with
  | None => false
  | Some sv => Nat.leb (List.length sv) 1 ||
               match r with Some sr => Nat.leb (List.length sv) (List.length sr) | None => false end
  end.

(* ---- broadcast_to_matmul: `if any(isinstance(dim, ir.SymbolicDim) ...): return False` ---------------------- *)
Definition b2m_guard (a b : option (list dim)) : bool :=
  match a, b with Some x, Some y => all_int x && all_int y | _, _ => false end.

(* ---- SplitToSequence, scalar split s on a static axis d: sizes handed to Split ------------------------------- *)
Definition ceil_div (d s : Z) : Z := (d + s - 1) / s.
(* None = evaluator gives up; Some (inl n) = Split(num_outputs = n); Some (inr sizes) = explicit sizes *)
Definition split_scalar (d : dim) (s : Z) : option (Z + list Z) :=
  match d with
  | DInt n =>
      if s <=? 0 then None
      else let k := ceil_div n s in
           if n mod s =? 0 then Some (inl k)
           else Some (inr (repeat s (Z.to_nat (k - 1)) ++ [n - (k - 1) * s])%list)
  | _ => None
  end.

(* ---- correspondence helpers ---------------------------------------------------------------------------------- *)
Definition opt_z_eqb (a b : option Z) : bool :=
  match a, b with Some x, Some y => Z.eqb x y | None, None => true | _, _ => false end.
Definition size_case := (option (list dim) * option Z)%type.
Definition size_agrees (c : size_case) : bool := let '(x, obs) := c in opt_z_eqb (size_decision x) obs.

Definition opt_shape_eqb (a b : option (list dim)) : bool :=
  match a, b with Some x, Some y => shape_ir_eqb x y | None, None => true | _, _ => false end.
Definition merge_case := (option (list dim) * option (list dim) * option (list dim))%type.
Definition merge_agrees (c : merge_case) : bool := let '(p, o, obs) := c in opt_shape_eqb (merge_shapes p o) obs.

Definition concat_case := (Z * list (option (list dim)) * option (list nat))%type.
Definition opt_nats_eqb (a b : option (list nat)) : bool :=
  match a, b with Some x, Some y => forallb2 Nat.eqb x y | None, None => true | _, _ => false end.
Definition concat_agrees (c : concat_case) : bool := let '(ax, ops, obs) := c in opt_nats_eqb (concat_decision ax ops) obs.
(* 0 = the implementation agrees with both evaluators, 1 = only with the shipped one (refuted), 2 = only with the repaired
   one, 3 = with neither *)
Definition concat_code (c : concat_case) : nat :=
  let '(ax, ops, obs) := c in
  ((if opt_nats_eqb (concat_decision_fixed ax ops) obs then 0 else 1) + (if opt_nats_eqb (concat_decision_shipped ax ops) obs then 0 else 2))%nat.

(* (data, transposed data, axis, fired): 0 = both checks agree with the implementation, 1 = only the `==` variant
   (refuted), 2 = only same_dim, 3 = neither *)
Definition scatter_case := (option (list dim) * option (list dim) * Z * bool)%type.
Definition scatter_code (c : scatter_case) : nat :=
  let '(d, t, ax, obs) := c in
  ((if Bool.eqb (scatter_dyn_check d t ax) obs then 0 else 1) + (if Bool.eqb (scatter_dyn_check_pyeq d t ax) obs then 0 else 2))%nat.
Fixpoint code_report {A} (f : A -> nat) (i : nat) (cs : list A) : list (nat * nat) :=
  match cs with
  | [] => []
  | c :: t => (match f c with O => [] | k => [(i, k)] end) ++ code_report f (S i) t
  end.
Definition scatter_static_case := (option (list dim) * option (list dim) * list Z * bool)%type.
Definition scatter_static_agrees (c : scatter_static_case) : bool :=
  let '(d, u, idx, obs) := c in Bool.eqb (scatter_static_check d u idx) obs.

Definition cs1_case := (option dim * Z * Z * Z * bool)%type.
Definition cs1_agrees (c : cs1_case) : bool := let '(d, a, b, s, obs) := c in Bool.eqb (cs1_check d a b s) obs.

Definition sqre_case := (option (list dim) * bool)%type.
Definition sqre_agrees (c : sqre_case) : bool := let '(x, obs) := c in Bool.eqb (sqre_check x) obs.

(* the rule may fire only under the guard (the numeric part of the check is modelled under C05) *)
Definition b2m_case := (option (list dim) * option (list dim) * bool)%type.
Definition b2m_agrees (c : b2m_case) : bool := let '(a, b, fired) := c in implb fired (b2m_guard a b).

Definition split_case := (dim * Z * option (Z + list Z))%type.
Definition split_agrees (c : split_case) : bool :=
  let '(d, s, obs) := c in
  match split_scalar d s, obs with
  | None, None => true
  | Some (inl a), Some (inl b) => Z.eqb a b
  | Some (inr a), Some (inr b) => forallb2 Z.eqb a b
  | _, _ => false
  end.

Definition bkr_case := (option (list dim) * option (list dim) * bool)%type.
Definition bkr_agrees (c : bkr_case) : bool := let '(v, r, obs) := c in Bool.eqb (bkr_check v r) obs.
