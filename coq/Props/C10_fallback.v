(* C10 -- the C-API fallback path (onnxscript/version_converter/__init__.py _ConvertVersionPassRequiresInline.call,
   _c_api_utils.call_onnx_api) and onnxscript/_framework_apis/torch_2_9.py convert_version, over an ABSTRACT C-API oracle
   (`capi`: any function from the serialized, initializer-stripped model to an answer or a failure).
   Models: Version/CApi.v, Version/Fallback.v; proofs: Version/CApiProofs.v, Version/FallbackProofs.v.
   Tie: harness/c10_fallback.py runs the real pass with onnx.version_converter.convert_version replaced by stubs
   (relabelling / raising / input-renaming / initializer-adding / payload-changing) and with the real C API, and compares the
   final state with Fallback.requires_inline_call inside Coq (FallbackStd.fb_disagreeing). *)
From Coq Require Import ZArith List Bool String.
Import ListNotations.
Require Import OV.Gen.VersionTables OV.Version.Model OV.Version.Model2 OV.Version.Adapters OV.Version.Std OV.Version.CApi
               OV.Version.CApiProofs OV.Version.StdProofs OV.Version.Fallback OV.Version.FallbackStd OV.Version.FallbackProofs.
Local Open Scope Z_scope.

(* ---- FAILURE of the C API (any exception): "never half-converted".  The model part (imports, nodes, functions) is the
   very one passed in; graph inputs (names, order, types) and outputs are restored exactly; the initializer table is the same
   map with the original payloads; and the whole state is IDENTICAL (order of the table included) when no initializer is
   above the size limit.  (Order with a big initializer before a small one: C10_capi_wrapper_order_refuted, harmless.) *)
Theorem C10_fallback_failure_unchanged : forall limit (capi : state -> Z -> option state) S0 t,
  NoDup (keys (g_inits (st_sig S0))) ->
  capi (serialized S0 (seen_of limit S0)) t = None ->
  exists g', capi_branch limit capi S0 t = FDone (St (st_model S0) g') false [] /\
    g_inputs g' = g_inputs (st_sig S0) /\ g_outputs g' = g_outputs (st_sig S0) /\
    (forall k, lookup_init k (g_inits g') = lookup_init k (g_inits (st_sig S0))) /\
    (Forall (fun kv => t_size (snd kv) <= limit) (g_inits (st_sig S0)) -> St (st_model S0) g' = S0).
Proof. exact capi_failure_unchanged. Qed.
Print Assumptions C10_fallback_failure_unchanged.

(* ---- SUCCESS, for EVERY oracle that keeps the interface it was given (the inputs it returns start with the inputs it got:
   names, order and types; it may append inputs and add initializers): the graph inputs are the original ones exactly; every
   original initializer is present under its name with its ORIGINAL payload (identity, not a copy -- whatever the oracle did
   to the copy it saw); other names are the oracle's; functions stay; nodes and imports are the oracle's. *)
Theorem C10_fallback_success_frame : forall limit (capi : state -> Z -> option state) S0 t P,
  NoDup (keys (g_inits (st_sig S0))) ->
  capi (serialized S0 (seen_of limit S0)) t = Some P ->
  (exists extra, g_inputs (st_sig P) = (g_inputs (seen_of limit S0) ++ extra)%list) ->
  exists S', capi_branch limit capi S0 t = FDone S' true [] /\
    g_inputs (st_sig S') = g_inputs (st_sig S0) /\
    g_outputs (st_sig S') = g_outputs (st_sig P) /\
    (forall k, lookup_init k (g_inits (st_sig S'))
               = match lookup_init k (g_inits (st_sig S0)) with Some v => Some v | None => lookup_init k (g_inits (st_sig P)) end) /\
    m_funcs (st_model S') = m_funcs (st_model S0) /\ m_graph (st_model S') = m_graph (st_model P) /\
    m_decl (st_model S') = m_decl (st_model P) /\ m_ai (st_model S') = m_ai (st_model P).
Proof. exact capi_success_frame. Qed.
Print Assumptions C10_fallback_success_frame.

(* names, ORDER and payload identity, exactly: no initializer above the size limit and the oracle returns the table it saw
   under the same names in the same order *)
Theorem C10_fallback_success_inits_exact_small : forall limit (capi : state -> Z -> option state) S0 t P,
  NoDup (keys (g_inits (st_sig S0))) ->
  Forall (fun kv => t_size (snd kv) <= limit) (g_inits (st_sig S0)) ->
  capi (serialized S0 (seen_of limit S0)) t = Some P ->
  (exists extra, g_inputs (st_sig P) = (g_inputs (seen_of limit S0) ++ extra)%list) ->
  keys (g_inits (st_sig P)) = keys (g_inits (st_sig S0)) ->
  exists S', capi_branch limit capi S0 t = FDone S' true [] /\ g_inits (st_sig S') = g_inits (st_sig S0).
Proof. exact capi_success_inits_exact_small. Qed.
Print Assumptions C10_fallback_success_inits_exact_small.

(* exact ORDER in general: REFUTED (a big initializer in front of a small one is recovered after it); harmless for ONNX *)
Theorem C10_fallback_success_order_refuted :
  exists S', requires_inline_call true true MinDecl (std_adapt flags_fixed) supported_min supported_max big_fuel 1000 relabel_capi true w_fb_state 19
             = FDone S' true [] /\
  keys (g_inits (st_sig S')) = ["w_small"%string; "w_big"%string] /\ keys (g_inits (st_sig w_fb_state)) = ["w_big"%string; "w_small"%string].
Proof. exact fallback_success_order_refuted. Qed.
Print Assumptions C10_fallback_success_order_refuted.

(* the interface hypothesis is needed: an oracle that renames the input standing for a stripped initializer loses it *)
Theorem C10_fallback_renaming_oracle_loses_initializer :
  exists S', requires_inline_call true true MinDecl (std_adapt flags_fixed) supported_min supported_max big_fuel 1000 renaming_capi true w_fb_state 19
             = FDone S' true [] /\
  lookup_init "w_big" (g_inits (st_sig S')) = None /\ lookup_init "w_small" (g_inits (st_sig S')) = Some small.
Proof. exact fallback_renaming_oracle_loses_initializer. Qed.
Print Assumptions C10_fallback_renaming_oracle_loses_initializer.

(* after a success the declared opset matches the nodes, WHATEVER opset c the oracle declares: its answer is a deserialized
   proto, no node carries a version of its own *)
Theorem C10_fallback_success_consistent : forall limit (capi : state -> Z -> option state) S0 t P X c,
  capi (serialized S0 (seen_of limit S0)) t = Some P -> st_model P = of_proto X ->
  m_decl X = Some c -> oz_none_or (m_ai X) c = true -> m_funcs (st_model S0) = [] ->
  exists S', capi_branch limit capi S0 t = FDone S' true [] /\ state_consistent_at c S' = true.
Proof. exact capi_success_consistent. Qed.
Print Assumptions C10_fallback_success_consistent.

(* the native branch of the same pass never touches inputs, outputs or initializers, raising or not *)
Theorem C10_native_branch_frame : forall own refuse minchk adapt smin smax fuel limit (capi : state -> Z -> option state) fb S0 t r,
  oz_is (m_decl (st_model S0)) t = false -> negb fb || supported smin smax (st_model S0) t = true ->
  requires_inline_call own refuse minchk adapt smin smax fuel limit capi fb S0 t = r ->
  match r with FDone S' _ _ => st_sig S' = st_sig S0 | FRaised _ S' _ => st_sig S' = st_sig S0 end.
Proof. exact native_branch_frame. Qed.
Print Assumptions C10_native_branch_frame.

(* ---- fallback on (what torch_2_9.convert_version passes), request natively unsupported: NEVER an exception, for every
   oracle; "not modified" means the model part is the one passed in *)
Theorem C10_fallback_never_raises : forall own refuse minchk adapt smin smax fuel limit (capi : state -> Z -> option state) S0 t,
  supported smin smax (st_model S0) t = false ->
  exists S' md, requires_inline_call own refuse minchk adapt smin smax fuel limit capi true S0 t = FDone S' md [] /\
    (md = false -> st_model S' = st_model S0).
Proof. exact fallback_never_raises. Qed.
Print Assumptions C10_fallback_never_raises.

(* ---- onnxscript._framework_apis.torch_2_9.convert_version(model, t) on a request outside smin <= s <= t <= smax.
   Oracles with their assumed behaviour as hypotheses: onnx_ir's clean-up passes keep a consistent model consistent; the
   C API's answer is a proto (X) that declares one default-domain opset c.  Then the wrapper RETURNS (no exception) and the
   result is (a) the C API's answer adopted -- consistent at the opset it declares -- or (b) the inlined model as it was: same
   model part, inputs / outputs / initializer map restored, consistent at s.  Declared opset matches the nodes either way. *)
Theorem C10_torch_2_9_unsupported_returns : forall own refuse minchk adapt smin smax fuel limit
    (capi : state -> Z -> option state) (inline cleanup : state -> state) S0 s t,
  (forall v S1, state_consistent_at v S1 = true -> state_consistent_at v (cleanup S1) = true) ->
  state_consistent_at s (inline S0) = true -> m_funcs (st_model (inline S0)) = [] ->
  NoDup (keys (g_inits (st_sig (inline S0)))) ->
  (forall P, capi (serialized (inline S0) (seen_of limit (inline S0))) t = Some P ->
             exists X c, st_model P = of_proto X /\ m_decl X = Some c /\ oz_none_or (m_ai X) c = true) ->
  supported smin smax (st_model (inline S0)) t = false -> s <> t ->
  exists S' md, torch_2_9_convert own refuse minchk adapt smin smax fuel limit capi inline cleanup S0 t = FDone S' md [] /\
    ((md = true /\ exists c, state_consistent_at c S' = true) \/
     (md = false /\ state_consistent_at s S' = true /\
      exists g', S' = cleanup (St (st_model (inline S0)) g') /\
                 g_inputs g' = g_inputs (st_sig (inline S0)) /\ g_outputs g' = g_outputs (st_sig (inline S0)) /\
                 forall k, lookup_init k (g_inits g') = lookup_init k (g_inits (st_sig (inline S0))))).
Proof. exact torch_2_9_unsupported_returns. Qed.
Print Assumptions C10_torch_2_9_unsupported_returns.

(* hypotheses satisfiable / all branches on a concrete state: big initializer before a small one, limit 1000, 20 -> 19 *)
Theorem C10_fallback_example :
  let call := requires_inline_call true true MinDecl (std_adapt flags_fixed) supported_min supported_max big_fuel 1000 in
  supported supported_min supported_max w_fb_model 19 = false /\
  (exists S', call relabel_capi true w_fb_state 19 = FDone S' true [] /\
              g_inputs (st_sig S') = [("x"%string, 5)] /\ m_decl (st_model S') = Some 19 /\
              lookup_init "w_big" (g_inits (st_sig S')) = Some big /\ lookup_init "w_small" (g_inits (st_sig S')) = Some small /\
              state_consistent_at 19 S' = true) /\
  (exists g', call failing_capi true w_fb_state 19 = FDone (St w_fb_model g') false [] /\
              g_inputs g' = [("x"%string, 5)] /\ lookup_init "w_big" (g_inits g') = Some big) /\
  (exists e, call relabel_capi false w_fb_state 19 = FRaised e w_fb_state []).
Proof. exact fallback_example. Qed.
Print Assumptions C10_fallback_example.

(* ---- the whole pass ConvertVersionPass.call (inline; native or fallback; clean-up) in the variant the code is in (function
   opset read from the function: own = true; ANY variant of the QuantizeLinear and below-minimum pre-checks), any fallback
   flag: a run that returns without a logged skip leaves a model whose declared opset matches its nodes -- at the target
   (native branch / already there), at the opset the C API's answer declares (fallback, success), or at the source with the
   model part untouched (fallback, the C API failed).  Successor of C10_pass_consistent (whose pass model predates the
   repairs of the native converter). *)
Theorem C10_pass_call_consistent : forall fx refuse minchk fuel limit (capi : state -> Z -> option state) (inline cleanup : state -> state)
    fb S0 s t S' md,
  (forall v S1, state_consistent_at v S1 = true -> state_consistent_at v (cleanup S1) = true) ->
  state_consistent_at s (inline S0) = true -> m_funcs (st_model (inline S0)) = [] ->
  (forall P, capi (serialized (inline S0) (seen_of limit (inline S0))) t = Some P ->
             exists X c, st_model P = of_proto X /\ m_decl X = Some c /\ oz_none_or (m_ai X) c = true) ->
  pass_call true refuse minchk (std_adapt fx) supported_min supported_max fuel limit capi inline cleanup fb S0 t = FDone S' md [] ->
  state_consistent_at t S' = true \/
  (md = true /\ fb = true /\ supported supported_min supported_max (st_model (inline S0)) t = false /\ exists c, state_consistent_at c S' = true) \/
  (md = false /\ fb = true /\ supported supported_min supported_max (st_model (inline S0)) t = false /\ state_consistent_at s S' = true /\
   exists g', S' = cleanup (St (st_model (inline S0)) g')).
Proof.
  exact (fun fx refuse minchk fuel limit capi inline cleanup fb S0 s t S' md =>
           pass_call_consistent true refuse minchk (std_adapt fx) supported_min supported_max fuel limit capi inline cleanup
                                (std_adapt_flat fx) fb S0 s t S' md eq_refl).
Qed.
Print Assumptions C10_pass_call_consistent.
