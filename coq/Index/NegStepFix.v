(* C11 -- a smaller repair of the converter's negative-step corner (proposed_fixes/C11_converter_negative_step_two_slices.diff).
   No proofs in this file.

   The corner (known finding converter:negative-step-start-below-minus-dim): step < 0, start < -d, stop omitted or < -d -- ONNX
   Slice clamps the start to 0 and returns element 0 where Python selects nothing.  Slice clamps correctly in the POSITIVE
   direction, so when the start c and the step are negative compile-time constants (and the stop is omitted or a constant) the
   repaired converter first selects the elements between stop and start with a positive-step Slice
       X[lo : hi],   hi = c + 1 (INT64_MAX for c = -1),   lo = 0 | stop + 1 (INT64_MAX for stop = -1)
   and then walks them backwards from the last one with the defaults of a negative step (INT64_MAX, INT64_MIN, step).
   One extra Slice node, emitted only for slices with a negative constant start and a negative constant step.  A start, step or
   stop known only at run time is translated as before (that part of the corner remains). *)
From Coq Require Import ZArith List Bool.
Import ListNotations.
Require Import OV.Index.NumpySpec OV.Index.OnnxSlice OV.Index.ConverterIdx.
Open Scope Z_scope.

Definition ns_applies (a b s : bound) : bool :=
  match s, a with
  | BConst st, BConst c => (st <? 0) && (c <? 0) && match b with BDyn _ => false | _ => true end
  | _, _ => false
  end.

Definition ns_lo (b : bound) : Z := match b with BConst e => if e =? -1 then MAXI else e + 1 | _ => 0 end.
Definition ns_hi (a : bound) : Z := match a with BConst c => if c =? -1 then MAXI else c + 1 | _ => 0 end.

(* one axis: the positions selected by the two Slice ops in sequence *)
Definition conv_slice_ns (d : Z) (a b s : bound) : option (list Z) :=
  if ns_applies a b s then
    match onnx_slice d (ns_lo b) (ns_hi a) 1 with
    | None => None
    | Some l => option_map (pick_all l) (onnx_slice (zlen l) MAXI MINI (dflt 1 s))
    end
  else conv_slice d a b s.

(* ---- n axes: the op chain of the repaired converter ---- *)
Definition ns_comp (c : comp) : comp :=
  match c with CSlice a b s => if ns_applies a b s then CSlice BNone BNone s else c | _ => c end.
Definition ns_prefix (idx : list comp) : list spec :=
  flat_map (fun p => match snd p with
                     | CSlice a b s => if ns_applies a b s then [(ns_lo b, ns_hi a, fst p, 1)] else []
                     | _ => [] end) (enum_from 0 idx).
Definition conv_ops_ns (idx : list comp) : option (list op) :=
  match conv_ops true (map ns_comp idx) with
  | None => None
  | Some ops => Some (match ns_prefix idx with [] => ops | p => OSlice p :: ops end)
  end.
Definition run_conv_ns (shape : list Z) (idx : list comp) : option view :=
  match conv_ops_ns idx with None => None | Some ops => run_ops ops (full shape) end.
