"""C13 emit tie: the statements the REAL proto2python prints for straight-line models, parsed back (Python `ast`)
into an OV.Script.Syntax `func` literal, against Export/Emit.v `export_graph` applied to the same graph under the
real name mapping -- compared inside Coq (`disagreeing_emit`).

    straight_cases(rng, n_models, n_struct, n_funcs)   straight-line models / functions (generator of c13_gen + templates
                                                       aimed at the emission: omitted middle inputs, omitted and
                                                       several outputs, independent nodes, every printable attribute kind)
    observe(case, rename)                              run the real exporter, parse its text -> dict(func=<Coq literal>, ...)
    coq_case(case, rename, obs)                        Coq text of one (model, observed) pair
    is_straight(proto)                                 no control-flow / graph attributes, default domain only

Printers: harness/graphlit.py `attr_lit` is reused; nodes are printed here because the exporter's `_<index>`
placeholders depend on the *position* of an omitted output, which graphlit.node_lit drops (Emit.v keeps it as "").
"""
from __future__ import annotations

import ast
import random as _random

import numpy as np
import onnx
from onnx import TensorProto as TP
from onnx import helper as h
from onnx import numpy_helper as nh

from harness import c13_gen as G
from harness import graphlit
from harness.common import clist, cstr


class ParseError(Exception):
    """the generated source uses a form the translator does not know (fail closed)"""


class OutOfScope(Exception):
    """the case uses something the emission model leaves out (counted, not compared)"""


# ----------------------------------------------------------------------------------------------- protos -> Coq

def node_lit(n):
    ins = clist(n.input, lambda x: "None" if x == "" else f"(Some {cstr(x)})")
    outs = clist(list(n.output), cstr)  # omitted outputs stay as "" (position matters)
    attrs, subs = [], []
    for a in n.attribute:
        kind, txt = graphlit.attr_lit(a)
        if kind == "attr":
            attrs.append(f"({cstr(a.name)}, {txt})")
        elif kind == "graph":
            subs.append(f"({cstr(a.name)}, {txt})")
        else:
            for i, g in enumerate(txt):
                subs.append(f"({cstr(a.name + '#' + str(i))}, {g})")
    return f"(Node {cstr(n.domain if n.domain != 'ai.onnx' else '')} {cstr(n.op_type)} {ins} {outs} {clist(attrs)} {clist(subs)})"


PH = "\x01"  # first character of the pseudo names of Export/Placeholders.v (`ph_name i` = \001 ++ "_<i>")


def ph_pseudo(i):
    return f"{PH}_{i}"


def cname(x):
    """Coq term of a name of the mapper's sequence (a pseudo name of the reserved-placeholder variant is printed as `ph_name i`)"""
    return f"(ph_name {int(x[2:])})" if x.startswith(PH) else cstr(x)


def ph_reserved():
    from harness import c13_variants
    return c13_variants.detect()["ph_reserved"]


def outputs_with_placeholders(n):
    """the outputs of a node as the exporter hands them to its name pool: in the reserved-placeholder variant an omitted
    output of a generic node is the pseudo name of its index"""
    if not ph_reserved() or n.op_type in ("If", "Loop"):
        return [o for o in n.output if o != ""]
    return [o if o != "" else ph_pseudo(i) for i, o in enumerate(n.output)]


def graph_lit(proto):
    lit = _graph_lit(proto)
    return f"(ph_graph {lit})" if ph_reserved() else lit


def _graph_lit(proto):
    if isinstance(proto, onnx.ModelProto):
        g = proto.graph
        ins, inits, outs = [i.name for i in g.input], [i.name for i in g.initializer], [o.name for o in g.output]
        nodes = g.node
    else:
        ins, inits, outs, nodes = list(proto.input), [], list(proto.output), proto.node
    return f"(Graph {clist(ins, cstr)} {clist(inits, cstr)} {clist([node_lit(n) for n in nodes])} {clist(outs, cstr)})"


def _tensor_attr_lit(t):
    return graphlit.attr_lit(h.make_attribute("value", t))[1]


def ivals_lit(proto):
    if not isinstance(proto, onnx.ModelProto):
        return "[]"
    return clist([f"({cstr(i.name)}, {_tensor_attr_lit(i)})" for i in proto.graph.initializer])


def is_straight(proto):
    nodes = proto.graph.node if isinstance(proto, onnx.ModelProto) else proto.node
    for n in nodes:
        if n.op_type in ("If", "Loop", "Scan") or n.domain not in ("", "ai.onnx"):
            return False
        for a in n.attribute:
            if a.type in (onnx.AttributeProto.GRAPH, onnx.AttributeProto.GRAPHS):
                return False
    if isinstance(proto, onnx.ModelProto):
        return not proto.functions and not proto.graph.sparse_initializer
    return not proto.attribute and not proto.attribute_proto


# ----------------------------------------------------------------------------------------------- source -> Coq

_ATTR_ENV = {"make_tensor": h.make_tensor, "np": np, "__builtins__": {}}
_ALLOWED_IN_ATTR = (ast.Expression, ast.Constant, ast.List, ast.UnaryOp, ast.USub, ast.Call, ast.Name, ast.Attribute,
                    ast.keyword, ast.Load)


def _attr_value_lit(key, node):
    """the Python expression printed after `key=`: evaluated (only constants, lists, make_tensor, np.nan/np.inf),
    re-encoded as an ONNX attribute the way onnx.helper infers it, printed with graphlit.attr_lit"""
    if isinstance(node, ast.Name):
        return f"(KName {cstr(node.id)})"
    for sub in ast.walk(node):
        if not isinstance(sub, _ALLOWED_IN_ATTR):
            raise ParseError(f"attribute {key}: unexpected syntax {type(sub).__name__}")
        if isinstance(sub, ast.Name) and sub.id not in ("make_tensor", "np"):
            raise ParseError(f"attribute {key}: unexpected name {sub.id}")
    try:
        value = eval(compile(ast.Expression(node), "<attr>", "eval"), dict(_ATTR_ENV))  # noqa: S307 -- whitelisted syntax only
    except Exception as e:  # noqa: BLE001
        raise ParseError(f"attribute {key}: {type(e).__name__}: {e}") from e
    if isinstance(value, list) and not value:
        raise OutOfScope("empty list attribute (its type is not inferable from the text)")
    try:
        a = h.make_attribute(key, value)
    except Exception as e:  # noqa: BLE001
        raise ParseError(f"attribute {key}={value!r}: {type(e).__name__}: {e}") from e
    kind, txt = graphlit.attr_lit(a)
    if kind != "attr":
        raise ParseError(f"attribute {key}: graph value")
    return f"(KLit {txt})"


def _call_lit(call, opset_names):
    if not isinstance(call, ast.Call):
        raise ParseError(f"right-hand side is {type(call).__name__}, not a call")
    f = call.func
    if not (isinstance(f, ast.Attribute) and isinstance(f.value, ast.Name)):
        raise ParseError("callee is not <opset>.<Op>")
    if f.value.id not in opset_names:
        raise OutOfScope(f"callee opset {f.value.id}")
    args = []
    for a in call.args:
        if isinstance(a, ast.Name):
            args.append(f"(Some (EVar {cstr(a.id)}))")
        elif isinstance(a, ast.Constant) and a.value is None:
            args.append("None")
        else:
            raise ParseError(f"argument {ast.dump(a)[:60]}")
    kws = []
    for k in call.keywords:
        if k.arg is None:
            raise ParseError("**kwargs")
        kws.append(f"({cstr(k.arg)}, {_attr_value_lit(k.arg, k.value)})")
    return f"(ECall (COp {cstr(f.attr)}) {clist(args)} {clist(kws)})"


def _name_of(t):
    if not isinstance(t, ast.Name):
        raise ParseError(f"assignment target {type(t).__name__}")
    return t.id


def parse_program(code):
    """-> (Coq `func` literal, number of statements).  The last module-level def is the model's / function's."""
    tree = ast.parse(code)
    defs = [s for s in tree.body if isinstance(s, ast.FunctionDef)]
    if len(defs) != 1:
        raise ParseError(f"{len(defs)} function definitions at module level")
    # the opset objects of the default domain: `from onnxscript.onnx_opset import opset<N>`
    opset_names = set()
    for s in tree.body:
        if isinstance(s, ast.ImportFrom) and s.module == "onnxscript.onnx_opset":
            opset_names.update(a.asname or a.name for a in s.names)
    fd = defs[0]
    a = fd.args
    if a.vararg or a.kwarg or a.kwonlyargs or a.posonlyargs or a.defaults:
        raise ParseError("signature with defaults / varargs")
    params = [x.arg for x in a.args]
    body = list(fd.body)
    if body and isinstance(body[0], ast.Expr) and isinstance(body[0].value, ast.Constant) and isinstance(body[0].value.value, str):
        body = body[1:]  # doc string
    stmts = []
    for s in body:
        if isinstance(s, ast.Assign):
            if len(s.targets) != 1:
                raise ParseError("chained assignment")
            t = s.targets[0]
            call = _call_lit(s.value, opset_names)
            if isinstance(t, ast.Tuple):
                stmts.append(f"(STuple {clist([_name_of(e) for e in t.elts], cstr)} {call})")
            else:
                stmts.append(f"(SAssign {cstr(_name_of(t))} {call})")
        elif isinstance(s, ast.Return):
            v = s.value
            if v is None:
                es = []
            elif isinstance(v, ast.Tuple):
                es = [f"(EVar {cstr(_name_of(e))})" for e in v.elts]
            else:
                es = [f"(EVar {cstr(_name_of(v))})"]
            stmts.append(f"(SReturn {clist(es)})")
        else:
            raise ParseError(f"statement {type(s).__name__}")
    lit = (f"{{| f_name := {cstr(fd.name)}; f_tparams := {clist(params, cstr)}; f_aparams := []; "
           f"f_body := {clist(stmts)} |}}")
    return lit, len(stmts)


# ----------------------------------------------------------------------------------------------- one case

def renamer_sequence(proto):
    """rename=True: the names in the order in which the exporter first hands them to its short-name mapper.
    FunctionProto: `_translate_function` renames the *set* of used names first (its iteration order is taken from the
    real helper); ModelProto: per node the outputs, then the inputs; then the graph outputs (initializers: not covered)."""
    if isinstance(proto, onnx.FunctionProto):
        from onnxscript.backend import onnx_export as E
        seq = [x for x in E._names_used_in_function(proto) if x != ""]
        for n in proto.node:  # every value is named before the body is printed; the placeholders are reserved while it is
            seq.extend(o for o in outputs_with_placeholders(n) if o.startswith(PH) and o not in seq)
        return seq
    from harness import c13_variants
    seq = []
    if c13_variants.detect()["init_raw_key"]:  # C13_02: the Constant of an initializer keeps its ONNX name, translated once, first
        seq.extend(i.name for i in proto.graph.initializer)
    for n in proto.graph.node:
        seq.extend(outputs_with_placeholders(n))
        seq.extend(i for i in n.input if i != "")
    seq.extend(o.name for o in proto.graph.output)
    if c13_variants.detect()["sig_renamed"]:  # C13_01: the signature is renamed too, after the body and the return values
        seq.extend(i.name for i in proto.graph.input)
    out, seen = [], set()
    for x in seq:
        if x not in seen:
            seen.add(x)
            out.append(x)
    return out


def names_collide(proto):
    from onnxscript.backend import onnx_export as E
    names = G.all_names(proto)
    if ph_reserved() and any(__import__("re").fullmatch(r"_\d+(_\d+)*", E._cleanup_variable_name(n)) for n in names):
        return True  # a value whose Python name looks like a placeholder: the pool decides who gets which name
    return len({E._cleanup_variable_name(n) for n in names}) != len(set(names))


def init_collision_guard(proto):
    """the emission models translate an initializer's name twice (as the source did before C13_02); that equals translating it
    once unless the Python name of an initializer is itself another ONNX name of the model: such models are left out"""
    if not isinstance(proto, onnx.ModelProto) or not proto.graph.initializer:
        return
    from onnxscript.backend import onnx_export as E
    names = G.all_names(proto)
    clean = {}
    for n in names:
        clean.setdefault(E._cleanup_variable_name(n), []).append(n)
    for i in proto.graph.initializer:
        if len(clean.get(E._cleanup_variable_name(i.name), [])) > 1 or (E._cleanup_variable_name(i.name) != i.name and E._cleanup_variable_name(i.name) in names):
            raise OutOfScope("an initializer's name collides after clean-up with another name (twice-translated in the model)")


def rename_term(proto, rename, seq, prelude=None, tag="0"):
    """Coq term of the exporter's renamer for this proto: the clean-up or the short names, wrapped by the unique-name mapper
    (Export/Unique.v, repair C13_07) when the implementation has it and the names of the model collide after clean-up
    (without collisions the wrapper is the identity on the base names)"""
    from harness import c13_variants
    real = [x for x in seq if not x.startswith(PH)]  # the short-name mapper never sees a placeholder
    wrap = (lambda b: f"(ph_base {b})") if ph_reserved() else (lambda b: b)
    if prelude is None:  # no place for definitions: inline terms (re-evaluated at every call inside Coq; small inputs only)
        base = wrap(f"(short_map kwlist {clist(real, cstr)})" if rename else "(cleanup kwlist)")
        if c13_variants.detect()["unique_names"] and names_collide(proto):
            return f"(uniq_fn {base} {clist(seq, cname)})"
        return base
    base = "(cleanup kwlist)"
    if rename:  # the dictionaries are evaluated once, when the definition is made
        prelude.append(f"Definition sr{tag} : list string := {clist(real, cstr)}.")
        prelude.append(f"Definition sm{tag} := Eval vm_compute in (combine sr{tag} (snd (short_rename_all kwlist [] sr{tag}))).")
        base = f"(assoc_rename sm{tag} (cleanup kwlist))"
    base = wrap(base)
    if c13_variants.detect()["unique_names"] and names_collide(proto):
        prelude.append(f"Definition sq{tag} : list string := {clist(seq, cname)}.")
        prelude.append(f"Definition um{tag} := Eval vm_compute in (uniq_map {base} sq{tag}).")
        return f"(uniq_apply um{tag} {base})"
    return base


def observe(case, rename):
    """run the real exporter on the case and parse what it printed"""
    import onnxscript
    proto = case["proto"]
    from harness import c13_variants
    vr = c13_variants.detect()
    if rename and isinstance(proto, onnx.ModelProto) and proto.graph.initializer and not (vr["init_raw_key"] and vr["sig_renamed"]):
        raise OutOfScope("rename=True on a model with initializers (the twice-renamed Constant needs the mapper's state)")
    init_collision_guard(proto)
    code = onnxscript.proto2python(proto, rename=rename)
    lit, nst = parse_program(code)
    return {"func": lit, "code": code, "statements": nst}


def coq_terms(case, rename, prelude=None, tag="0"):
    """-> (prename, rename, fname, ivals, graph) Coq terms of the model side"""
    proto = case["proto"]
    is_model = isinstance(proto, onnx.ModelProto)
    raw_name = proto.graph.name if is_model else proto.name
    clean = "(cleanup kwlist)"
    from harness import c13_variants
    ren = rename_term(proto, rename, renamer_sequence(proto), prelude, tag)
    pre = clean if (is_model and not c13_variants.detect()["sig_renamed"]) else ren
    return pre, ren, f"(cleanup kwlist {cstr(raw_name)})", ivals_lit(proto), graph_lit(proto)


def coq_body(items):
    """items: list of (case, rename, obs).  One Coq file: indices of disagreeing cases, then emit_okb of every case."""
    lines = []
    for k, (case, rename, obs) in enumerate(items):
        pre, ren, fname, iv, g = coq_terms(case, rename, lines, str(k))
        lines.append(f"Definition g{k} : graph := {g}.")
        lines.append(f"Definition iv{k} : list (vname * attrv) := {iv}.")
        lines.append(f"Definition m{k} : option func := export_graph kwlist {pre} {ren} {fname} iv{k} g{k}.")
        lines.append(f"Definition o{k} : func := {obs['func']}.")
        lines.append(f"Definition h{k} : bool := emit_okb kwlist {pre} {ren} iv{k} g{k}.")
        lines.append(f"Definition j{k} : bool := rename_injb {ren} g{k} && placeholders_freeb {ren} g{k}.")
    n = len(items)
    lines.append(f"Eval vm_compute in (disagreeing_emit 0 {clist([f'(m{k}, o{k})' for k in range(n)])}).")
    lines.append(f"Eval vm_compute in {clist([f'h{k}' for k in range(n)])}.")
    lines.append(f"Eval vm_compute in {clist([f'j{k}' for k in range(n)])}.")
    return "\n".join(lines)


REQUIRES = ["OV.Gen.ExportTables", "OV.Export.Cleanup", "OV.Export.Unique", "OV.Graph.Syntax", "OV.Script.Syntax", "OV.Export.Emit", "OV.Export.Placeholders"]


# ----------------------------------------------------------------------------------------------- generator

SHAPE = [2, 4]


class _Struct:
    """straight-line models built from templates aimed at the statement emission"""

    def __init__(self, rng):
        self.rng = rng
        self.names = G.Names(rng, rng.choice(["plain", "dirty", "dirty", "collide"]))
        self.nodes = []
        self.inits = []
        self.extra_outputs = []

    def fresh(self, hint="t"):
        return self.names.fresh(hint)

    def node(self, op, ins, outs, **attrs):
        n = h.make_node(op, ins, outs, **attrs)
        if len(n.attribute) > 1 and self.rng.random() < 0.5:  # make_node sorts its keyword arguments; the order in a proto is free
            al = list(n.attribute)
            self.rng.shuffle(al)
            del n.attribute[:]
            n.attribute.extend(al)
        if self.rng.random() < 0.15:
            n.name = f"n{len(self.nodes)}"
        self.nodes.append(n)

    def const(self, value, hint="c"):
        name = self.fresh(hint)
        value = np.asarray(value)
        if self.rng.random() < 0.35:
            self.inits.append(nh.from_array(value, name))
        else:
            self.node("Constant", [], [name], value=nh.from_array(value, self.rng.choice(["value", name])))
        return name

    # every template maps a float [2, 4] value to a float [2, 4] value
    def t_dropout(self, cur):
        r = self.rng
        out = self.fresh("d")
        ins = [cur]
        form = r.choice(["plain", "mid", "both"])
        if form == "mid":  # omitted middle input
            ins = [cur, "", self.const(np.array(False), "tm")]
        elif form == "both":
            ins = [cur, self.const(np.array(0.5, dtype=np.float32), "ratio"), self.const(np.array(False), "tm")]
        outs = [out, r.choice(["", self.fresh("mask")])]
        if outs[1] == "" and r.random() < 0.5:
            outs = [out]
        self.node("Dropout", ins, outs, **({"seed": r.randint(0, 9)} if r.random() < 0.5 else {}))
        return out

    def t_clip(self, cur):
        out = self.fresh("cl")
        lo = self.const(np.array(-1.0, dtype=np.float32), "lo") if self.rng.random() < 0.5 else ""
        hi = self.const(np.array(2.0, dtype=np.float32), "hi") if (self.rng.random() < 0.7 or lo == "") else ""
        ins = [cur, lo, hi]
        if self.rng.random() < 0.5:
            while ins and ins[-1] == "":
                ins.pop()
        self.node("Clip", ins, [out])
        return out

    def t_split(self, cur):
        a, b, out = self.fresh("lft"), self.fresh("rgt"), self.fresh("cat")
        if self.rng.random() < 0.5:
            self.node("Split", [cur], [a, b], axis=1, num_outputs=2)
        else:
            self.node("Split", [cur, self.const(np.array([1, 3], dtype=np.int64), "sp")], [a, b], axis=-1)
        self.node("Concat", [b, a], [out], axis=1)
        return out

    def t_slice(self, cur):
        out = self.fresh("sl")
        st = self.const(np.array([0, 0], dtype=np.int64), "st")
        en = self.const(np.array([2, 4], dtype=np.int64), "en")
        steps = self.const(np.array([1, 1], dtype=np.int64), "step")
        self.node("Slice", [cur, st, en, "", steps], [out])  # omitted `axes` between present inputs
        return out

    def t_layernorm(self, cur):
        y = self.fresh("ln")
        scale = self.const(np.ones(4, dtype=np.float32), "scale")
        form = self.rng.choice(["y", "y_inv", "all", "y_mean"])
        outs = {"y": [y], "y_inv": [y, "", self.fresh("inv")], "all": [y, self.fresh("mean"), self.fresh("inv")],
                "y_mean": [y, self.fresh("mean")]}[form]
        ins = [cur, scale] if self.rng.random() < 0.5 else [cur, scale, self.const(np.zeros(4, dtype=np.float32), "bias")]
        self.node("LayerNormalization", ins, outs, axis=-1, epsilon=1e-5)
        return y

    def t_unique(self, cur):
        flat, u, cnt = self.fresh("flat"), self.fresh("u"), self.fresh("cnt")
        self.node("Flatten", [cur], [flat], axis=0)
        form = self.rng.choice(["cnt", "inv", "all"])
        outs = {"cnt": [u, "", "", cnt], "inv": [u, "", self.fresh("inv")], "all": [u, self.fresh("idx"), self.fresh("inv"), cnt]}[form]
        self.node("Unique", [flat], outs, sorted=1)
        return cur

    def t_topk(self, cur):
        v, i = self.fresh("val"), self.fresh("idx")
        self.node("TopK", [cur, self.const(np.array([4], dtype=np.int64), "k")], [v, i], axis=-1, largest=1)
        if self.rng.random() < 0.5:
            self.extra_outputs.append((i, TP.INT64, SHAPE))
        return v

    def t_independent(self, cur):
        a, b, out = self.fresh("na"), self.fresh("ab"), self.fresh("df")
        self.node("Neg", [cur], [a])
        self.node("Abs", [cur], [b])
        self.node(self.rng.choice(["Sub", "Div", "Add"]), [a, b], [out])
        return out

    def t_attrs(self, cur):
        r = self.rng
        out = self.fresh("at")
        k = r.choice(["selu", "transpose", "softmax", "cast", "reduce", "gemm", "pad", "tensor", "strings", "ints", "hardmax", "floats"])
        if k == "selu":
            self.node("Selu", [cur], [out], alpha=r.choice([1.5, 0.1, 1e-7, 3.0e10]), gamma=r.choice([1.0, -2.0, 0.3]))
        elif k == "transpose":
            mid = self.fresh("tr")
            self.node("Transpose", [cur], [mid], perm=[1, 0])
            self.node("Transpose", [mid], [out], perm=[1, 0])
        elif k == "softmax":
            self.node("Softmax", [cur], [out], axis=r.choice([-1, 0, 1]))
        elif k == "cast":
            mid = self.fresh("i")
            self.node("Cast", [cur], [mid], to=r.choice([TP.DOUBLE, TP.FLOAT16, TP.INT32]), **({"saturate": 1} if r.random() < 0.3 else {}))
            self.node("Cast", [mid], [out], to=TP.FLOAT)
        elif k == "reduce":
            s = self.fresh("sum")
            self.node("ReduceSum", [cur], [s], keepdims=1, noop_with_empty_axes=0)
            self.node("Add", [cur, s], [out])
        elif k == "gemm":
            w = self.const(np.eye(4, dtype=np.float32), "w")
            self.node("Gemm", [cur, w], [out], alpha=0.5, beta=2.0, transB=r.choice([0, 1]))
        elif k == "pad":
            p = self.fresh("pad")
            self.node("Pad", [cur, self.const(np.array([0, 1, 0, 1], dtype=np.int64), "pads")], [p], mode=r.choice(["constant", "reflect", "edge"]))
            self.node("Slice", [p, self.const(np.array([1], dtype=np.int64), "s0"), self.const(np.array([5], dtype=np.int64), "s1"),
                                self.const(np.array([1], dtype=np.int64), "ax")], [out])
        elif k == "tensor":
            val = r.choice([np.array([[1.0, float("nan"), float("inf"), -0.0]], dtype=np.float32), np.array(3.5, dtype=np.float32),
                            np.array([1, -2, 3, 4], dtype=np.int64), np.array([[1], [0]], dtype=np.int8), np.array(float("-inf"), dtype=np.float32),
                            np.array([1.5, 2.5, 1e-30, 4.0], dtype=np.float64), np.array([True, False, True, True])])
            c = self.fresh("tc")
            self.node("Constant", [], [c], value=nh.from_array(val, r.choice(["value", c, "t"])))
            if val.dtype == np.float32 and np.all(np.isfinite(val)):
                self.node("Add", [cur, c], [out])
            else:
                self.node("Identity", [cur], [out])
        elif k == "strings":
            c = self.fresh("sc")
            if r.random() < 0.5:
                self.node("Constant", [], [c], value_string=r.choice(["a'b", 'say "hi"', "x\\y", "plain", ""]))
            else:
                self.node("Constant", [], [c], value_strings=[r.choice(["a", "b'c", "d e"]), "z"])
            self.node("Identity", [cur], [out])
        elif k == "ints":
            c = self.fresh("ic")
            self.node("Constant", [], [c], value_ints=[r.randint(-3, 3) for _ in range(r.randint(1, 4))])
            self.node("Identity", [cur], [out])
        elif k == "floats":
            c = self.fresh("fc")
            self.node("Constant", [], [c], value_floats=[r.choice([0.1, 1.0, -2.5, 1e-3]) for _ in range(4)])
            self.node("Mul", [cur, c], [out])
        else:
            self.node("Hardmax", [cur], [out], axis=-1)
        return out

    TEMPLATES = ["t_dropout", "t_clip", "t_split", "t_slice", "t_layernorm", "t_unique", "t_topk", "t_independent", "t_attrs", "t_attrs"]

    def build(self, k):
        r = self.rng
        ins = [self.fresh(r.choice(["x", "input", "a"])) for _ in range(r.choice([1, 1, 2]))]
        cur = ins[0]
        if len(ins) == 2:
            cur = self.fresh("s")
            self.node("Add", ins, [cur])
        used = []
        for _ in range(k):
            t = r.choice(self.TEMPLATES)
            used.append(t)
            cur = getattr(self, t)(cur)
        if cur in ins:
            o = self.fresh("y")
            self.node("Identity", [cur], [o])
            cur = o
        outs = [h.make_tensor_value_info(cur, TP.FLOAT, SHAPE)] + [h.make_tensor_value_info(n, et, sh) for n, et, sh in self.extra_outputs]
        g = h.make_graph(self.nodes, r.choice(["g", "main_graph", "torch-jit-export", "model.1"]),
                         [h.make_tensor_value_info(n, TP.FLOAT, SHAPE) for n in ins], outs, initializer=self.inits)
        if r.random() < 0.2:
            g.doc_string = "emit case"
        m = h.make_model(g, opset_imports=[h.make_opsetid("", G.OPSET)], ir_version=9)
        feeds = []
        for j in range(3):
            feeds.append({n: (np.array([r.choice([-2.0, -1.0, -0.5, 0.0, 0.5, 1.0, 2.0, 3.0]) for _ in range(8)], dtype=np.float32).reshape(SHAPE)
                              * np.float32([1.0, 4.0, 0.25][j])) for n in ins})
        return m, feeds, used


def struct_cases(rng, count):
    cases, rejected, attempts = [], 0, 0
    while len(cases) < count and attempts < count * 6:
        attempts += 1
        sub = _random.Random(rng.getrandbits(64))
        try:
            m, feeds, used = _Struct(sub).build(sub.randint(1, 4))
            onnx.checker.check_model(m, full_check=True)
        except Exception:  # noqa: BLE001  -- counted
            rejected += 1
            continue
        cases.append({"id": f"emit{len(cases)}:" + "+".join(t[2:] for t in used), "kind": "model", "origin": "emit-templates", "profile": "emit",
                      "proto": m, "feeds": feeds, "large_inits": [], "templates": used})
    return cases, rejected


def straight_cases(rng, n_models, n_struct, n_funcs):
    """-> (cases, rejected)"""
    models, r1 = G.random_models(rng, n_models, profiles=["straight", "scollide", "straight"])
    structs, r2 = struct_cases(rng, n_struct)
    funcs, r3 = G.random_functions(rng, n_funcs, profile="sfn")
    # the same template models as FunctionProtos (no initializers there: only models without any)
    for c in list(structs):
        g = c["proto"].graph
        if g.initializer or len(funcs) >= 2 * n_funcs:
            continue
        fp = h.make_function("this", rng.choice(["f", "fn.1", "Block"]), [i.name for i in g.input], [o.name for o in g.output], list(g.node),
                             opset_imports=[h.make_opsetid("", G.OPSET)])
        funcs.append({"id": c["id"] + ":as-function", "kind": "function", "origin": "emit-templates", "profile": "emit", "proto": fp,
                      "feeds": c["feeds"], "iface": (list(g.input), list(g.output))})
    return corpus_cases() + models + structs + funcs, r1 + r2 + r3


# ----------------------------------------------------------------------------------------------- fixed feature corpus

CORPUS = "/verif/corpus/C13/emit_features.json"


def _feature_models():
    """hand-made straight-line models, one emission feature each (serialised once into corpus/C13 by write_corpus)"""
    f32 = lambda v: nh.from_array(np.asarray(v, dtype=np.float32), "value")  # noqa: E731
    i64 = lambda v: nh.from_array(np.asarray(v, dtype=np.int64), "value")  # noqa: E731

    def mk(name, nodes, ins=("x",), outs=("y",), inits=(), out_types=None, out_shapes=None):
        g = h.make_graph(nodes, "g", [h.make_tensor_value_info(n, TP.FLOAT, SHAPE) for n in ins],
                         [h.make_tensor_value_info(n, (out_types or {}).get(n, TP.FLOAT), (out_shapes or {}).get(n, SHAPE)) for n in outs],
                         initializer=list(inits))
        return name, h.make_model(g, opset_imports=[h.make_opsetid("", G.OPSET)], ir_version=9)

    N = h.make_node

    def unsorted(n):  # make_node sorts its keyword arguments; put the attributes in descending order
        al = sorted(n.attribute, key=lambda a: a.name, reverse=True)
        del n.attribute[:]
        n.attribute.extend(al)
        return n

    yield mk("omitted-middle-input:clip", [N("Constant", [], ["hi"], value=f32(2.0)), N("Clip", ["x", "", "hi"], ["y"])])
    yield mk("omitted-trailing-inputs:clip", [N("Clip", ["x", "", ""], ["y"])])
    yield mk("omitted-middle-input:slice",
             [N("Constant", [], ["st"], value=i64([0, 1])), N("Constant", [], ["en"], value=i64([2, 3])), N("Constant", [], ["sp"], value=i64([1, 1])),
              N("Slice", ["x", "st", "en", "", "sp"], ["y"])], out_shapes={"y": [2, 2]})
    yield mk("omitted-middle-input+omitted-output:dropout",
             [N("Constant", [], ["tm"], value=nh.from_array(np.array(False), "value")), N("Dropout", ["x", "", "tm"], ["y", ""], seed=3)])
    yield mk("two-outputs-order:split", [N("Split", ["x"], ["a", "b"], axis=1, num_outputs=2), N("Concat", ["b", "a"], ["y"], axis=1)])
    yield mk("two-outputs-both-returned:topk", [N("Constant", [], ["k"], value=i64([2])), N("TopK", ["x", "k"], ["y", "i"], axis=-1)],
             outs=("y", "i"), out_types={"i": TP.INT64}, out_shapes={"y": [2, 2], "i": [2, 2]})
    yield mk("omitted-middle-outputs:unique", [N("Flatten", ["x"], ["f"], axis=0), N("Unique", ["f"], ["u", "", "", "cnt"], sorted=1), N("Identity", ["x"], ["y"])],
             outs=("y", "cnt"), out_types={"cnt": TP.INT64}, out_shapes={"cnt": ["n"]})
    yield mk("omitted-middle-output:layernorm",
             [N("LayerNormalization", ["x", "sc"], ["y", "", "inv"], axis=-1, epsilon=1e-5)], outs=("y", "inv"), out_shapes={"inv": [2, 1]}, inits=[nh.from_array(np.ones(4, dtype=np.float32), "sc")])
    yield mk("independent-nodes:order", [N("Neg", ["x"], ["a"]), N("Abs", ["x"], ["b"]), N("Sub", ["a", "b"], ["y"])])
    yield mk("non-commutative-argument-order", [N("Abs", ["x"], ["a"]), N("Neg", ["x"], ["b"]), N("Div", ["b", "a"], ["c"]), N("Sub", ["c", "x"], ["y"])])
    yield mk("dirty-names", [N("Neg", ["layer.0/x:1"], ["if"]), N("Abs", ["if"], ["9"]), N("Add", ["9", "layer.0/x:1"], ["out put"])],
             ins=("layer.0/x:1",), outs=("out put",))
    yield mk("triple-underscore-names", [N("Neg", ["x"], ["/a"]), N("Abs", ["/a"], ["a___b"]), N("Add", ["/a", "a___b"], ["y"])])
    yield mk("collision:a.b|a_b", [N("Neg", ["x"], ["a.b"]), N("Abs", ["x"], ["a_b"]), N("Sub", ["a.b", "a_b"], ["y"])])
    yield mk("placeholder-collision:_1", [N("Neg", ["x"], ["_1"]), N("Dropout", ["x"], ["d", ""]), N("Add", ["_1", "d"], ["y"])])
    yield mk("initializers", [N("Mul", ["x", "w.0"], ["t"]), N("Add", ["t", "b"], ["y"])],
             inits=[nh.from_array(np.arange(8, dtype=np.float32).reshape(SHAPE), "w.0"), nh.from_array(np.float32(0.5).reshape(()), "b")])
    yield mk("attributes:float-int-order", [unsorted(N("Gemm", ["x", "w"], ["y"], transB=1, beta=2.0, alpha=0.5))], inits=[nh.from_array(np.eye(4, dtype=np.float32), "w")])
    yield mk("attributes:integral-floats", [N("Selu", ["x"], ["a"], alpha=2.0, gamma=1.0), N("LeakyRelu", ["a"], ["b"], alpha=3.0),
                                           N("Constant", [], ["c"], value_floats=[1.0, 2.0, 0.5]), N("Constant", [], ["s"], value_float=4.0),
                                           N("Mul", ["b", "s"], ["y"])])
    yield mk("attributes:strings", [N("Constant", [], ["s"], value_string="it's \"q\" \\ z"), N("Constant", [], ["ss"], value_strings=["a", "b'c"]),
                                    N("Constant", [], ["pads"], value_ints=[0, 1, 0, 1]), N("Pad", ["x", "pads"], ["p"], mode="edge"),
                                    N("Constant", [], ["s0"], value=i64([1])), N("Constant", [], ["s1"], value=i64([5])), N("Constant", [], ["ax"], value=i64([1])),
                                    N("Slice", ["p", "s0", "s1", "ax"], ["y"])])
    yield mk("attributes:tensors", [N("Constant", [], ["c1"], value=f32([[1.0, float("nan"), float("inf"), -0.0]])),
                                    N("Constant", [], ["c2"], value=nh.from_array(np.array([[1], [0]], dtype=np.int8), "t")),
                                    N("Constant", [], ["c3"], value=f32(float("-inf"))), N("Constant", [], ["c4"], value=nh.from_array(np.array([True, False]), "c4")),
                                    N("Constant", [], ["c5"], value=nh.from_array(np.array([1.5, 1e-30], dtype=np.float64), "value")),
                                    N("Constant", [], ["c6"], value=f32(3.5)), N("Add", ["x", "c6"], ["y"])])
    yield mk("identity-chain", [N("Identity", ["x"], ["a"]), N("Identity", ["a"], ["y"])])
    yield mk("node-names-and-docstring", [h.make_node("Neg", ["x"], ["a"], name="first"), h.make_node("Abs", ["a"], ["y"], name="second # not a comment")])


def write_corpus():
    import base64
    import json
    import os
    rows = []
    for name, m in _feature_models():
        onnx.checker.check_model(m, full_check=True)
        rows.append({"id": name, "proto_b64": base64.b64encode(m.SerializeToString()).decode()})
    os.makedirs(os.path.dirname(CORPUS), exist_ok=True)
    with open(CORPUS, "w") as f:
        json.dump({"what": "fixed straight-line feature models for the emission tie of C13 (built by harness/c13_emit.py write_corpus)", "cases": rows}, f, indent=1)
    return len(rows)


def corpus_cases():
    import base64
    import json
    out = []
    for row in json.load(open(CORPUS))["cases"]:
        m = onnx.ModelProto()
        m.ParseFromString(base64.b64decode(row["proto_b64"]))
        r = _random.Random(len(row["id"]))
        feeds = [{i.name: (np.array([r.choice([-2.0, -1.0, -0.5, 0.0, 0.5, 1.0, 2.0, 3.0]) for _ in range(8)], dtype=np.float32).reshape(SHAPE)
                           * np.float32([1.0, 4.0, 0.25][j])) for i in m.graph.input} for j in range(3)]
        case = {"id": "corpus:" + row["id"], "kind": "model", "origin": "emit-templates", "profile": "emit-corpus", "proto": m, "feeds": feeds,
                "large_inits": [], "templates": [row["id"].split(":")[0]]}
        out.append(case)
        g = m.graph
        if not g.initializer:
            fp = h.make_function("this", "f", [i.name for i in g.input], [o.name for o in g.output], list(g.node), opset_imports=[h.make_opsetid("", G.OPSET)])
            out.append({"id": case["id"] + ":as-function", "kind": "function", "origin": "emit-corpus", "profile": "emit-corpus", "proto": fp,
                        "feeds": feeds, "iface": (list(g.input), list(g.output)), "templates": case["templates"]})
    return out
