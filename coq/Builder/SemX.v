(* C18-private extension of the shared evaluator OV.Graph.Sem: ONNX Loop WITH scan outputs and ONNX Scan
   interpreted structurally, next to If and the ordinary operators.  (OV.Graph.Sem interprets only If and Loop
   without scan outputs; it is shared and not edited here.  SemXProofs.eval_graph_x_conservative: on graphs without
   Scan nodes whose Loop nodes declare no scan output the two evaluators are the same function.)

   Two more abstract kernels: `stack` (the per-iteration values of a scan output, concatenated along a new first
   axis; the empty list = zero iterations) and `unstack` (the slices of a scan input along axis 0; scan_input_axes /
   scan_input_directions / scan_output_axes / scan_output_directions left at their defaults).

   A node is evaluated in a normal form -- look the operands up, compute the results with `ncore`, bind the
   outputs -- and `ncore` is parameterised by how a graph-valued attribute is run (`sub name args`), so that the
   direct reading of a trace (TraceCFX.creplay_x) is the SAME function applied to the reading of the bodies.
   No proofs in this file. *)
From Coq Require Import List String ZArith Bool Arith.
Require Import OV.Graph.Syntax OV.Graph.Sem.
Import ListNotations.
Local Open Scope string_scope.

Section SemX.
  Variable V : Type.
  Variable sem : string -> string -> list (string * attrv) -> list (option V) -> option (list V).
  Variable truth : V -> option bool.
  Variable trip : V -> option nat.
  Variable of_nat : nat -> V.
  Variable of_bool : bool -> V.
  Variable unbounded_loop_limit : nat.
  Variable stack : list V -> V.
  Variable unstack : V -> option (list V).

  Definition is_scan (dom op : string) : bool := String.eqb dom "" && String.eqb op "Scan".

  Fixpoint osomes (l : list (option V)) : list V :=
    match l with [] => [] | Some v :: t => v :: osomes t | None :: t => osomes t end.

  Fixpoint all_some (l : list (option V)) : option (list V) :=
    match l with
    | [] => Some []
    | Some v :: t => match all_some t with Some vs => Some (v :: vs) | None => None end
    | None :: _ => None
    end.

  Fixpoint unstack_all (l : list V) : option (list (list V)) :=
    match l with
    | [] => Some []
    | v :: t => match unstack v, unstack_all t with
                | Some x, Some xs => Some (x :: xs)
                | _, _ => None
                end
    end.

  (* the t-th slice of every scan input *)
  Fixpoint nth_each (t : nat) (xss : list (list V)) : option (list V) :=
    match xss with
    | [] => Some []
    | x :: r => match nth_error x t, nth_each t r with
                | Some v, Some vs => Some (v :: vs)
                | _, _ => None
                end
    end.

  (* one more row for every scan output *)
  Definition push (acc : list (list V)) (sc : list V) : list (list V) :=
    map (fun p => (fst p ++ [snd p])%list) (combine acc sc).

  Fixpoint attr_int (name : string) (attrs : list (string * attrv)) : option Z :=
    match attrs with
    | [] => None
    | (k, a) :: t => if String.eqb k name then match a with AInt z => Some z | _ => None end else attr_int name t
    end.

  Section Core.
    Variable body : list V -> option (list V).      (* the body of the node applied to arguments *)

    (* Loop: body (iter, cond_in, carried N) -> (cond_out, carried N, scan K); K = length acc *)
    Fixpoint loop_x (bounded : bool) (k i : nat) (c : bool) (st : list V) (acc : list (list V))
      : option (list V * list (list V)) :=
      if negb c then Some (st, acc) else
      match k with
      | O => if bounded then Some (st, acc) else None
      | S k' =>
        match body (of_nat i :: of_bool c :: st) with
        | Some (cv' :: rs) =>
          if Nat.eqb (List.length rs) (List.length st + List.length acc) then
            match truth cv' with
            | Some c' => loop_x bounded k' (S i) c' (firstn (List.length st) rs) (push acc (skipn (List.length st) rs))
            | None => None
            end
          else None
        | _ => None
        end
      end.

    Definition loop_core (nouts : nat) (vs : list (option V)) : option (list V) :=
      match vs with
      | mv :: cv :: rest =>
        let st0 := osomes rest in
        let max_trip := match mv with Some v => option_map Some (trip v) | None => Some None end in
        let cond0 := match cv with Some v => truth v | None => Some true end in
        match max_trip, cond0 with
        | Some mt, Some c0 =>
          let acc0 := repeat [] (nouts - List.length st0) in
          let r := match mt with
                   | Some k => loop_x true k 0 c0 st0 acc0
                   | None => loop_x false unbounded_loop_limit 0 c0 st0 acc0
                   end in
          match r with
          | Some (stf, acc) => Some (stf ++ map stack acc)%list
          | None => None
          end
        | _, _ => None
        end
      | _ => None
      end.

    (* Scan: body (state N, one slice of each scan input) -> (state N, scan K); n iterations left, t = next slice *)
    Fixpoint scan_x (xss : list (list V)) (n t : nat) (st : list V) (acc : list (list V))
      : option (list V * list (list V)) :=
      match n with
      | O => Some (st, acc)
      | S n' =>
        match nth_each t xss with
        | Some row =>
          match body (st ++ row)%list with
          | Some rs =>
            if Nat.eqb (List.length rs) (List.length st + List.length acc) then
              scan_x xss n' (S t) (firstn (List.length st) rs) (push acc (skipn (List.length st) rs))
            else None
          | None => None
          end
        | None => None
        end
      end.

    Definition scan_core (attrs : list (string * attrv)) (nouts : nat) (vs : list (option V)) : option (list V) :=
      match attr_int "num_scan_inputs" attrs, all_some vs with
      | Some mz, Some ws =>
        let m := Z.to_nat mz in
        if Nat.leb 1 m && Nat.leb m (List.length ws) then
          let ns := List.length ws - m in
          match unstack_all (skipn ns ws) with
          | Some xss =>
            let T := List.length (hd [] xss) in
            if forallb (fun x => Nat.eqb (List.length x) T) xss then
              match scan_x xss T 0 (firstn ns ws) (repeat [] (nouts - ns)) with
              | Some (stf, acc) => Some (stf ++ map stack acc)%list
              | None => None
              end
            else None
          | None => None
          end
        else None
      | _, _ => None
      end.
  End Core.

  (* the results of one node from the values of its operands; `sub name` = how the graph bound to attribute `name`
     is run (None: no such attribute) *)
  Definition ncore (sub : string -> option (list V -> option (list V)))
             (dom op : string) (attrs : list (string * attrv)) (nouts : nat) (vs : list (option V)) : option (list V) :=
    if is_if dom op then
      match vs with
      | [Some cv] =>
        match truth cv with
        | Some b => match sub (if b then "then_branch" else "else_branch") with
                    | Some f => f []
                    | None => None
                    end
        | None => None
        end
      | _ => None
      end
    else if is_loop dom op then
      match sub "body" with Some f => loop_core f nouts vs | None => None end
    else if is_scan dom op then
      match sub "body" with Some f => scan_core f attrs nouts vs | None => None end
    else sem dom op attrs vs.

  Section WithSub.
    Variable ev : env V -> graph -> list V -> option (list V).

    Definition gsub (e : env V) (subs : list (string * graph)) (name : string) : option (list V -> option (list V)) :=
      match find_sub name subs with Some g => Some (ev e g) | None => None end.

    Definition eval_node_x (e : env V) (n : node) : option (env V) :=
      let 'Node dom op ins outs attrs subs := n in
      match lookup_opts e ins with
      | Some vs =>
        match ncore (gsub e subs) dom op attrs (List.length outs) vs with
        | Some rs => bind outs rs e
        | None => None
        end
      | None => None
      end.

    Fixpoint run_x (e : env V) (ns : list node) : option (env V) :=
      match ns with
      | [] => Some e
      | n :: t => match eval_node_x e n with Some e' => run_x e' t | None => None end
      end.

    Definition eval_body_x (outer : env V) (g : graph) (args : list V) : option (list V) :=
      match bind (g_ins g) args outer with
      | None => None
      | Some e0 => match run_x e0 (g_nodes g) with
                   | Some e => lookups e (g_outs g)
                   | None => None
                   end
      end.
  End WithSub.

  Fixpoint eval_graph_x (fuel : nat) (outer : env V) (g : graph) (args : list V) {struct fuel} : option (list V) :=
    match fuel with
    | O => None
    | S f => eval_body_x (eval_graph_x f) outer g args
    end.
End SemX.

(* graphs on which OV.Graph.Sem.eval_graph and eval_graph_x are the same function: no Scan node, no Loop node with
   more outputs than loop-carried operands (no scan outputs), at every depth *)
Fixpoint legacy_node (n : node) : bool :=
  match n with
  | Node dom op ins outs _ subs =>
    negb (is_scan dom op) &&
    (if is_loop dom op then Nat.leb (List.length outs) (List.length (present (skipn 2 ins))) else true) &&
    (fix go (l : list (string * graph)) : bool :=
       match l with [] => true | (_, g) :: r => legacy_graph g && go r end) subs
  end
with legacy_graph (g : graph) : bool :=
  match g with
  | Graph _ _ nodes _ =>
    (fix go (l : list node) : bool := match l with [] => true | n :: r => legacy_node n && go r end) nodes
  end.
