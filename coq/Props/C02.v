(* C02 property theorems: statements only, each closed by `exact`, Print Assumptions beneath.
   The verified checkers evaluated by harness/c02.py on the converter's real protos are
   wf_graphb / no_input_returned / imports_ok (Graph/Wf.v); these theorems say what a `true` means. *)
From Coq Require Import List String Bool.
Require Import OV.Graph.Syntax OV.Graph.Wf OV.Graph.WfProofs.
Require Import OV.Script.Translate OV.Script.TranslateProofs.
Import ListNotations.

(* checker soundness: a proto on which the checker answers true is well formed in the declarative sense
   (scoping: defined before use with outer-scope visibility, subgraph outputs produced inside, outputs
   distinct; single assignment across the graph and all nested subgraphs). *)
Theorem C02_wf_checker_sound : forall g, wf_graphb g = true -> wf_graph g.
Proof. exact wf_graphb_sound. Qed.
Print Assumptions C02_wf_checker_sound.

Theorem C02_wf_checker_nonvacuous : exists g, depth_graph g = 8 /\ wf_graphb g = true.
Proof. exact wf_example_deep. Qed.
Print Assumptions C02_wf_checker_nonvacuous.

(* every value name is defined exactly once across the graph and all nested subgraphs *)
Theorem C02_single_assignment : forall g, wf_graphb g = true -> NoDup (defs_graph g).
Proof. exact (fun g H => wf_defs_nodup g (wf_graphb_sound g H)). Qed.
Print Assumptions C02_single_assignment.

(* no nested subgraph (at any depth) redefines a graph input or initializer *)
Theorem C02_inputs_not_redefined : forall ins inits nodes outs x,
  wf_graphb (Graph ins inits nodes outs) = true -> In x ins -> ~ In x (defs_nodes_all nodes).
Proof. exact (fun ins inits nodes outs x H => wf_inputs_not_redefined ins inits nodes outs x (wf_graphb_sound _ H)). Qed.
Print Assumptions C02_inputs_not_redefined.

Theorem C02_outputs_distinct_and_defined : forall g, wf_graphb g = true ->
  NoDup (g_outs g) /\ incl (g_outs g) (flat_map n_outs (g_nodes g) ++ g_ins g ++ pure_inits (g_ins g) (g_inits g)).
Proof. exact (fun g H => conj (wf_outputs_distinct g (wf_graphb_sound g H)) (wf_outputs_defined g (wf_graphb_sound g H))). Qed.
Print Assumptions C02_outputs_distinct_and_defined.

Theorem C02_subgraph_outputs_inside : forall vis g, scoped_graph true vis g -> incl (g_outs g) (flat_map n_outs (g_nodes g)).
Proof. exact scoped_sub_outputs_inside. Qed.
Print Assumptions C02_subgraph_outputs_inside.

Theorem C02_no_input_returned_reflect : forall g,
  no_input_returned g = true <-> (forall o, In o (g_outs g) -> ~ In o (g_ins g)).
Proof. exact no_input_returned_spec. Qed.
Print Assumptions C02_no_input_returned_reflect.

Theorem C02_imports_reflect : forall imports g,
  imports_ok imports g = true <-> (NoDup imports /\ incl (domains_graph g) imports).
Proof. exact imports_ok_spec. Qed.
Print Assumptions C02_imports_reflect.

(* the converter's name generator (model of Converter._generate_unique_name over the single _used_vars set shared by
   all nested scopes): the returned name is new and is recorded, so no later name can coincide with it *)
Theorem C02_generated_names_fresh : forall cand st r st',
  gen_unique cand st = Some (r, st') ->
  ~ In r (ts_used st) /\ ts_used st' = r :: ts_used st /\ ts_next st <= ts_next st'
  /\ ts_castable st' = ts_castable st /\ ts_orders st' = ts_orders st.
Proof. exact gen_unique_fresh. Qed.
Print Assumptions C02_generated_names_fresh.
