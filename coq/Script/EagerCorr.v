(* Correspondence evaluator for harness/c01_eager.py: the eager model (Script/Eager.v) replayed against a recorded
   trace of the REAL eager evaluator.  Values are tokens (one natural number per distinct tensor value observed in
   the run); the kernels, bool(), index() and the dynamic promotions are the finite tables recorded from the real
   run; the model must reproduce the outputs AND the exact sequence of evaluator calls / bool() / index() events. *)
From Coq Require Import List String ZArith Bool Arith.
Require Import OV.Graph.Syntax OV.Script.Syntax OV.Script.Sets OV.Gen.ScriptTables OV.Script.Translate OV.Script.Eager OV.Script.EagerClass OV.Script.Corr.
Import ListNotations.
Local Open Scope string_scope.

Definition opcall := (string * string * list (string * attrv) * list (option nat) * list nat)%type.

Inductive rev_ :=
| ROp (c : opcall)
| RBool (v : nat) (b : bool)
| RIndex (v : nat) (n : nat).

Definition lit_eqb (a b : lit) : bool :=
  match a, b with
  | LInt x, LInt y => Z.eqb x y
  | LFloat x, LFloat y => Z.eqb x y
  | LBool x, LBool y => Bool.eqb x y
  | LInts x, LInts y => list_eqb Z.eqb x y
  | _, _ => false
  end.

Definition onat_eqb (a b : option nat) : bool :=
  match a, b with Some x, Some y => Nat.eqb x y | None, None => true | _, _ => false end.

(* attributes as compared: names, and the payload of ints / floats / int lists *)
Definition attr_eqb (a b : string * attrv) : bool :=
  String.eqb (fst a) (fst b) &&
  match snd a, snd b with
  | AInt x, AInt y => Z.eqb x y
  | AFloat x, AFloat y => Z.eqb x y
  | AInts x, AInts y => list_eqb Z.eqb x y
  | AInt _, _ | _, AInt _ | AFloat _, _ | _, AFloat _ | AInts _, _ | _, AInts _ => false
  | _, _ => true
  end.
(* model attributes against recorded ones: the methods of the generated opset classes (onnx_opset/_impl) pass EVERY attribute
   of the operator, the ones the source does not give with their declared defaults (property C17: = the schema defaults);
   the model passes the attributes the source gives.  So: every model attribute is recorded with the same payload. *)
Definition attrs_same (model recorded : list (string * attrv)) : bool :=
  forallb (fun x => existsb (attr_eqb x) recorded) model.

Record erun := {
  r_func : func;
  r_globals : list (string * lit);
  r_xs : list nat;
  r_avals : list (string * lit);
  r_events : list rev_;                                  (* the recorded trace, in order *)
  r_casts : list (lit * option nat * nat);               (* cast_pyvalue_to_os_tensor: (value, dtype code | None) -> token *)
  r_adapts : list (lit * nat);                           (* _adapt_to_eager_mode on a Python scalar *)
  r_dtype : list (nat * nat);                            (* token -> dtype code *)
  r_floats : list nat;                                   (* dtype codes of the float types *)
  r_outs : option (list nat)                             (* None: the real call raised *)
}.

Definition find_op (evs : list rev_) (dom op : string) (attrs : list (string * attrv)) (args : list (option nat)) : option (list nat) :=
  (fix go (l : list rev_) : option (list nat) :=
     match l with
     | [] => None
     | ROp (d, o, a, i, r) :: t =>
       if String.eqb d dom && String.eqb o op && attrs_same attrs a && list_eqb onat_eqb i args then Some r else go t
     | _ :: t => go t
     end) evs.

Definition find_bool (evs : list rev_) (v : nat) : option bool :=
  (fix go (l : list rev_) : option bool :=
     match l with [] => None | RBool w b :: t => if Nat.eqb w v then Some b else go t | _ :: t => go t end) evs.
Definition find_index (evs : list rev_) (v : nat) : option nat :=
  (fix go (l : list rev_) : option nat :=
     match l with [] => None | RIndex w n :: t => if Nat.eqb w v then Some n else go t | _ :: t => go t end) evs.

Definition dtype_of (r : erun) (v : nat) : option nat :=
  (fix go (l : list (nat * nat)) : option nat :=
     match l with [] => None | (w, d) :: t => if Nat.eqb w v then Some d else go t end) (r_dtype r).

Definition dyn_cast_of (r : erun) (l : lit) (tgt : option nat) : option nat :=
  let want := match tgt with Some y => dtype_of r y | None => None end in
  match tgt, want with
  | Some _, None => None
  | _, _ =>
    (fix go (c : list (lit * option nat * nat)) : option nat :=
       match c with
       | [] => None
       | (l', d, tok) :: t => if lit_eqb l l' && onat_eqb d want then Some tok else go t
       end) (r_casts r)
  end.

Definition fun_cast_of (r : erun) (l : lit) : option nat :=
  (fix go (c : list (lit * nat)) : option nat :=
     match c with [] => None | (l', tok) :: t => if lit_eqb l l' then Some tok else go t end) (r_adapts r).

Definition is_float_of (r : erun) (v : nat) : bool :=
  match dtype_of r v with Some d => existsb (Nat.eqb d) (r_floats r) | None => false end.

Definition model_run (r : erun) : option (list nat * list (event nat)) :=
  eval_eager_log nat (find_op (r_events r)) (find_bool (r_events r)) (find_index (r_events r)) 60 (r_globals r)
                 (dyn_cast_of r) (fun_cast_of r) (is_float_of r) 14 (r_func r) (r_xs r) (r_avals r).

Definition event_eqb (m : event nat) (x : rev_) : bool :=
  match m, x with
  | EvOp _ d o a i rs, ROp (d', o', a', i', rs') =>
    String.eqb d d' && String.eqb o o' && attrs_same a a' && list_eqb onat_eqb i i' && list_eqb Nat.eqb rs rs'
  | EvBool _ v b, RBool v' b' => Nat.eqb v v' && Bool.eqb b b'
  | EvIndex _ v n, RIndex v' n' => Nat.eqb v v' && Nat.eqb n n'
  | _, _ => false
  end.

Fixpoint events_eqb (a : list (event nat)) (b : list rev_) : bool :=
  match a, b with [], [] => true | x :: s, y :: t => event_eqb x y && events_eqb s t | _, _ => false end.

(* verdict: 0 agree (same outputs, same event sequence) | 1 the model has no value (something it does not define) and the
   real call returned | 2 outputs differ | 3 outputs equal, event sequences differ | 4 the real call raised, the model
   returns | 5 both have no value *)
Definition verdict (r : erun) : nat :=
  match model_run r, r_outs r with
  | Some (outs, lg), Some real =>
    if negb (list_eqb Nat.eqb outs real) then 2
    else if events_eqb lg (r_events r) then 0 else 3
  | None, Some _ => 1
  | Some _, None => 4
  | None, None => 5
  end.

Definition in_class (r : erun) : bool := eager_class (r_globals r) (r_func r).
