"""C13: which VARIANT of each catalogued exporter behaviour does the implementation under test show?

Every repaired defect of onnx_export.py has two variants in the Coq models (the as-read behaviour, kept with its
`_refuted` witness, and the repaired one).  The harness decides per behaviour, by a directed probe on the real
exporter, which variant the implementation matches, and hands the flags to the models.  A probe never decides
whether the property holds: the round-trip oracle does (a `fixed` entry of known_findings.json suppresses nothing,
so the as-read behaviour coming back is reported by the oracle as a violation with its input).

    detect() -> dict of booleans
      sig_renamed      C13_01  rename=True on a ModelProto renames the def line like the body
      model_scope      C13_01  a counted Loop in a model graph is translated (no IndexError)
      init_raw_key     C13_02  the Constant made for an initializer keeps its ONNX name (translated once; inlined under that name)
      skip_wraps       C13_03  skip_initializers always wraps the function in make_model()
      finite_only      C13_04  nan / inf constants are not inlined
      src_ref          C13_05  right-hand sides of emitted assignments / range() / return use the inlined literal
      default_opset    C13_06  @script(default_opset=...) under use_operators
      unique_names     C13_07  two ONNX names never share a Python name
      nonempty_only    C13_09  constants of shape [0] are not inlined
      paren_neg        C13_11  a negative literal operand of an operator is parenthesized
      refuse_hazard    C13_12  a Loop whose un-SSA assignments would read an overwritten variable raises a descriptive error
      ph_reserved      C13_15  the name printed for an omitted node output is reserved in the unique-name pool (Export/Placeholders.v)
"""
from __future__ import annotations

import re

import numpy as np
from onnx import TensorProto as TP
from onnx import helper as h
from onnx import numpy_helper as nh

_cache = {}


def _model(nodes, ins=("x",), outs=("y",), inits=(), extra_in=()):
    g = h.make_graph(nodes, "g", [h.make_tensor_value_info(n, TP.FLOAT, [3]) for n in ins] + list(extra_in),
                     [h.make_tensor_value_info(n, TP.FLOAT, [3]) for n in outs], initializer=list(inits))
    return h.make_model(g, opset_imports=[h.make_opsetid("", 18)], ir_version=9)


def _export(proto, **opts):
    import onnxscript
    try:
        return onnxscript.proto2python(proto, **opts)
    except Exception as e:  # noqa: BLE001 -- a probe only observes
        return f"<raised {type(e).__name__}>"


def detect():
    from onnxscript.backend import onnx_export as E
    key = id(E)
    if key in _cache:
        return _cache[key]
    N = h.make_node
    f32 = lambda v, n="value": nh.from_array(np.asarray(v, dtype=np.float32), n)  # noqa: E731
    v = {}
    code = _export(_model([N("Neg", ["x"], ["y"])]), rename=True)
    m = re.search(r"def \w+\((\w+)", code)
    v["sig_renamed"] = bool(m and re.fullmatch(r"v\d+", m.group(1)))
    body = h.make_graph([N("Add", ["acc", "x"], ["acc2"]), N("Identity", ["c_in"], ["c_out"])], "body",
                        [h.make_tensor_value_info("it", TP.INT64, []), h.make_tensor_value_info("c_in", TP.BOOL, []), h.make_tensor_value_info("acc", TP.FLOAT, [3])],
                        [h.make_tensor_value_info("c_out", TP.BOOL, []), h.make_tensor_value_info("acc2", TP.FLOAT, [3])])
    code = _export(_model([N("Identity", ["x"], ["x0"]), N("Loop", ["n", "", "x0"], ["y"], body=body)], extra_in=[h.make_tensor_value_info("n", TP.INT64, [])]))
    v["model_scope"] = not code.startswith("<raised")
    code = _export(_model([N("Add", ["x", "w.0"], ["y"])], inits=[f32(1.5, "w.0")]), inline_const=True)
    v["init_raw_key"] = "Add(x, 1.5)" in code
    code = _export(_model([N("Neg", ["x"], ["y"])]), skip_initializers=True)
    v["skip_wraps"] = "def make_model" in code
    v["finite_only"] = E._get_const_repr(N("Constant", [], ["c"], value=f32(float("nan")))) is None
    v["nonempty_only"] = E._get_const_repr(N("Constant", [], ["c"], value=f32(np.zeros([0], dtype=np.float32)))) is None
    code = _export(_model([N("Neg", ["x"], ["t"]), N("Constant", [], ["y"], value=f32([1.0, 2.0, 3.0]))]), inline_const=True)
    v["src_ref"] = bool(re.search(r"return \[1\.0, 2\.0, 3\.0\]", code))
    code = _export(_model([N("Add", ["x", "x"], ["y"])]), use_operators=True)
    v["default_opset"] = "default_opset" in code
    code = _export(_model([N("Neg", ["x"], ["a.b"]), N("Abs", ["x"], ["a_b"]), N("Sub", ["a.b", "a_b"], ["y"])]))
    v["unique_names"] = "Sub(a_b, a_b)" not in code and not code.startswith("<raised")
    code = _export(_model([N("Constant", [], ["m2"], value=f32(-2.0)), N("Pow", ["m2", "x"], ["p"]), N("Identity", ["p"], ["y"])]), use_operators=True, inline_const=True)
    v["paren_neg"] = "(-2.0) ** x" in code
    # C13_12: a Loop whose body returns its own inputs at another position is refused with a descriptive error
    sbody = h.make_graph([N("Identity", ["c"], ["c2"])], "body",
                         [h.make_tensor_value_info("i", TP.INT64, []), h.make_tensor_value_info("c", TP.BOOL, []),
                          h.make_tensor_value_info("a", TP.FLOAT, [3]), h.make_tensor_value_info("b", TP.FLOAT, [3])],
                         [h.make_tensor_value_info("c2", TP.BOOL, []), h.make_tensor_value_info("b", TP.FLOAT, [3]), h.make_tensor_value_info("a", TP.FLOAT, [3])])
    fp = h.make_function("this", "swap_once", ["x", "y"], ["p", "q"],
                         [N("Constant", [], ["one"], value_int=1), N("Loop", ["one", "", "x", "y"], ["p", "q"], body=sbody)],
                         opset_imports=[h.make_opsetid("", 18)])
    v["refuse_hazard"] = _export(fp) == "<raised RuntimeError>"
    # C13_15: the text printed for an omitted output is drawn from the unique-name pool (a value called `_1` and the placeholder differ)
    code = _export(_model([N("Neg", ["x"], ["_1"]), N("Dropout", ["x"], ["d", ""]), N("Add", ["_1", "d"], ["y"])]))
    v["ph_reserved"] = bool(re.search(r"d, _1_\d+ = ", code))
    _cache[key] = v
    return v
