(* C05, TransposeIdentity / TransposeTranspose (_basic_rules.py): statements only. *)
From Coq Require Import List Arith Bool.
Require Import OV.Rules.Transpose OV.Rules.TransposeProofs.
Import ListNotations.

(* Transpose(perm=range(n)) is the identity on every tensor of rank n (shape and every element) *)
Theorem C05_transpose_identity : forall (V : Type) (t : tensor V) p,
  ti_check p = true -> length (fst t) = length p ->
  fst (transpose p t) = fst t /\ forall ix, length ix = length p -> snd (transpose p t) ix = snd t ix.
Proof. exact transpose_identity_sound. Qed.
Print Assumptions C05_transpose_identity.

(* Transpose(Transpose(x, p1), p2) = Transpose(x, q) with q the permutation `_apply_transposes` computes, all ranks, all
   pairs of permutations; host_ok = both perms are permutations of range(rank x) *)
Theorem C05_transpose_transpose : forall (V : Type) (t : tensor V) p1 p2,
  is_perm p1 = true -> is_perm p2 = true -> length p1 = length p2 -> length (fst t) = length p1 ->
  fst (transpose p2 (transpose p1 t)) = fst (transpose (composed p1 p2) t) /\
  forall ix, length ix = length p1 ->
    snd (transpose p2 (transpose p1 t)) ix = snd (transpose (composed p1 p2) t) ix.
Proof. exact transpose_transpose_sound. Qed.
Print Assumptions C05_transpose_transpose.

(* ... including the choice between Identity and Transpose(perm=q) made by `rewrite` *)
Theorem C05_transpose_transpose_rewrite : forall (V : Type) (t : tensor V) p1 p2,
  is_perm p1 = true -> is_perm p2 = true -> length p1 = length p2 -> length (fst t) = length p1 ->
  let rhs := match tt_rewrite p1 p2 with None => t | Some q => transpose q t end in
  fst (transpose p2 (transpose p1 t)) = fst rhs /\
  forall ix, length ix = length p1 -> snd (transpose p2 (transpose p1 t)) ix = snd rhs ix.
Proof. exact tt_rewrite_sound. Qed.
Print Assumptions C05_transpose_transpose_rewrite.
