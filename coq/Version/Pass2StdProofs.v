(* C10 -- the theorems of Pass2Proofs.v on the registry read from the live module. *)
From Coq Require Import ZArith List Bool String Lia.
Import ListNotations.
Require Import OV.Gen.VersionTables OV.Version.Model OV.Version.Model2 OV.Version.Adapters OV.Version.Std OV.Version.CApi
               OV.Version.Fallback OV.Version.FallbackStd OV.Version.Pass2 OV.Version.Pass2Std OV.Version.Pass2Proofs.
Local Open Scope Z_scope.

Lemma no_key_no_adapter : forall keys op k,
  existsb (fun key : string * string * Z * bool => let '(_, o, _, _) := key in String.eqb o op) keys = false ->
  existsb (key_is op k) keys = false.
Proof.
  induction keys as [|[[[d o] v] up] r IH]; intros op k H; [reflexivity|].
  cbn [existsb] in *. apply orb_false_iff in H as [Ho Hr]. rewrite (IH op k Hr), orb_false_r.
  unfold key_is. rewrite Ho. now rewrite andb_false_r.
Qed.

Lemma std_q_quiet : forall fx op, std_q op = true -> forall k n, std_adapt fx op k n = ANone.
Proof.
  intros fx op H k n. unfold std_q in H. apply negb_true_iff in H.
  unfold std_adapt, adapt_of. now rewrite (no_key_no_adapter _ op k H).
Qed.

(* the std instance: inlined models of operators without a registered adapter *)
Theorem std_torch_2_9_raises_iff_calm : forall own refuse mv fx limit capi inline_r cleanup S0 S1 t,
  inline_r S0 = Some S1 -> m_funcs (st_model S1) = [] ->
  (forall dv, default_version (st_model S1) = Some dv -> forallb (calmb std_q t dv) (m_graph (st_model S1)) = true) ->
  (forall dv g l, conv (std_adapt fx) t dv big_fuel (m_graph (st_model S1)) <> GAbort EOutOfFuel g l) ->
  (t_raises (torch_2_9_convert_r own refuse mv (std_adapt fx) supported_min supported_max big_fuel limit capi inline_r cleanup S0 t) = true <->
   oz_is (m_decl (st_model S1)) t = false /\ supported supported_min supported_max (st_model S1) t = true /\
   ((t >? supported_max) || (t <? supported_min) = true \/ default_version (st_model S1) = None \/
    exists dv, default_version (st_model S1) = Some dv /\ precheck refuse mv supported_min t dv (st_model S1) [] = true))
  /\ (forall e S' l,
        torch_2_9_convert_r own refuse mv (std_adapt fx) supported_min supported_max big_fuel limit capi inline_r cleanup S0 t
        = TRaisedNative e S' l ->
        S' = S1 /\ l = [] /\ (e = EValueRange \/ e = EOpsetConflict \/ e = ERefused)).
Proof.
  intros own refuse mv fx limit capi inline_r cleanup S0 S1 t.
  exact (torch_2_9_raises_iff_calm own refuse mv (std_adapt fx) supported_min supported_max big_fuel limit capi inline_r cleanup
                                   std_q (std_q_quiet fx) S0 S1 t).
Qed.

(* the three ways it raises on a natively supported request, and the controls, on concrete inputs *)
Lemma torch_2_9_raises_examples :
  let run := fun refuse inl S0 t =>
    torch_2_9_convert_r true refuse MinDecl (std_adapt flags_fixed) supported_min supported_max big_fuel 1000
                        (fun _ _ => None) inl id_state S0 t in
  (* QuantizeLinear(int32 x, float scale) written for opset 18: refused for 19..22 by the pre-check, model untouched *)
  run true inline_ok w_ql 19 = TRaisedNative ERefused w_ql [] /\
  run true inline_ok w_ql 22 = TRaisedNative ERefused w_ql [] /\
  t_raises (run true inline_ok w_ql 23) = false /\
  (* without the pre-check the same request returns (and the result is the finding K_QL) *)
  t_raises (run false inline_ok w_ql 19) = false /\
  (* "" and "ai.onnx" imported at different versions *)
  run true inline_ok w_conflict 21 = TRaisedNative EOpsetConflict w_conflict [] /\
  (* the inline pass refuses *)
  run true inline_refuses w_ql 23 = TRaisedInline /\
  (* the calm hypotheses hold on the witnesses *)
  forallb (calmb std_q 19 (Some 18)) (m_graph (st_model w_ql)) = true.
Proof. vm_compute. repeat split; reflexivity. Qed.
