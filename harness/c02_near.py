"""C02 -- second near-miss stream (session 6): mutation kinds that harness/c01_gen.mutate does not have.

Every mutated program must either be refused when the decorator runs (exception of a class the source raises on purpose,
carrying the source position of the offending construct) or be accepted and then yield well-formed protos.  The offending
line of each mutation carries the marker comment `#NM`: the line number the exception reports (relative to the first line
of the decorated function, which is what sourceinfo.SourceInfo.msg prints) must be the line of a marker.

`EXPECT[kind]`:
  "refuse"  : the construct is outside the subset (Python would raise on some path, or ONNX cannot express it); acceptance is a violation
  "either"  : refusal or acceptance are both legitimate; an accepted program is checked like every accepted program
"""
from __future__ import annotations

import copy
import re

from harness import c01_gen

MARK = "  #NM"


def _raw(*lines):
    return ["raw", list(lines)]


# kind -> (expectation, builder(x, aparams) -> list of raw lines inserted before the return)
def _k(expect, *lines):
    return (expect, lambda x, ap: [ln.replace("{x}", x) for ln in lines])


BODY_KINDS = {
    # ---- break / continue / return placement
    "break-in-middle-unconditional": _k("refuse", "for _nm_i in range(3):", "    {x} = {x} + 1.0", "    break" + MARK, "    {x} = {x} + 2.0"),
    "break-in-nested-if": _k("refuse", "for _nm_i in range(3):", "    {x} = {x} + 1.0", "    _nm_b = op.ReduceSum({x}, keepdims=0) > 0.0",
                             "    if _nm_b:" + MARK, "        if _nm_b:" + MARK, "            break" + MARK),
    "break-in-else": _k("refuse", "for _nm_i in range(3):", "    _nm_b = op.ReduceSum({x}, keepdims=0) > 0.0", "    if _nm_b:" + MARK,
                        "        {x} = {x} + 1.0", "    else:", "        break" + MARK),
    "break-with-else-clause": _k("refuse", "for _nm_i in range(3):", "    {x} = {x} + 1.0", "    _nm_b = op.ReduceSum({x}, keepdims=0) > 0.0",
                                 "    if _nm_b:" + MARK, "        break" + MARK, "    else:", "        {x} = {x} + 2.0"),
    "break-after-assignment-in-if": _k("refuse", "for _nm_i in range(3):", "    _nm_b = op.ReduceSum({x}, keepdims=0) > 0.0", "    if _nm_b:" + MARK,
                                       "        {x} = {x} + 1.0", "        break" + MARK),
    "continue-in-loop": _k("refuse", "for _nm_i in range(3):", "    {x} = {x} + 1.0", "    continue" + MARK),
    "continue-in-if": _k("refuse", "for _nm_i in range(3):", "    _nm_b = op.ReduceSum({x}, keepdims=0) > 0.0", "    if _nm_b:" + MARK,
                         "        continue" + MARK, "    {x} = {x} + 1.0"),
    "return-in-while": _k("refuse", "_nm_g = op.ReduceSum({x}, keepdims=0) < 0.0", "while _nm_g:" + MARK, "    {x} = {x} + 1.0",
                          "    _nm_g = op.ReduceSum({x}, keepdims=0) < 0.0", "    return {x}" + MARK),
    "return-in-nested-loop-if": _k("refuse", "for _nm_i in range(2):" + MARK, "    {x} = {x} + 1.0", "    if op.ReduceSum({x}, keepdims=0) > 0.0:" + MARK,
                                   "        return {x}" + MARK),
    "return-in-else": _k("refuse", "if op.ReduceSum({x}, keepdims=0) > 0.0:" + MARK, "    {x} = {x} + 1.0", "else:", "    return {x}" + MARK),
    "return-in-both-branches": _k("refuse", "if op.ReduceSum({x}, keepdims=0) > 0.0:" + MARK, "    return {x}" + MARK, "else:", "    return {x} + 1.0" + MARK),
    # ---- assignments
    "augassign-undefined": _k("refuse", "_nm_u += 1.0" + MARK),
    "augassign-in-loop": _k("refuse", "for _nm_i in range(2):", "    {x} += 1.0" + MARK),
    "annotated-assignment": _k("either", "_nm_c: FLOAT = {x} + 1.0" + MARK, "{x} = _nm_c"),
    "annotated-declaration-only": _k("refuse", "_nm_c: FLOAT" + MARK, "{x} = {x} + _nm_c" + MARK),
    "starred-assignment": _k("refuse", "_nm_a, *_nm_b = op.Split({x}, num_outputs=2)" + MARK),
    "nested-tuple-target": _k("refuse", "(_nm_a, (_nm_b, _nm_c)) = op.Split({x}, num_outputs=2)" + MARK),
    "tuple-from-tuple": _k("either", "_nm_a, _nm_b = {x}, {x} + 1.0" + MARK, "{x} = _nm_a + _nm_b"),
    "walrus": _k("refuse", "_nm_c = (_nm_w := {x} + 1.0)" + MARK),
    "del-stmt": _k("refuse", "_nm_d = {x} + 1.0", "del _nm_d" + MARK),
    "global-stmt": _k("refuse", "global _NM_G" + MARK),
    "shadow-op": _k("either", "op = {x}" + MARK, "{x} = op + 1.0"),
    "assign-to-self-undefined": _k("refuse", "_nm_s = _nm_s + 1.0" + MARK),
    # ---- expressions
    "chained-comparison-3": _k("refuse", "_nm_c = 0.0 < {x} <= 1.0 < 2.0" + MARK),
    "is-operator": _k("refuse", "_nm_c = {x} is None" + MARK),
    "is-not-operator": _k("refuse", "_nm_c = {x} is not None" + MARK),
    "in-operator": _k("refuse", "_nm_c = {x} in [1.0]" + MARK),
    "not-in-operator": _k("refuse", "_nm_c = {x} not in [1.0]" + MARK),
    "boolop-or": _k("refuse", "_nm_c = ({x} > 0.0) or ({x} < 1.0)" + MARK),
    "not-operator": _k("either", "_nm_c = not ({x} > 0.0)" + MARK),
    "fstring": _k("refuse", "_nm_s = f\"{{x}}\"" + MARK),
    "lambda-assigned": _k("refuse", "_nm_l = lambda t: t + 1.0" + MARK, "{x} = _nm_l({x})" + MARK),
    "list-comprehension": _k("refuse", "_nm_c = op.Concat(*[{x} for _nm_j in range(2)], axis=0)" + MARK),
    "generator-expression": _k("refuse", "_nm_c = sum({x} for _nm_j in range(2))" + MARK),
    "dict-literal": _k("refuse", "_nm_c = {'a': {x}}" + MARK),
    "set-literal": _k("refuse", "_nm_c = {1, 2}" + MARK),
    "ternary-in-call": _k("refuse", "_nm_c = op.Add({x}, {x} if True else {x} + 1.0)" + MARK),
    "keyword-unpack-call": _k("refuse", "_nm_c = op.ReduceSum({x}, **{'keepdims': 0})" + MARK),
    "string-constant-operand": _k("either", "_nm_c = {x} + 'a'" + MARK),
    "none-operand-binop": _k("refuse", "_nm_c = {x} + None" + MARK),
    "floordiv-operator": _k("refuse", "_nm_c = {x} // 2.0" + MARK),
    "bitshift-operator": _k("refuse", "_nm_c = op.Cast({x}, to=7) << 1" + MARK),
    "invert-operator": _k("refuse", "_nm_c = ~({x} > 0.0)" + MARK),
    "uadd-operator": _k("either", "_nm_c = +{x}" + MARK),
    "yield-expr": _k("refuse", "_nm_c = yield {x}" + MARK),
    "await-expr-in-sync": None,   # SyntaxError at import: covered by python-syntax-error
    "unknown-op": _k("refuse", "_nm_c = op.NoSuchOperator({x})" + MARK),
    "unknown-attribute-kw": _k("refuse", "_nm_c = op.ReduceSum({x}, no_such_attr=1)" + MARK),
    "too-many-inputs": _k("either", "_nm_c = op.Neg({x}, {x}, {x})" + MARK),
    "call-of-non-function": _k("refuse", "_nm_c = {x}({x})" + MARK),
    "method-call-on-tensor": _k("refuse", "_nm_c = {x}.sum()" + MARK),
    "attribute-of-tensor": _k("refuse", "_nm_c = {x}.shape" + MARK),
    "print-call": _k("either", "print({x})" + MARK),        # print calls are ignored on purpose (ast_utils.is_print_call)
    "builtin-call": _k("refuse", "_nm_c = abs({x})" + MARK),
    # ---- statements
    "with-stmt": _k("refuse", "with open('f') as _nm_f:" + MARK, "    {x} = {x} + 1.0"),
    "try-except": _k("refuse", "try:" + MARK, "    {x} = {x} + 1.0", "except Exception:", "    {x} = {x} - 1.0"),
    "try-finally": _k("refuse", "try:" + MARK, "    {x} = {x} + 1.0", "finally:", "    {x} = {x} - 1.0"),
    "raise-stmt": _k("refuse", "raise ValueError('no')" + MARK),
    "assert-stmt": _k("refuse", "assert {x} is not None" + MARK),
    "match-stmt": _k("refuse", "match 1:" + MARK, "    case 1:", "        {x} = {x} + 1.0", "    case _:", "        {x} = {x} - 1.0"),
    "import-stmt": _k("refuse", "import math" + MARK),
    "class-def": _k("refuse", "class _NmC:" + MARK, "    pass"),
    "ellipsis-stmt": _k("either", "..." + MARK),
    "docstring-in-middle": _k("either", "'a bare string in the middle'" + MARK),
    "bare-call-statement": _k("either", "op.Identity({x})" + MARK),
    "bare-name-statement": _k("either", "{x}" + MARK),
    "pass-in-if": _k("refuse", "if op.ReduceSum({x}, keepdims=0) > 0.0:" + MARK, "    pass" + MARK, "else:", "    {x} = {x} + 1.0"),
    # ---- nested functions / scoping
    "nested-def-captures-later-assigned": _k("refuse", "def _nm_inner(t):" + MARK, "    return t + _nm_late" + MARK, "_nm_late = {x} + 1.0",
                                             "{x} = _nm_inner({x})" + MARK),
    "nested-def-captures-loop-var": _k("either", "for _nm_i in range(2):", "    def _nm_inner(t):" + MARK, "        return t + op.Cast(_nm_i, to=1)" + MARK,
                                       "    {x} = _nm_inner({x})" + MARK),
    "nested-def-uncalled": _k("either", "def _nm_inner(t):" + MARK, "    return t + 1.0" + MARK),
    "nested-def-nonlocal": _k("refuse", "_nm_n = {x} + 1.0", "def _nm_inner(t):" + MARK, "    nonlocal _nm_n" + MARK, "    _nm_n = t", "    return t",
                              "{x} = _nm_inner({x})" + MARK),
    "use-before-def-in-for-first-iteration": _k("refuse", "for _nm_i in range(2):" + MARK, "    _nm_y = _nm_z + 1.0" + MARK, "    _nm_z = {x}",
                                                "    {x} = {x} + _nm_y"),
    "use-before-def-in-while-first-iteration": _k("refuse", "_nm_g = op.ReduceSum({x}, keepdims=0) < 0.0", "while _nm_g:" + MARK,
                                                  "    _nm_y = _nm_z + 1.0" + MARK, "    _nm_z = {x}", "    {x} = {x} + _nm_y",
                                                  "    _nm_g = op.ReduceSum({x}, keepdims=0) < 0.0"),
    "use-before-def-in-nested-if-in-loop": _k("refuse", "for _nm_i in range(2):" + MARK, "    if op.ReduceSum({x}, keepdims=0) > 0.0:" + MARK,
                                              "        {x} = {x} + _nm_z" + MARK, "    else:", "        {x} = {x} - 1.0", "    _nm_z = {x}"),
    "loop-var-used-after-loop": _k("either", "for _nm_i in range(2):", "    {x} = {x} + 1.0", "_nm_c = _nm_i + 1" + MARK),
    "loop-defined-used-after-loop": _k("refuse", "for _nm_i in range(2):" + MARK, "    _nm_v = {x} + 1.0", "{x} = {x} + _nm_v" + MARK),
    "while-defined-used-after-loop": _k("refuse", "_nm_g = op.ReduceSum({x}, keepdims=0) < 0.0", "while _nm_g:" + MARK, "    _nm_v = {x} + 1.0",
                                        "    _nm_g = op.ReduceSum(_nm_v, keepdims=0) < 0.0", "{x} = {x} + _nm_v" + MARK),
    "if-defines-then-later-if-uses": _k("refuse", "_nm_b = op.ReduceSum({x}, keepdims=0) > 0.0", "if _nm_b:" + MARK, "    _nm_v = {x} + 1.0", "    {x} = _nm_v",
                                        "if _nm_b:" + MARK, "    {x} = {x} + _nm_v" + MARK),
    "shadow-parameter-by-loop-var": _k("either", "for {x} in range(2):" + MARK, "    _nm_c = {x} + 1", "{x} = op.Cast({x}, to=1)"),
    "while-condition-never-updated": _k("either", "_nm_g = op.ReduceSum({x}, keepdims=0) < 0.0", "while _nm_g:" + MARK, "    {x} = {x} + 1.0"),
    "while-condition-undefined": _k("refuse", "while _nm_nog:" + MARK, "    {x} = {x} + 1.0", "    _nm_nog = op.ReduceSum({x}, keepdims=0) < 0.0"),
    "for-bound-undefined": _k("refuse", "for _nm_i in range(_nm_nobound):" + MARK, "    {x} = {x} + 1.0"),
    "range-keyword": _k("refuse", "for _nm_i in range(stop=2):" + MARK, "    {x} = {x} + 1.0"),
    "range-three-args": _k("refuse", "for _nm_i in range(0, 4, 2):" + MARK, "    {x} = {x} + 1.0"),
    "for-over-zip": _k("refuse", "for _nm_i in zip(range(2), range(2)):" + MARK, "    {x} = {x} + 1.0"),
    "async-for": None,
}
BODY_KINDS = {k: v for k, v in BODY_KINDS.items() if v is not None}

# signature / module-level mutations: textual edits of the `def` line of the function under test
SIG_KINDS = {
    "star-args-param": ("either", lambda sig: sig.replace(") ->", ", *_nm_rest) ->", 1)),
    "kwargs-param": ("either", lambda sig: sig.replace(") ->", ", **_nm_kw) ->", 1)),
    "kwonly-tensor-param": ("either", lambda sig: sig.replace(") ->", ", *, _nm_k: FLOAT['D0']) ->", 1)),
    "kwonly-attr-param": ("either", lambda sig: sig.replace(") ->", ", *, _nm_k: int = 1) ->", 1)),
    "default-none-on-tensor-param": ("either", None),      # handled specially: first tensor parameter gets `= None`
    "default-float-on-tensor-param": ("either", None),
    "positional-only-param": ("either", None),
    "unannotated-extra-param": ("either", lambda sig: sig.replace(") ->", ", _nm_p) ->", 1)),
    "string-annotation-param": ("either", lambda sig: sig.replace(") ->", ", _nm_p: 'FLOAT') ->", 1)),
    "no-return-annotation": ("either", lambda sig: re.sub(r"\) -> .*:$", "):", sig)),
    "async-def": ("refuse", lambda sig: "async " + sig),
}

SYNTAX_KINDS = {   # Python itself refuses these when the module is compiled (a located SyntaxError): the decorator never runs
    "break-outside-loop": ["break" + MARK],
    "continue-outside-loop": ["continue" + MARK],
    "nonlocal-at-top": ["nonlocal _nm_n" + MARK],
    "await-in-sync": ["_nm_c = await {x}" + MARK],
    "async-for-in-sync": ["async for _nm_i in range(2):" + MARK, "    {x} = {x} + 1.0"],
    "return-with-star": ["_nm_a = *{x}" + MARK],
}

NEAR_MISS_KINDS2 = sorted(BODY_KINDS) + sorted(SIG_KINDS) + sorted(SYNTAX_KINDS) + ["return-not-last", "two-returns-top-level"]

EXPECT = {k: v[0] for k, v in BODY_KINDS.items()}
EXPECT.update({k: v[0] for k, v in SIG_KINDS.items()})
EXPECT.update({k: "refuse" for k in SYNTAX_KINDS})
EXPECT["return-not-last"] = "refuse"          # statements after a return are dead code in Python
EXPECT["two-returns-top-level"] = "refuse"


def _def_line_index(lines, name):
    for i in range(len(lines) - 1, -1, -1):
        if lines[i].startswith(f"def {name}("):
            return i
    raise KeyError(name)


def mutate2(p, kind, rng):
    """Source text of program p with one mutation of the given kind."""
    q = copy.deepcopy(p)
    body = q["body"]
    ret = body[-1]
    core = body[:-1]
    x = q["tparams"][0][0]
    pos = rng.randrange(len(core) + 1)
    if kind in BODY_KINDS:
        lines = BODY_KINDS[kind][1](x, q["aparams"])
        core.insert(pos, _raw(*lines))
        q["body"] = core + [ret]
        return c01_gen.to_source(q)
    if kind in SYNTAX_KINDS:
        core.insert(pos, _raw(*[ln.replace("{x}", x) for ln in SYNTAX_KINDS[kind]]))
        q["body"] = core + [ret]
        return c01_gen.to_source(q)
    if kind == "return-not-last":
        # a return in the middle of the top-level block, more statements after it
        core.insert(pos, _raw(f"return {x}" + MARK) if len(ret[1]) == 1 else ["return", copy.deepcopy(ret[1])])
        if len(ret[1]) != 1:
            core.insert(pos + 1, _raw(f"{x} = {x} + 1.0" + MARK))
        q["body"] = core + [ret]
        return c01_gen.to_source(q)
    if kind == "two-returns-top-level":
        q["body"] = core + [copy.deepcopy(ret), ret]
        return c01_gen.to_source(q)
    src = c01_gen.to_source(q)
    lines = src.split("\n")
    i = _def_line_index(lines, q["name"])
    sig = lines[i]
    if kind == "default-none-on-tensor-param":
        sig = re.sub(r"^(def \w+\(\w+: [A-Z0-9]+(\[[^\]]*\])?)", r"\1 = None", sig, count=1)
    elif kind == "default-float-on-tensor-param":
        sig = re.sub(r"^(def \w+\(\w+: [A-Z0-9]+(\[[^\]]*\])?)", r"\1 = 1.0", sig, count=1)
    elif kind == "positional-only-param":
        sig = re.sub(r"^(def \w+\(\w+: [A-Z0-9]+(\[[^\]]*\])?)", r"\1, /", sig, count=1)
    else:
        sig = SIG_KINDS[kind][1](sig)
    lines[i] = sig + MARK
    return "\n".join(lines)


def marker_lines(source, name):
    """Line numbers (1 = first line of the decorated function as inspect.getsource returns it, i.e. the decorator line)
    of the marked lines of function `name`, and the number of lines of the function."""
    lines = source.split("\n")
    i = _def_line_index(lines, name)
    first = i - 1 if i > 0 and lines[i - 1].startswith("@") else i
    out = []
    j = first
    while j < len(lines) and (j <= i or lines[j].startswith(" ") or lines[j] == ""):
        if lines[j].endswith(MARK.strip()):
            out.append(j - first + 1)
        j += 1
    return out, first + 1


_LINE_RE = re.compile(r"(?:line|Line) (\d+)")


def reported_line(exc):
    """The source line an exception of the converter names (relative to the function), or for a SyntaxError raised by
    Python the absolute line of the module; None when the message carries no position."""
    if isinstance(exc, SyntaxError) and exc.lineno is not None and "at:" not in str(exc):
        return ("abs", exc.lineno)
    m = _LINE_RE.search(str(exc))
    if m:
        return ("rel", int(m.group(1)))
    return None


def position_ok(source, name, exc):
    """Does the exception name a marked line?  Returns (has_position, names_a_marked_line)."""
    rl = reported_line(exc)
    if rl is None:
        return False, False
    marks, first_abs = marker_lines(source, name)
    if rl[0] == "abs":
        return True, (rl[1] - first_abs + 1) in marks
    return True, rl[1] in marks


# ----------------------------------------------------------------------------- model-expressible near misses (refusal tie)
#
# Mutations built as program structures (not raw text), so that the mutated function is also a Script.Syntax term and
# coq/Script/Refuse.v can be evaluated on it: the detector's class and path are compared, in Coq, with the class of the
# real exception and the line it reports (Refuse.refusal_agrees).

SKIP_MODEL_CHECK = {"no-return-annotation", "unannotated-extra-param", "string-annotation-param", "annotated-assignment",
                    "positional-only-param"}

MODEL_KINDS = ["m-return-in-then", "m-return-in-else", "m-return-in-for", "m-return-in-while", "m-return-in-if-in-for",
               "m-return-in-for-in-if-in-while", "m-return-none", "m-bare-break-last", "m-bare-break-middle", "m-break-in-else",
               "m-break-in-nested-if", "m-break-not-last", "m-break-cond-expression", "m-break-top-level-of-if-outside-loop-body",
               "m-loop-only-break", "m-tuple-from-name", "m-valid-break-last", "m-valid-nested"]


def _cond(x):
    return ["cmp", ">", ["call", "ReduceSum", [["var", x]], [["keepdims", ["v", 0]]]], ["lit", 0.0]]


def _inc(x, c=1.0):
    return ["assign", x, ["bin", "+", ["var", x], ["lit", c]]]


def mutate_model(p, kind, rng):
    """(program structure with the mutation, using the extra statement kind ["break"]) -- see src2 / coq_func2."""
    q = copy.deepcopy(p)
    body = q["body"]
    ret = body[-1]
    core = body[:-1]
    x = q["tparams"][0][0]
    pos = rng.randrange(len(core) + 1)
    rv = ["return", copy.deepcopy(ret[1])]
    b = ["assign", "_nm_b", _cond(x)]
    if kind == "m-return-in-then":
        new = [["if", _cond(x), [rv], [_inc(x)]]]
    elif kind == "m-return-in-else":
        new = [["if", _cond(x), [_inc(x)], [_inc(x, 2.0), rv]]]
    elif kind == "m-return-in-for":
        new = [["for", "_nm_i", ["lit", 2], [_inc(x), rv]]]
    elif kind == "m-return-in-while":
        new = [b, ["while", "_nm_b", [_inc(x), b, rv]]]
    elif kind == "m-return-in-if-in-for":
        new = [["for", "_nm_i", ["lit", 2], [_inc(x), ["if", _cond(x), [_inc(x)], [rv]]]]]
    elif kind == "m-return-in-for-in-if-in-while":
        new = [b, ["while", "_nm_b", [_inc(x), ["if", _cond(x), [["for", "_nm_i", ["lit", 2], [_inc(x), rv]]], [_inc(x)]], b]]]
    elif kind == "m-return-none":
        q["body"] = core + [["return", []]]
        return q
    elif kind == "m-bare-break-last":
        new = [["for", "_nm_i", ["lit", 3], [_inc(x), ["break"]]]]
    elif kind == "m-bare-break-middle":
        new = [["for", "_nm_i", ["lit", 3], [_inc(x), ["break"], _inc(x, 2.0)]]]
    elif kind == "m-break-in-else":
        new = [["for", "_nm_i", ["lit", 3], [b, ["if", ["var", "_nm_b"], [_inc(x)], [["break"]]]]]]
    elif kind == "m-break-in-nested-if":
        new = [["for", "_nm_i", ["lit", 3], [_inc(x), b, ["if", ["var", "_nm_b"], [["if", ["var", "_nm_b"], [["break"]], []]], []]]]]
    elif kind == "m-break-not-last":
        new = [["for", "_nm_i", ["lit", 3], [b, ["break_if", "_nm_b"], _inc(x)]]]
    elif kind == "m-break-cond-expression":
        new = [["for", "_nm_i", ["lit", 3], [_inc(x), ["if", _cond(x), [["break"]], []]]]]
    elif kind == "m-break-top-level-of-if-outside-loop-body":
        new = [["for", "_nm_i", ["lit", 3], [_inc(x), b, ["if", ["var", "_nm_b"], [_inc(x), ["break"]], []]]]]
    elif kind == "m-loop-only-break":
        new = [b, ["for", "_nm_i", ["lit", 3], [["break_if", "_nm_b"]]]]
    elif kind == "m-tuple-from-name":
        new = [["tassign", ["_nm_a", "_nm_c"], ["var", x]]]
    elif kind == "m-valid-break-last":
        new = [["for", "_nm_i", ["lit", 3], [_inc(x), b, ["break_if", "_nm_b"]]]]
    elif kind == "m-valid-nested":
        new = [b, ["while", "_nm_b", [_inc(x), ["if", _cond(x), [["for", "_nm_i", ["lit", 2], [_inc(x)]]], [_inc(x)]], b]]]
    else:
        raise KeyError(kind)
    q["body"] = core[:pos] + new + core[pos:] + [ret]
    return q


def src2(stmts, ind):
    """c01_gen.src_block + the bare ["break"] statement, blocks printed recursively by this function."""
    lines = []
    pad = "    " * ind
    for st in stmts:
        k = st[0]
        if k == "break":
            lines.append(pad + "break")
        elif k == "if":
            lines.append(f"{pad}if {c01_gen.strip_parens(c01_gen.src_expr(st[1]))}:")
            lines += src2(st[2], ind + 1)
            if st[3]:
                lines.append(f"{pad}else:")
                lines += src2(st[3], ind + 1)
        elif k == "for":
            lines.append(f"{pad}for {st[1]} in range({c01_gen.strip_parens(c01_gen.src_expr(st[2]))}):")
            lines += src2(st[3], ind + 1)
        elif k == "while":
            lines.append(f"{pad}while {st[1]}:")
            lines += src2(st[2], ind + 1)
        elif k == "return" and not st[1]:
            lines.append(pad + "return")
        else:
            lines += c01_gen.src_block([st], ind)
    return lines


def to_source2(q):
    """Module source of a program whose body may contain ["break"] / an empty return."""
    r = copy.deepcopy(q)
    r["body"] = [["raw", src2(q["body"], 0)]]
    return c01_gen.to_source(r)


def coq_block2(stmts):
    return "[" + "; ".join(coq_stmt2(st) for st in stmts) + "]"


def coq_stmt2(st):
    k = st[0]
    if k == "break":
        return "SBreak"
    if k == "if":
        return f"(SIf {c01_gen.coq_expr(st[1])} {coq_block2(st[2])} {coq_block2(st[3])})"
    if k == "for":
        return f"(SFor {c01_gen._cs(st[1])} {c01_gen.coq_expr(st[2])} {coq_block2(st[3])})"
    if k == "while":
        return f"(SWhile {c01_gen._cs(st[1])} {coq_block2(st[2])})"
    return c01_gen.coq_stmt(st)


def coq_func2(q):
    r = dict(q)
    r["body"] = []
    return c01_gen.coq_func(r).replace(" [])", f" {coq_block2(q['body'])})")


def path_lines(source, name):
    """[(path, line)] for every statement of function `name`; line 1 = the decorator line (what SourceInfo.msg prints).
    Path convention of coq/Script/Refuse.v: index in the body, then 0 = if-body / loop body, 1 = else-block, then the index."""
    import ast
    tree = ast.parse(source)
    fn = [n for n in tree.body if isinstance(n, ast.FunctionDef) and n.name == name][-1]
    first = min([d.lineno for d in fn.decorator_list] + [fn.lineno])
    out = []

    def walk(stmts, prefix):
        for k, st in enumerate(stmts):
            pth = prefix + [k]
            out.append((pth, st.lineno - first + 1))
            if isinstance(st, ast.If):
                walk(st.body, pth + [0])
                walk(st.orelse, pth + [1])
            elif isinstance(st, (ast.For, ast.While)):
                walk(st.body, pth + [0])
    walk(fn.body, [])
    return out


def loop_at_line_assigns_nothing(source, name, line):
    import ast
    tree = ast.parse(source)
    fn = [n for n in tree.body if isinstance(n, ast.FunctionDef) and n.name == name][-1]
    first = min([d.lineno for d in fn.decorator_list] + [fn.lineno])
    for n in ast.walk(fn):
        if isinstance(n, (ast.For, ast.While)) and n.lineno - first + 1 == line:
            return not any(isinstance(m, (ast.Assign, ast.AugAssign, ast.AnnAssign)) for b in n.body for m in ast.walk(b))
    return False


def real_class(exc, source, name):
    """(class name of coq/Script/Refuse.v, reported line) of a refusal of the real decorator; class "" = not one of the
    detector's classes."""
    msg = str(exc)
    rl = reported_line(exc)
    line = rl[1] if rl and rl[0] == "rel" else 0
    if "Return statements are not permitted inside control-flow" in msg:
        return "return-inside", line
    if "Return statement without a return value" in msg:
        return "return-none", line
    if "Unsupported statement type" in msg and "Break" in msg:
        return "break-misplaced", line
    if "Instruction break must be the last one" in msg:
        return "break-not-last", line
    if "Instruction break can be introduced with test" in msg:
        return "break-cond-not-name", line
    if "A loop must update at least one variable" in msg and loop_at_line_assigns_nothing(source, name, line):
        return "loop-no-assign", line
    if "RHS must be a Call expression for unpacking" in msg:
        return "tuple-not-call", line
    return "", line


def rcase_lit(q, source, exc):
    """Coq literal of one Refuse.rcase."""
    tbl = "[" + "; ".join("([" + "; ".join(str(i) for i in pth) + f"], {ln})" for pth, ln in path_lines(source, q["name"])) + "]"
    if exc is None:
        real = "None"
    else:
        cls, line = real_class(exc, source, q["name"])
        real = f'(Some ("{cls}", {line}))'
    return f"({coq_func2(q)}, {c01_gen.coq_globals(q, q)}, {tbl}, {real})"


if __name__ == "__main__":
    import collections
    import random
    import sys
    import traceback

    from harness import c01_run

    seeds = [int(a) for a in sys.argv[1:]] or [0, 1, 7]
    table = collections.defaultdict(collections.Counter)
    examples = {}
    for seed in seeds:
        rng = random.Random(seed)
        wd = c01_run.Workdir()
        try:
            for i in range(8):
                prog = c01_gen.gen_program(rng, i, straight=(i % 3 == 0))
                for kind in NEAR_MISS_KINDS2:
                    src = mutate2(prog, kind, rng)
                    mod, exc = c01_run.load(wd, f"nm_{seed}_{i}_{kind}".replace("-", "_"), src)
                    if exc is not None:
                        cls = c01_run.exc_class(exc)
                        has, okpos = position_ok(src, prog["name"], exc)
                        tag = f"refused:{cls}" + ("+pos" if okpos else ("+wrongpos" if has else "-nopos"))
                        if cls not in c01_run.DESCRIPTIVE:
                            tag = f"CRASH:{cls}@{c01_run.crash_site(exc)}"
                    else:
                        f = getattr(mod, prog["name"])
                        tag = "accepted:ok"
                        try:
                            fp = f.to_function_proto()
                            err = c01_run.check_function(fp, extra_imports=[("this", 1)])
                            if err:
                                tag = "accepted:check_function:" + err[:80]
                            else:
                                try:
                                    mp = f.to_model_proto()
                                    err = c01_run.check_model(mp)
                                    if err and "[...]" not in src:
                                        tag = "accepted:check_model:" + err[:80]
                                except ValueError as e:
                                    if "required attributes" not in str(e):
                                        tag = "accepted:to_model_proto:" + str(e)[:80]
                        except Exception as e:  # noqa: BLE001
                            tag = f"accepted:proto-raises:{type(e).__name__}:{str(e)[:60]}"
                    table[kind][tag] += 1
                    examples.setdefault((kind, tag), (src, "" if exc is None else "".join(traceback.format_exception_only(exc))[:600]))
        finally:
            wd.close()
    for kind in NEAR_MISS_KINDS2:
        print(f"{kind:45s} [{EXPECT[kind]:6s}] {dict(table[kind])}")
    if True:
        import json
        json.dump({f"{k}|{t}": v for (k, t), v in examples.items()}, open("/var/tmp/osv/b-c02/near_examples.json", "w"), indent=1)
