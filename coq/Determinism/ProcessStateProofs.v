From Coq Require Import List String Bool Arith.
Require Import OV.Determinism.KeyedCache OV.Determinism.KeyedCacheProofs OV.Determinism.ProcessState.
Import ListNotations.
Local Open Scope string_scope.
Local Open Scope list_scope.

Section ProcFacts.
  Variables T X K V R : Type.
  Variable T_eq_dec : forall a b : T, {a = b} + {a <> b}.
  Variable K_eq_dec : forall a b : K, {a = b} + {a <> b}.
  Variable k : T -> X -> K.
  Variable f : T -> X -> V.

  Definition all_ok (s : T -> list (K * V)) : Prop := forall t, table_ok X K V K_eq_dec (k t) (f t) (s t).

  Lemma fresh_ok : all_ok fresh.
  Proof. intros t key v H. discriminate. Qed.

  Lemma request_answer : forall t, factors_through_key (k t) (f t) ->
    forall m x, table_ok X K V K_eq_dec (k t) (f t) m -> fst (request K_eq_dec (k t) (f t) m x) = f t x.
  Proof.
    intros t Hf m x Hm. unfold request. destruct (find K_eq_dec (k t x) m) as [v|] eqn:E; cbn; auto.
    destruct (Hm _ _ E) as (y & Hk & ->). apply Hf. exact Hk.
  Qed.

  Lemma upd_ok : forall s t m, all_ok s -> table_ok X K V K_eq_dec (k t) (f t) m -> all_ok (upd_table T_eq_dec s t m).
  Proof. intros s t m Hs Hm t'. unfold upd_table. destruct (T_eq_dec t' t) as [->|]; auto. Qed.

  (* with completely keyed tables in a consistent state an operation computes `pure` and leaves the tables consistent *)
  Lemma run_pure : all_keyed_completely k f ->
    forall (o : op T X V R) s, all_ok s ->
      fst (run T_eq_dec K_eq_dec k f o s) = pure f o /\ all_ok (snd (run T_eq_dec K_eq_dec k f o s)).
  Proof.
    intros Hk. induction o as [r | t x cont IH]; intros s Hs.
    - cbn. split; auto.
    - cbn [run pure]. rewrite (request_answer t (Hk t) (s t) x (Hs t)).
      apply IH. apply upd_ok; auto. apply request_keeps_ok. apply Hs.
  Qed.

  Lemma after_ok : all_keyed_completely k f -> forall (h : list (op T X V R)) s, all_ok s -> all_ok (after T_eq_dec K_eq_dec k f h s).
  Proof.
    intros Hk. induction h as [|o r IH]; intros s Hs; cbn; auto.
    apply IH. apply (proj2 (run_pure Hk o s Hs)).
  Qed.

  (* an operation whose only access to process state is through completely keyed memo tables of (deterministic) functions
     gives the same result after every history of such operations as in a fresh process *)
  Theorem keyed_process_state_history_independent : all_keyed_completely k f ->
    process_history_independent (R := R) T_eq_dec K_eq_dec k f.
  Proof.
    intros Hk h o.
    rewrite (proj1 (run_pure Hk o _ (after_ok Hk h fresh fresh_ok))).
    rewrite (proj1 (run_pure Hk o fresh fresh_ok)). reflexivity.
  Qed.
End ProcFacts.

(* and only then (for one table): an incompletely keyed table makes some operation history dependent *)
Definition unit_eq_dec : forall a b : unit, {a = b} + {a <> b}.
Proof. decide equality. Defined.

Theorem incompletely_keyed_state_refuted :
  ~ process_history_independent (R := string * nat) unit_eq_dec string_dec bad_k bad_f.
Proof.
  intro H. specialize (H [ask_impl ("Unsqueeze", 11)] (ask_impl ("Unsqueeze", 18))). vm_compute in H. inversion H.
Qed.

(* translator data: a site whose discipline is KeyedBy with a covering key gives a completely keyed table for every
   computation that depends only on the parameters the source mentions *)
Theorem keyed_site_complete : forall s kp fp, ps_discipline s = KeyedBy kp fp -> site_controlled s = true ->
  forall (V : Type) (g : env -> V), depends_only_on g fp -> factors_through_key (project kp) g.
Proof.
  intros s kp fp Hd Hc V g Hg. unfold site_controlled in Hc. rewrite Hd in Hc.
  eapply key_params_cover_factor; [|exact Hg].
  intros p Hp. rewrite forallb_forall in Hc. specialize (Hc p Hp). unfold smem in Hc.
  rewrite existsb_exists in Hc. destruct Hc as (q & Hq & E). apply String.eqb_eq in E. now subst.
Qed.

(* non-vacuity: an operation that asks two tables *)
Example two_tables_pure :
  pure (fun (t : bool) (x : nat) => if t then x + 1 else x * 2)
       (Ask true 3 (fun a => Ask false a (fun b => Done (a, b)))) = (4, 8).
Proof. reflexivity. Qed.
