"""C20 -- saving with external data round-trips and never disturbs the in-memory model.

Model: coq/ExtData/Save.v (step sequence of torch_2_5.save_model_with_external_data -> onnx_ir.save with a fault
model on the k-th file-system call); theorems Props/C20.v.  Tie:
  * translator (regenerate): the guard and the data-file name derivation of torch_2_5.py are recognised by AST
    (fail-closed) and the guard's scope is written to Gen/C20Guard.v, which Props/C20.v requires;
  * correspondence: every generated model is saved by the real function with the k-th file-system call failing,
    for every k up to the number of calls seen in the fault-free run; outcome class, resulting data file bytes,
    model file entries (inline bytes / location, offset, length), invalidated tensors and the number of steps are
    compared with `run_save` evaluated in Coq;
  * direct oracle on each run: initializer const_value objects identical (`is`) and their bytes unchanged, other
    files untouched, refusal leaves the directory untouched, on success ir.load gives an equal model.
"""
from __future__ import annotations

import ast
import hashlib
import os
import shutil
import tempfile

import numpy as np

from harness import common
from harness.c20_fs import FaultFS
from harness.common import cbool, clist, cnat, copt, cstr, cz

PROPERTY = "C20"
LEVEL = "proof"

SRC = os.path.join(common.REPO, "onnxscript", "_framework_apis", "torch_2_5.py")
THRESHOLD = 256


# ----------------------------------------------------------------------------- translator (guard, file name)

def _src(node):
    return ast.unparse(node)


def analyse_source():
    """Return (all_graphs: bool, problems: [str]).  Recognises exactly the shapes described in Save.v."""
    problems = []
    tree = ast.parse(open(SRC).read())
    fn = next((n for n in tree.body if isinstance(n, ast.FunctionDef) and n.name == "save_model_with_external_data"), None)
    if fn is None:
        return None, ["save_model_with_external_data not found"]
    args = [a.arg for a in fn.args.args]
    if args[:2] != ["model", "model_path"]:
        problems.append(f"unexpected parameters {args}")
    all_graphs = None
    guard_line = raise_line = None
    save_lines = []
    name_ok = dest_ok = False
    other_calls = []
    for node in ast.walk(fn):
        if isinstance(node, ast.Assign) and len(node.targets) == 1 and isinstance(node.targets[0], ast.Name):
            tgt = node.targets[0].id
            if tgt == "uninitialized_values" and isinstance(node.value, ast.ListComp):
                lc = node.value
                gens = [(_src(g.target), _src(g.iter), [_src(c) for c in g.ifs]) for g in lc.generators]
                if gens == [("value", "model.graph.initializers.values()", ["value.const_value is None"])]:
                    all_graphs = False
                elif gens == [("graph", "model.graphs()", []),
                              ("value", "graph.initializers.values()", ["value.const_value is None"])]:
                    all_graphs = True
                else:
                    problems.append(f"guard comprehension not recognised: {gens}")
                guard_line = node.lineno
            elif tgt == "destination_path":
                dest_ok = _src(node.value) == "pathlib.Path(model_path)"
            elif tgt == "data_path":
                name_ok = _src(node.value) in ("f'{destination_path.name}.data'", 'f"{destination_path.name}.data"')
        if isinstance(node, ast.If) and _src(node.test) == "uninitialized_values":
            if node.body and isinstance(node.body[0], ast.Raise) and "ValueError" in _src(node.body[0]):
                raise_line = node.lineno
        if isinstance(node, ast.Call):
            f = _src(node.func)
            if f == "ir.save":
                save_lines.append(node.lineno)
                a = [_src(x) for x in node.args]
                kw = {k.arg: _src(k.value) for k in node.keywords}
                if a != ["model", "model_path"] or kw.get("external_data") != "data_path" or \
                        set(kw) - {"external_data", "callback"}:
                    problems.append(f"ir.save call not recognised: args={a} kw={kw}")
            elif f not in ("pathlib.Path", "importlib.util.find_spec", "tqdm.tqdm", "pbar.update", "pbar.set_description",
                           "tensor.dtype.short_name", "ValueError", "model.graph.initializers.values",
                           "graph.initializers.values", "model.graphs"):
                other_calls.append(f)
    if all_graphs is None and not problems:
        problems.append("guard comprehension `uninitialized_values = [...]` not found")
    if raise_line is None:
        problems.append("`if uninitialized_values: raise ValueError` not found")
    if not save_lines:
        problems.append("no ir.save(model, model_path, external_data=data_path) call")
    if guard_line and raise_line and save_lines and not (guard_line < raise_line < min(save_lines)):
        problems.append("guard does not precede every ir.save call")
    if not dest_ok:
        problems.append("destination_path = pathlib.Path(model_path) not found")
    if not name_ok:
        problems.append('data_path = f"{destination_path.name}.data" not found')
    if other_calls:
        problems.append(f"calls outside the modelled step sequence: {sorted(set(other_calls))}")
    return all_graphs, problems


def regenerate(ctx):
    all_graphs, problems = analyse_source()
    ctx._c20_all_graphs = bool(all_graphs)
    ctx._c20_problems = problems
    text = ("(* generated by harness/c20.py from onnxscript/_framework_apis/torch_2_5.py -- do not edit *)\n"
            "(* scope of the uninitialised-initializer guard: true = every graph of the model, false = model.graph only *)\n"
            f"Definition guard_all_graphs : bool := {cbool(bool(all_graphs))}.\n")
    ctx.gen("C20Guard", text)


# ----------------------------------------------------------------------------- model specs

DTYPES = ["float32", "float16", "float64", "int64", "int32", "int8", "uint8", "bool", "bfloat16", "int4", "uint16"]


def _np_dtype(name):
    import ml_dtypes
    return {"bfloat16": ml_dtypes.bfloat16, "int4": ml_dtypes.int4}.get(name) or np.dtype(name)


def _itemsize(name):
    return {"float32": 4, "float16": 2, "float64": 8, "int64": 8, "int32": 4, "int8": 1, "uint8": 1, "bool": 1,
            "bfloat16": 2, "uint16": 2}[name]


def _rand_bytes(rng, n):
    return bytes(rng.getrandbits(8) for _ in range(n))


SIZE_CLASSES = ["zero", "scalar", "small", "at256", "at257", "mid", "mid2"]


def _shape_for(rng, dtype, cls):
    it = _itemsize(dtype)
    if cls == "zero":
        return rng.choice([(0,), (0, 4), (3, 0)])
    if cls == "scalar":
        return ()
    if cls == "small":
        return (rng.randint(1, max(1, 200 // it)),)
    if cls == "at256":
        return (256 // it,)
    if cls == "at257":
        return (256 // it + 1,)
    if cls == "mid":
        n = rng.randint(260, 520) // it + 1
        return (n,)
    n = rng.randint(300, 700) // it + 1
    return (2, (n + 1) // 2)


def gen_spec(rng, idx, force=None):
    """One model: a list of initializer slot specs + files that exist before the save."""
    force = force or {}
    n_slots = force.get("n", rng.randint(1, 6))
    name = rng.choice(["m.onnx", "model.onnx", "a.b.onnx", "net"])
    dest_pre = force.get("dest_pre", rng.random() < 0.4)
    data_name = name + ".data"
    files = {}
    other = _rand_bytes(rng, rng.randint(700, 1400))
    files["other.bin"] = other
    if dest_pre:
        files[data_name] = _rand_bytes(rng, rng.randint(600, 1300))
    slots = []
    kinds = force.get("kinds")
    for j in range(n_slots):
        kind = kinds[j] if kinds else rng.choice(["np", "np", "np", "proto", "lazy", "custom", "packed4", "ext_other", "ext_other",
                                                  "ext_dest", "ext_small", "ext_zero", "string", "shared"])
        main = True if force.get("all_main") else rng.random() < 0.75
        s = {"name": f"w{j}", "main": main, "kind": kind, "as_input": main and rng.random() < 0.25}   # also listed in graph.inputs
        if kind == "shared" and not [t for t in slots if t["kind"] not in ("shared", "ext_dest") and t.get("file") != data_name]:
            kind = s["kind"] = "np"
        if kind == "ext_dest" and not dest_pre:
            kind = s["kind"] = "ext_other"
        if kind in ("np", "proto", "lazy", "custom"):
            dt = rng.choice([d for d in DTYPES if d != "int4"])
            cls = rng.choice(SIZE_CLASSES)
            shape = _shape_for(rng, dt, cls)
            nb = int(np.prod(shape)) * _itemsize(dt)
            raw = _rand_bytes(rng, nb)
            if dt == "bool":
                raw = bytes(b & 1 for b in raw)
            s.update(dtype=dt, shape=list(shape), data=raw, cls=cls)
        elif kind == "packed4":
            n = rng.choice([0, 1, 7, 8, 513, 600, 1025])
            raw = _rand_bytes(rng, (n + 1) // 2)
            if n % 2 and raw:
                raw = raw[:-1] + bytes([raw[-1] & 0x0F])
            s.update(dtype=rng.choice(["int4", "uint4"]), shape=[n], data=raw, cls="packed")
        elif kind in ("ext_other", "ext_dest", "ext_small", "ext_zero"):
            dt = rng.choice(["float32", "uint8", "int64", "float16"])
            it = _itemsize(dt)
            fname = data_name if kind == "ext_dest" or (kind == "ext_small" and dest_pre and rng.random() < 0.5) else "other.bin"
            flen = len(files[fname])
            if kind == "ext_zero":
                cnt = 0
            elif kind == "ext_small":
                cnt = rng.randint(1, 256 // it)
            else:
                cnt = rng.randint(256 // it + 1, min(flen, 560) // it)
            ln = cnt * it
            off = rng.randint(0, flen - ln)
            s.update(dtype=dt, shape=[cnt], file=fname, off=off, len=ln, data=files[fname][off:off + ln], cls=kind)
        elif kind == "string":
            total = rng.choice([0, 5, 100, 256])
            k = rng.randint(1, 3)
            parts, left = [], total
            for q in range(k):
                ln = left if q == k - 1 else rng.randint(0, left)
                parts.append(_rand_bytes(rng, ln))
                left -= ln
            s.update(dtype="string", shape=[k], parts=parts, data=b"".join(parts), cls="string")
        elif kind == "shared":
            # (one ExternalTensor object stored in the destination file and used by two initializers makes onnx_ir read it
            #  after it invalidated it: inside the documented source = destination exception, not generated)
            s.update(share=rng.choice([q for q, t in enumerate(slots) if t["kind"] not in ("shared", "ext_dest") and t.get("file") != data_name]))
            src = slots[s["share"]]
            s.update(dtype=src["dtype"], shape=src["shape"], data=src["data"], cls="shared")
        slots.append(s)
    return {"idx": idx, "name": name, "slots": slots, "files": files, "verbose": rng.random() < 0.35,
            "touch": False}


def _ir_dtype(ir, name):
    return {"float32": ir.DataType.FLOAT, "float16": ir.DataType.FLOAT16, "float64": ir.DataType.DOUBLE,
            "int64": ir.DataType.INT64, "int32": ir.DataType.INT32, "int8": ir.DataType.INT8, "uint8": ir.DataType.UINT8,
            "bool": ir.DataType.BOOL, "bfloat16": ir.DataType.BFLOAT16, "int4": ir.DataType.INT4, "uint4": ir.DataType.UINT4,
            "uint16": ir.DataType.UINT16, "string": ir.DataType.STRING}[name]


class BytesOnlyTensor:
    """A TensorProtocol implementation without tofile() (what third-party tensor wrappers look like)."""

    def __init__(self, ir, arr, name, dtype):
        self._arr = arr
        self.name = name
        self.dtype = dtype
        self.shape = ir.Shape(arr.shape)
        self.doc_string = None
        self.raw = arr
        self.metadata_props = {}
        self.meta = {}

    @property
    def size(self):
        return self._arr.size

    @property
    def nbytes(self):
        return self._arr.nbytes

    def numpy(self):
        return self._arr

    def __array__(self, dtype=None, copy=None):
        return self._arr if dtype is None else self._arr.astype(dtype)

    def tobytes(self):
        return self._arr.tobytes()


def build(spec, root):
    """Materialise the spec in directory `root`; returns (model, values in slot order, tensors in slot order)."""
    from onnxscript import ir
    for fname, content in spec["files"].items():
        with open(os.path.join(root, fname), "wb") as f:
            f.write(content)
    tensors = []
    for s in spec["slots"]:
        kind = s["kind"]
        if kind == "none":
            tensors.append(None)
            continue
        if kind == "shared":
            tensors.append(tensors[s["share"]])
            continue
        dt = _ir_dtype(ir, s["dtype"])
        if kind in ("np", "proto", "lazy", "custom"):
            arr = np.frombuffer(s["data"], dtype=_np_dtype(s["dtype"])).reshape(s["shape"]).copy()
            if kind == "np":
                t = ir.Tensor(arr, dtype=dt, name=s["name"])
            elif kind == "proto":
                t = ir.serde.deserialize_tensor(ir.serde.serialize_tensor(ir.Tensor(arr, dtype=dt, name=s["name"])))
            elif kind == "lazy":
                t = ir.LazyTensor((lambda a=arr, d=dt, n=s["name"]: ir.Tensor(a, dtype=d, name=n)), dtype=dt,
                                  shape=ir.Shape(arr.shape), name=s["name"])
            else:
                t = BytesOnlyTensor(ir, arr, s["name"], dt)
        elif kind == "packed4":
            n = s["shape"][0]
            t = ir.PackedTensor(np.frombuffer(s["data"], dtype=np.uint8).copy(), dtype=dt, shape=ir.Shape([n]), name=s["name"])
        elif kind.startswith("ext"):
            t = ir.ExternalTensor(s["file"], s["off"], s["len"], dt, shape=ir.Shape(s["shape"]), name=s["name"], base_dir=root)
        elif kind == "string":
            t = ir.StringTensor(np.array(s["parts"], dtype=object), name=s["name"])
        else:
            raise AssertionError(kind)
        tensors.append(t)
    x = ir.Value(name="x", type=ir.TensorType(ir.DataType.FLOAT), shape=ir.Shape([2]))
    c = ir.Value(name="c", type=ir.TensorType(ir.DataType.BOOL), shape=ir.Shape([]))
    values = []
    main_vals, sub_vals = [], []
    for s, t in zip(spec["slots"], tensors):
        v = ir.Value(name=s["name"], const_value=t, type=ir.TensorType(_ir_dtype(ir, s["dtype"])), shape=ir.Shape(s["shape"]))
        values.append(v)
        (main_vals if s["main"] else sub_vals).append(v)

    def ident_nodes(vals, tag):
        outs, nodes = [], []
        for v in vals:
            n = ir.node("Identity", [v], name=f"{tag}_{v.name}")
            n.outputs[0].name = f"{tag}_{v.name}_o"
            nodes.append(n)
            outs.append(n.outputs[0])
        return nodes, outs

    nodes, outs = ident_nodes(main_vals, "m")
    if sub_vals:
        def branch(nm, vals):
            bn, bo = ident_nodes(vals, nm)
            if not bo:
                n0 = ir.node("Identity", [x], name=nm + "_x")
                n0.outputs[0].name = nm + "_x_o"
                bn, bo = [n0], [n0.outputs[0]]
            return ir.Graph([], bo[:1], nodes=bn, initializers=vals, name=nm)
        half = (len(sub_vals) + 1) // 2
        n_if = ir.node("If", [c], attributes={"then_branch": branch("then_g", sub_vals[:half]),
                                              "else_branch": branch("else_g", sub_vals[half:])}, name="if0")
        n_if.outputs[0].name = "if_o"
        nodes.append(n_if)
        outs.append(n_if.outputs[0])
    if not outs:
        n0 = ir.node("Identity", [x], name="idx")
        n0.outputs[0].name = "idx_o"
        nodes.append(n0)
        outs.append(n0.outputs[0])
    also_inputs = [v for s, v in zip(spec["slots"], values) if s["main"] and s.get("as_input")]
    g = ir.Graph([x, c] + also_inputs, outs, nodes=nodes, initializers=main_vals, opset_imports={"": 20}, name="main_g")
    model = ir.Model(g, ir_version=10, producer_name="c20")
    # slot order of the Coq model = order in which ir.save snapshots: model.graphs() x initializers
    order = []
    for graph in model.graphs():
        order.extend(graph.initializers.values())
    pos = {id(v): i for i, v in enumerate(order)}
    perm = sorted(range(len(values)), key=lambda i: pos[id(values[i])])
    return model, values, tensors, perm


# ----------------------------------------------------------------------------- one real run

def tensor_bytes(t):
    from onnxscript import ir
    if isinstance(t, ir.StringTensor):
        return b"".join(t.string_data())
    if isinstance(t, ir.ExternalTensor) and t.size == 0:
        return b""  # onnx_ir: tobytes() of a zero-size ExternalTensor trips an internal assert (no mmap); nothing to read
    return t.tobytes()


def observe_model_file(path, spec, perm):
    """Entries of the written model file in slot order: (name, main, ('inline', bytes) | ('ext', loc, off, len))."""
    import onnx
    from onnxscript import ir
    p = onnx.load(path, load_external_data=False)
    found = {}
    count = 0

    def walk(g, main):
        nonlocal count
        for tp in g.initializer:
            count += 1
            if tp.data_location == onnx.TensorProto.EXTERNAL:
                kv = {e.key: e.value for e in tp.external_data}
                found[tp.name] = ("ext", kv["location"], int(kv.get("offset", 0) or 0), int(kv["length"]))
            elif tp.data_type == onnx.TensorProto.STRING:
                found[tp.name] = ("inline", b"".join(tp.string_data))
            else:
                found[tp.name] = ("inline", ir.serde.TensorProtoTensor(tp).tobytes())
        for n in g.node:
            for a in n.attribute:
                if a.type == onnx.AttributeProto.GRAPH:
                    walk(a.g, False)
    walk(p.graph, True)
    entries = []
    for i in perm:
        s = spec["slots"][i]
        if s["name"] in found:
            entries.append((s["name"], s["main"]) + (found[s["name"]],))
    return entries, count


def strip_initializers(proto):
    import onnx
    p = onnx.ModelProto()
    p.CopyFrom(proto)

    def walk(g):
        names = sorted(t.name for t in g.initializer)
        del g.initializer[:]
        for n in g.node:
            for a in n.attribute:
                if a.type == onnx.AttributeProto.GRAPH:
                    walk(a.g)
        return names
    walk(p.graph)
    return p.SerializeToString(deterministic=True)


def run_once(spec, k, api_name="save_model_with_external_data"):
    """Build the model in a fresh directory, save with the k-th file-system call failing, observe everything."""
    import importlib
    from onnxscript import ir
    api = importlib.import_module("onnxscript._framework_apis.torch_2_5")
    root = tempfile.mkdtemp(prefix="osverif-c20-")
    try:
        model, values, tensors, perm = build(spec, root)
        before_ids = [v.const_value for v in values]
        listing0 = {f: open(os.path.join(root, f), "rb").read() for f in sorted(os.listdir(root))}
        graph_before = strip_initializers(ir.serde.serialize_model(model)) if all(t is not None for t in tensors) else None
        mp = os.path.join(root, spec["name"])
        fsx = FaultFS(root, fail_at=k)
        exc = None
        with fsx:
            try:
                getattr(api, api_name)(model, mp, verbose=spec["verbose"])
            except BaseException as e:  # noqa: BLE001
                exc = e
        out = "OK" if exc is None else ("ErrValue" if isinstance(exc, ValueError) else ("ErrOS" if isinstance(exc, OSError) else "Other:" + type(exc).__name__))
        listing1 = {f: open(os.path.join(root, f), "rb").read() for f in sorted(os.listdir(root))}
        obs = {"out": out, "exc": repr(exc)[:300], "log": list(fsx.log), "fired": fsx.fired, "perm": perm,
               "files0": listing0, "files1": listing1}
        # direct oracle 1: identity of every const_value, bytes unchanged (except the documented overwrite class)
        data_name = spec["name"] + ".data"
        ident_bad, bytes_bad, invalid = [], [], []
        for i, (s, v, t0) in enumerate(zip(spec["slots"], values, before_ids)):
            if v.const_value is not t0:
                ident_bad.append(s["name"])
                continue
            if t0 is None:
                continue
            if isinstance(t0, ir.ExternalTensor) and not t0.valid():
                invalid.append(i)
                continue
            backed_by_dest = s["kind"].startswith("ext") and s.get("file") == data_name
            if backed_by_dest:
                continue  # its backing file is the file the caller asked to overwrite
            if s["kind"].startswith("ext") and s.get("file") not in spec["files"]:
                continue  # dangling reference: there never were bytes to read
            try:
                if tensor_bytes(t0) != s["data"]:
                    bytes_bad.append(s["name"])
            except Exception as e:  # noqa: BLE001
                bytes_bad.append(f"{s['name']}:{type(e).__name__}")
        obs.update(ident_bad=ident_bad, bytes_bad=bytes_bad, invalid=invalid)
        # structure of the in-memory model unchanged
        if graph_before is not None and not ident_bad and not invalid:
            try:
                obs["graph_same"] = strip_initializers(ir.serde.serialize_model(model)) == graph_before
            except Exception as e:  # noqa: BLE001
                obs["graph_same"] = f"{type(e).__name__}: {e}"
        # files
        obs["data_file"] = listing1.get(data_name)
        obs["model_file_present"] = spec["name"] in listing1
        obs["others_changed"] = [f for f in listing0 if f not in (data_name, spec["name"]) and listing1.get(f) != listing0[f]]
        obs["new_files"] = [f for f in listing1 if f not in listing0 and f not in (data_name, spec["name"])]
        if obs["model_file_present"] and len(listing1[spec["name"]]) == 0:
            obs["entries"] = None   # opened (truncated) but nothing written
        elif obs["model_file_present"]:
            try:
                obs["entries"], obs["n_init_in_file"] = observe_model_file(mp, spec, perm)
            except Exception as e:  # noqa: BLE001  (a half-written model file)
                obs["entries"] = None
                obs["entries_err"] = f"{type(e).__name__}: {e}"
        # direct oracle 2: round trip
        if out == "OK":
            try:
                m2 = ir.load(mp)
                got = {}
                for g in m2.graphs():
                    for name, v in g.initializers.items():
                        got[name] = None if v.const_value is None else (str(v.const_value.dtype), list(v.const_value.shape.numpy()), tensor_bytes(v.const_value))
                want = {}
                for s, t0 in zip(spec["slots"], before_ids):
                    want[s["name"]] = None if t0 is None else (str(_ir_dtype(ir, s["dtype"])), list(s["shape"]), s["data"])
                obs["rt_bad"] = sorted(n for n in set(got) | set(want) if got.get(n, "absent") != want.get(n, "absent"))
                obs["rt_graph_same"] = (graph_before is None) or strip_initializers(ir.serde.serialize_model(m2)) == graph_before
            except Exception as e:  # noqa: BLE001
                obs["rt_bad"] = [f"load failed: {type(e).__name__}: {e}"]
                obs["rt_graph_same"] = True
        return obs
    finally:
        shutil.rmtree(root, ignore_errors=True)


# ----------------------------------------------------------------------------- Coq literals

def cbytes(b):
    return "[" + ";".join(str(x) for x in b) + "]"


def cpath(name):
    return f'("d"%string, {cstr(name)})'


def coq_model(spec, perm):
    """Slots in snapshot order, with tensor ids = index of the distinct object."""
    tids = {}
    out = []
    for i in perm:
        s = spec["slots"][i]
        j = i
        while spec["slots"][j]["kind"] == "shared":
            j = spec["slots"][j]["share"]
        tid = tids.setdefault(j, len(tids) + 1)
        src = spec["slots"][j]
        if s["kind"] == "none":
            val = "None"
        elif src["kind"].startswith("ext"):
            val = f"(Some (Ext {cnat(tid)} {cpath(src['file'])} {cz(src['off'])} {cz(src['len'])}))"
        else:
            val = f"(Some (InMem {cnat(tid)} {cbytes(src['data'])}))"
        out.append(f"({cstr(s['name'])}, {cbool(s['main'])}, {val})")
    tid_of_slot = {}
    for i in range(len(spec["slots"])):
        j = i
        while spec["slots"][j]["kind"] == "shared":
            j = spec["slots"][j]["share"]
        tid_of_slot[i] = tids.get(j)
    return clist(out), tid_of_slot


def coq_fs(spec):
    return "mkfs " + clist([f"({cpath(f)}, FData {cbytes(c)})" for f, c in sorted(spec["files"].items())])


def coq_obs(spec, obs, tid_of_slot):
    out = {"OK": "OK", "ErrValue": "ErrValue", "ErrOS": "ErrOS"}[obs["out"]]
    df = "None" if obs["data_file"] is None else f"(Some (FData {cbytes(obs['data_file'])}))"
    if not obs["model_file_present"]:
        mf = "None"
    elif obs.get("entries") is None:
        mf = "(Some (FData []))"
    else:
        es = []
        for name, main, e in obs["entries"]:
            pt = f"PInline {cbytes(e[1])}" if e[0] == "inline" else f"PExt {cstr(e[1])} {cz(e[2])} {cz(e[3])}"
            es.append(f"({cstr(name)}, {cbool(main)}, {pt})")
        mf = f"(Some (FModel {clist(es)}))"
    inv = clist([cnat(tid_of_slot[i]) for i in obs["perm"] if i in obs["invalid"]])
    return f"({out}, {df}, {mf}, {inv})"


# ----------------------------------------------------------------------------- the check

def eval_shards(ctx, requires, bodies, par=8):
    """ctx.coq_eval in parallel (one distinct file name per shard)."""
    from concurrent.futures import ThreadPoolExecutor
    with ThreadPoolExecutor(max_workers=par) as ex:
        return list(ex.map(lambda ib: ctx.coq_eval(requires, ib[1], name=f"c20_shard{ib[0]}"), enumerate(bodies)))


def _with_uninit(spec, main, as_input, pos):
    """Copy of the spec with one initializer left without a value: in the main graph or a subgraph, also a graph input or
    not, first / middle / last among the initializers of that graph (an extra one is inserted when none can be blanked)."""
    s2 = dict(spec)
    s2["slots"] = [dict(s) for s in spec["slots"]]
    cands = [i for i, s in enumerate(s2["slots"]) if s["main"] == main and s["kind"] != "none" and not any(
        t["kind"] == "shared" and t["share"] == i for t in s2["slots"])]
    blank = {"name": "u_extra", "main": main, "kind": "none", "dtype": "float32", "shape": [1], "data": b"", "cls": "none"}
    if not cands:
        # keep `share` indices valid: only append
        s2["slots"].append(blank)
        i = len(s2["slots"]) - 1
    else:
        i = {"first": cands[0], "last": cands[-1]}.get(pos, cands[len(cands) // 2])
        s2["slots"][i].update(kind="none", cls="none", data=b"")
    s2["slots"][i]["as_input"] = bool(main and as_input)
    s2["uninit"] = {"graph": "main" if main else "subgraph", "also_graph_input": bool(main and as_input), "position": pos,
                    "other_large_tensors": any(len(s.get("data", b"")) > THRESHOLD for s in s2["slots"])}
    return s2


def uninit_variants(rng, spec):
    """Near-miss stream: the same model with one initializer left without a value."""
    pos = rng.choice(["first", "middle", "last"])
    return [(True, _with_uninit(spec, True, False, pos)), (True, _with_uninit(spec, True, True, rng.choice(["first", "middle", "last"]))),
            (False, _with_uninit(spec, False, False, pos))]


def uninit_grid(rng):
    """main / subgraph x also-a-graph-input x position x (with / without other large tensors), on two fixed bases."""
    small = gen_spec(rng, "grid-small", {"n": 4, "kinds": ["np", "np", "np", "np"], "dest_pre": False})
    for j, s in enumerate(small["slots"]):
        s.update(dtype="float32", shape=[3], data=_rand_bytes(rng, 12), cls="small", main=j < 2, as_input=False)
    large = gen_spec(rng, "grid-large", {"n": 5, "kinds": ["np", "np", "np", "np", "np"], "dest_pre": False})
    for j, s in enumerate(large["slots"]):
        s.update(dtype="float32", shape=[100], data=_rand_bytes(rng, 400), cls="mid", main=j < 3, as_input=False)
    out = []
    for base in (small, large):
        for pos in ("first", "middle", "last"):
            out.append((True, _with_uninit(base, True, False, pos)))
            out.append((True, _with_uninit(base, True, True, pos)))
            out.append((False, _with_uninit(base, False, False, pos)))
    return out


def check_direct(ctx, spec, k, obs, uninit=None):
    """The property itself on one real run.  Returns True when nothing is wrong."""
    ok = True
    rep = {"spec": _spec_for_replay(spec), "fault_at": k, "outcome": obs["out"], "exception": obs["exc"], "fs_calls": obs["log"][:40]}
    where = "no-fault" if k is None else "fault"
    if obs["ident_bad"]:
        ok = False
        ctx.violation(f"C20:restore:{where}:const_value-replaced", f"after the save initializers {obs['ident_bad']} hold a different tensor object", rep)
    if obs["bytes_bad"]:
        ok = False
        ctx.violation(f"C20:restore:{where}:tensor-bytes-changed", f"tensors {obs['bytes_bad']} no longer give their original bytes", rep)
    if obs.get("graph_same") not in (None, True):
        ok = False
        ctx.violation(f"C20:restore:{where}:graph-changed", f"in-memory model serialises differently after the save ({obs['graph_same']})", rep)
    if obs["others_changed"]:
        ok = False
        ctx.violation(f"C20:files:{where}:unrelated-file-touched", f"files changed {obs['others_changed']}", rep)
    if obs["new_files"]:  # not what the model says (<name>.data next to the model file), but not by itself a failure of the property
        ctx.tie_broken("correspondence", "files-created", f"files other than {spec['name']} and {spec['name']}.data were created: {obs['new_files']}")
    if obs["out"].startswith("Other"):
        ok = False
        key = "C20:save-raises:" + obs["out"].split(":", 1)[1]
        ctx.violation(key, f"save raised {obs['exc']}", rep)
    if uninit is not None:
        refused_clean = obs["out"] == "ErrValue" and obs["files1"] == obs["files0"] and not obs["log"]
        if not refused_clean:
            ok = False
            scope = "main-graph" if uninit else "subgraph"
            if uninit and (spec.get("uninit") or {}).get("also_graph_input"):
                scope = "main-graph-input"
            ctx.violation(f"C20:guard:uninitialized-{scope}-initializer",
                          f"a model whose {scope} has an initializer without a value is not refused before any I/O: outcome {obs['out']}, "
                          f"file-system calls made {len(obs['log'])}, files now {sorted(obs['files1'])}", rep)
    elif obs["out"] == "OK":
        if obs.get("rt_bad") or not obs.get("rt_graph_same", True):
            ok = False
            ctx.violation("C20:roundtrip:load-differs", f"ir.load of the saved model differs: initializers {obs.get('rt_bad')} graph_same={obs.get('rt_graph_same')}", rep)
    elif obs["out"] == "ErrValue" and k is None:
        big_string = any(s["kind"] == "string" and len(s["data"]) > THRESHOLD for s in spec["slots"])
        ok = False
        if big_string:
            ctx.violation("C20:string-initializer-over-threshold:save-raises-ValueError",
                          "a STRING initializer larger than the external-data threshold makes the save raise ValueError after creating the data file", rep)
        else:
            ctx.violation("C20:save-raises:ValueError-on-initialised-model", f"save raised {obs['exc']} without any fault", rep)
    elif obs["out"] == "ErrOS" and k is None and not _has_dangling(spec):
        ok = False
        ctx.violation("C20:save-raises:OSError-without-fault", f"save raised {obs['exc']} without any fault", rep)
    return ok


def _has_dangling(spec):
    return any(s["kind"].startswith("ext") and s.get("file") not in spec["files"] for s in spec["slots"])


def _spec_for_replay(spec):
    return {"name": spec["name"], "verbose": spec["verbose"], "files": {f: len(c) for f, c in spec["files"].items()},
            "uninitialised": spec.get("uninit"),
            "slots": [{k: (v.hex() if isinstance(v, bytes) and len(v) <= 64 else (f"<{len(v)} bytes sha1 {hashlib.sha1(v).hexdigest()[:10]}>" if isinstance(v, bytes) else
                                                                              ([p.hex() for p in v] if k == "parts" else v)))
                       for k, v in s.items()} for s in spec["slots"]]}


def fixed_specs(rng):
    """Hand-picked corners that must always be present."""
    sp = []
    sp.append(gen_spec(rng, 0, {"n": 4, "kinds": ["np", "np", "np", "np"], "dest_pre": False, "all_main": True}))
    sp.append(gen_spec(rng, 1, {"n": 5, "kinds": ["ext_dest", "np", "ext_small", "ext_other", "ext_zero"], "dest_pre": True}))
    sp.append(gen_spec(rng, 2, {"n": 5, "kinds": ["packed4", "custom", "lazy", "proto", "shared"], "dest_pre": True}))
    sp.append(gen_spec(rng, 3, {"n": 3, "kinds": ["string", "np", "ext_dest"], "dest_pre": True}))
    # dangling external reference (source file missing): fails by itself with OSError, must still restore
    d = gen_spec(rng, 4, {"n": 3, "kinds": ["np", "ext_other", "np"], "dest_pre": False})
    for s in d["slots"]:
        if s["kind"] == "ext_other":
            s["file"] = "missing.bin"
    sp.append(d)
    # STRING initializer above the external-data threshold (known finding: onnx_ir tries to write it to the data file)
    b = gen_spec(rng, 5, {"n": 2, "kinds": ["np", "string"], "dest_pre": False, "all_main": True})
    for s in b["slots"]:
        if s["kind"] == "string":
            s["parts"] = [_rand_bytes(rng, 200), _rand_bytes(rng, 100)]
            s["shape"] = [2]
            s["data"] = b"".join(s["parts"])
    sp.append(b)
    return sp


def witness_spec():
    """The witness of Props/C20.v C20_guard_main_graph_only_refuted, as a real model."""
    return {"idx": "witness", "name": "m.onnx", "files": {}, "verbose": False, "touch": False,
            "slots": [{"name": "w", "main": True, "kind": "np", "dtype": "uint8", "shape": [257], "data": bytes([1]) * 257, "cls": "at257"},
                      {"name": "u", "main": False, "kind": "none", "dtype": "float32", "shape": [1], "data": b"", "cls": "none"}]}


def run(ctx):
    ctx.assume("file system = map path -> bytes under one directory, no symlinks/hard links (os.path.samefile = path equality), "
               "the directory exists and is writable; only the instrumented calls (open/write/flush/close/os.replace...) can fail, "
               "a failing call has no effect, exactly one call fails per run")
    ctx.assume("protobuf + onnx_ir.serde round trip of the model file is not modelled byte-wise: the model file is the list of "
               "(initializer name, graph, inline bytes | location/offset/length); measured on every successful save by ir.load and onnx.load")
    ctx.assume("ExternalTensor.nbytes = length field; tensor.nbytes = len(tobytes()) (checked on every generated tensor); "
               "external source files are either missing or long enough (short files not exercised)")
    ctx.assume("under the fault injector data is written with file.write(tensor.tobytes()) (the proxy hides fileno()); the "
               "numpy array.tofile(fd) fast path of onnx_ir is exercised only by the uninstrumented fault-free run")
    ctx.assume("a tensor that is externally stored in the very data file the caller asks to overwrite is outside 'still backed by "
               "its original data' (ir.save documents that it is invalidated); theorem C20_external_source_overwrite states exactly which tensors these are")
    ctx.trust("onnx_ir 1.0.0 _io.save / external_data.unload_from_model (outside /repo): modelled from its source, tied by the correspondence on every run")
    if not hasattr(ctx, "_c20_problems"):
        regenerate(ctx)
    for p in ctx._c20_problems:
        ctx.tie_broken("translator", "torch_2_5.py:save_model_with_external_data", p)
    ctx.obligation("translator: guard comprehension, ValueError before any ir.save, data file name derivation recognised in torch_2_5.py",
                   not ctx._c20_problems, "; ".join(ctx._c20_problems))
    ag = ctx._c20_all_graphs
    ctx.check_props()

    rng = ctx.rng
    n_models = 14 if ctx.tier == "quick" else 110
    specs = fixed_specs(rng)
    while len(specs) < n_models:
        specs.append(gen_spec(rng, len(specs)))
    # drop over-threshold strings from the modelled stream (handled by the direct oracle as a finding of its own)
    coq_defs, coq_cases, meta = [], [], []
    n_faults = n_runs = 0
    kinds_seen = {}
    out_classes = {}
    for spec in specs:
        for s in spec["slots"]:
            kinds_seen[s["cls"] if "cls" in s else s["kind"]] = kinds_seen.get(s.get("cls", s["kind"]), 0) + 1
        # nbytes assumption
        base = run_once(spec, None)
        n_runs += 1
        nsteps = len(base["log"])
        big_string = any(s["kind"] == "string" and len(s["data"]) > THRESHOLD for s in spec["slots"])
        unknown = [l for l in base["log"] if l[0] not in ("openr", "openw", "write", "close")]
        if unknown:
            ctx.tie_broken("correspondence", "fs-calls", f"file-system calls outside the model: {unknown[:5]}")
        check_direct(ctx, spec, None, base)
        out_classes[base["out"]] = out_classes.get(base["out"], 0) + 1
        ctx.case(("nofault", tuple(sorted({s.get("cls", s["kind"]) for s in spec["slots"]})), base["out"]))
        mi = len(coq_defs)
        mtxt, tid_of_slot = coq_model(spec, base["perm"])
        coq_defs.append(f"Definition M{mi} : list slot := {mtxt}.\nDefinition fs{mi} : fsys := {coq_fs(spec)}.\nDefinition mp{mi} : path := {cpath(spec['name'])}.")
        modelled = not big_string
        if modelled:
            # step count compared on success only (after a call that fails by itself the injector also logs the clean-up close)
            steps_ok = f" && Nat.eqb (r_steps (run_save ag M{mi} mp{mi} fs{mi} None)) {cnat(nsteps)}" if base["out"] == "OK" else ""
            coq_cases.append(f"agrees ag M{mi} mp{mi} fs{mi} None {coq_obs(spec, base, tid_of_slot)}" + steps_ok)
            meta.append((spec["idx"], None, base["out"], nsteps))
        # every fault point
        for k in range(nsteps):
            o = run_once(spec, k)
            n_runs += 1
            n_faults += 1
            if not o["fired"]:
                ctx.tie_broken("correspondence", "fault-injector", f"model {spec['idx']}: step {k} not reached in the faulted run (non-deterministic call sequence)")
                continue
            check_direct(ctx, spec, k, o)
            kind = o["log"][k][0]
            ctx.case(("fault", kind, o["out"], bool(o["invalid"]), o["data_file"] is not None, o["model_file_present"]))
            out_classes[o["out"]] = out_classes.get(o["out"], 0) + 1
            if o["out"] == "OK":
                ctx.violation("C20:fault-swallowed", f"file-system call {k} ({kind}) failed but the save reported success",
                              {"spec": _spec_for_replay(spec), "fault_at": k, "fs_calls": o["log"][:40]})
            if modelled and not o["out"].startswith("Other"):
                coq_cases.append(f"agrees ag M{mi} mp{mi} fs{mi} (Some {cnat(k)}) {coq_obs(spec, o, tid_of_slot)}")
                meta.append((spec["idx"], k, o["out"], kind))
        # near misses: uninitialised initializer
        extra = ([(False, witness_spec())] + uninit_grid(rng)) if spec is specs[0] else []
        for main, s2 in uninit_variants(rng, spec) + extra:
            o = run_once(s2, None)
            n_runs += 1
            check_direct(ctx, s2, None, o, uninit=main)
            u = s2.get("uninit", {})
            ctx.case(("uninit", "main" if main else "sub", u.get("also_graph_input"), u.get("position"), u.get("other_large_tensors"), o["out"]))
            if not any(s["kind"] == "string" and len(s["data"]) > THRESHOLD for s in s2["slots"]) and not o["out"].startswith("Other"):
                mj = len(coq_defs)
                mtxt2, tid2 = coq_model(s2, o["perm"])
                coq_defs.append(f"Definition M{mj} : list slot := {mtxt2}.\nDefinition fs{mj} : fsys := {coq_fs(s2)}.\nDefinition mp{mj} : path := {cpath(s2['name'])}.")
                steps2 = f" && Nat.eqb (r_steps (run_save ag M{mj} mp{mj} fs{mj} None)) {cnat(len(o['log']))}" if o["out"] != "ErrOS" else ""
                coq_cases.append(f"agrees ag M{mj} mp{mj} fs{mj} None {coq_obs(s2, o, tid2)}" + steps2)
                meta.append((s2["idx"], "uninit-" + ("main" if main else "sub"), o["out"], len(o["log"])))
    ctx.sample({"model": _spec_for_replay(specs[1]), "fault_free_calls": run_once(specs[1], None)["log"]})

    # model evaluation in Coq, sharded
    shard = 120
    bodies = []
    spans = []
    for a in range(0, len(coq_cases), shard):
        part = coq_cases[a:a + shard]
        used = sorted({int(x) for c in part for x in __import__("re").findall(r"\bM(\d+)\b", c)})
        body = "Definition ag : bool := guard_all_graphs.\n" + "\n".join(coq_defs[u] for u in used) + \
               "\nDefinition cases : list bool := " + clist(part) + ".\nEval vm_compute in (disagreeing 0 cases).\n"
        bodies.append(body)
        spans.append(a)
    ctx.build(["ExtData/Save.vo", "Gen/C20Guard.vo"])
    results = eval_shards(ctx, ["OV.ExtData.Save", "OV.Gen.C20Guard"], bodies)
    bad = []
    for a, (ok, vals, raw) in zip(spans, results):
        if not ok or not vals:
            ctx.tie_broken("correspondence", "model-evaluation", raw[-1200:])
            continue
        bad += [a + i for i in common.parse_nat_list(vals[0])]
    for i in bad[:10]:
        ctx.tie_broken("correspondence", "save-steps", f"model {meta[i][0]} fault {meta[i][1]}: real outcome/files {meta[i][2:]} differ from run_save")
    ctx.obligation("correspondence: outcome, data file bytes, model file entries, invalidated tensors, step count = run_save (Coq) on every run",
                   not bad and bool(coq_cases), f"{len(bad)} disagreeing of {len(coq_cases)}")
    ctx.cover(models=len(specs), fault_points=n_faults, real_runs=n_runs, coq_cases=len(coq_cases), model_disagreements=len(bad),
              slot_classes=dict(sorted(kinds_seen.items())), outcomes=dict(sorted(out_classes.items())), guard_all_graphs=ag,
              generator="slots: numpy/TensorProto/Lazy/bytes-only/packed-int4/string/shared in-memory tensors of 11 dtypes x sizes "
                        "{0, scalar, <256, =256, 257, 300-700 bytes}; external tensors backed by another file, by the destination data file, "
                        "small, zero-size, dangling; main-graph and If-subgraph initializers; destination data file pre-existing or not; verbose on/off")
    layout_stream(ctx)
    rlimit_stream(ctx, specs[:4] + specs[6:8 if ctx.tier == "quick" else 30])
    if ctx.tier == "thorough":
        ctx.coqchk(["Props.C20"])


def layout_stream(ctx):
    """Offsets/lengths chosen by the real save for tensors above the 1 MiB alignment threshold vs `layout` in Coq."""
    from onnxscript import ir
    import importlib
    import onnx
    api = importlib.import_module("onnxscript._framework_apis.torch_2_5")
    rng = ctx.rng
    cases = []
    n = 2 if ctx.tier == "quick" else 6
    for c in range(n):
        sizes = [rng.choice([300, 1000, 70000, 1048576, 1048577, 1200000, 1500001]) for _ in range(rng.randint(2, 4))]
        if not any(s > 1048576 for s in sizes):
            sizes.append(1048577 + rng.randint(0, 5000))
        root = tempfile.mkdtemp(prefix="osverif-c20-")
        try:
            vals = []
            for j, sz in enumerate(sizes):
                arr = np.full(sz, j + 1, dtype=np.uint8)
                vals.append(ir.Value(name=f"b{j}", const_value=ir.Tensor(arr, name=f"b{j}")))
            nodes = []
            for v in vals:
                nd = ir.node("Identity", [v], name="n_" + v.name)
                nd.outputs[0].name = v.name + "_o"
                nodes.append(nd)
            g = ir.Graph([], [nd.outputs[0] for nd in nodes], nodes=nodes, initializers=vals, opset_imports={"": 20}, name="g")
            m = ir.Model(g, ir_version=10)
            before = [v.const_value for v in vals]
            mp = os.path.join(root, "big.onnx")
            api.save_model_with_external_data(m, mp)
            if any(v.const_value is not b for v, b in zip(vals, before)):
                ctx.violation("C20:restore:no-fault:const_value-replaced", "large-tensor model: const_value objects differ after save", {"sizes": sizes})
            p = onnx.load(mp, load_external_data=False)
            obs = []
            for tp in p.graph.initializer:
                kv = {e.key: e.value for e in tp.external_data}
                obs.append((int(kv.get("offset", 0) or 0), int(kv["length"])))
            m2 = ir.load(mp)
            for j, sz in enumerate(sizes):
                a = m2.graph.initializers[f"b{j}"].const_value.numpy()
                if a.shape != (sz,) or not (a == j + 1).all():
                    ctx.violation("C20:roundtrip:load-differs", f"large tensor b{j} ({sz} bytes) differs after load", {"sizes": sizes})
            fsize = os.path.getsize(mp + ".data")
            its = clist([f"({cnat(j)}, Ext 0%nat (\"d\"%string, \"x\"%string) 0%Z {cz(sz)})" for j, sz in enumerate(sizes)])
            want = clist([f"({cnat(j)}, {cz(o)}, {cz(l)})" for j, (o, l) in enumerate(obs)])
            cases.append((its, want, sizes, obs, fsize))
            ctx.case(("layout", tuple(s > 1048576 for s in sorted(sizes))))
        finally:
            shutil.rmtree(root, ignore_errors=True)
    body = ("Definition lay_eqb (a b : list (nat * Z * Z)) : bool := "
            "forallb (fun e => existsb (fun f => Nat.eqb (fst (fst e)) (fst (fst f)) && Z.eqb (snd (fst e)) (snd (fst f)) && Z.eqb (snd e) (snd f)) b) a "
            "&& Nat.eqb (List.length a) (List.length b).\n"
            "Definition cases : list bool := " + clist([f"lay_eqb (layout 0 (sort_items {its})) {want}" for its, want, *_ in cases]) + ".\n"
            "Eval vm_compute in (disagreeing 0 cases).\n")
    ok, vals, raw = ctx.coq_eval(["OV.ExtData.Save"], body)
    if not ok:
        ctx.tie_broken("correspondence", "layout-evaluation", raw[-800:])
        return
    bad = common.parse_nat_list(vals[0])
    for i in bad:
        ctx.tie_broken("correspondence", "layout", f"sizes {cases[i][2]}: real offsets/lengths {cases[i][3]} differ from `layout`")
    ctx.obligation("correspondence: offsets/lengths incl. 64 KiB alignment of tensors > 1 MiB = layout (Coq)", not bad)
    ctx.cover(layout_cases=len(cases))


def rlimit_stream(ctx, specs):
    """Faults raised by the operating system itself (RLIMIT_FSIZE -> EFBIG on the write that crosses the limit), with
    no injector in the way: exercises onnx_ir's array.tofile(fd) path.  Only the property is observed here."""
    import importlib
    import resource
    import signal
    from onnxscript import ir
    api = importlib.import_module("onnxscript._framework_apis.torch_2_5")
    old_handler = signal.signal(signal.SIGXFSZ, signal.SIG_IGN)
    soft, hard = resource.getrlimit(resource.RLIMIT_FSIZE)
    n = errs = swallowed = 0
    try:
        for spec in specs:
            if _has_dangling(spec) or any(s["kind"] == "string" and len(s["data"]) > THRESHOLD for s in spec["slots"]):
                continue
            total = sum(len(s["data"]) for s in spec["slots"] if s["kind"] != "shared")
            for limit in sorted({0, 1, 100, 257, 300, max(1, total // 2), total + 50}):
                root = tempfile.mkdtemp(prefix="osverif-c20-")
                try:
                    model, values, tensors, perm = build(spec, root)
                    before = [v.const_value for v in values]
                    exc = None
                    resource.setrlimit(resource.RLIMIT_FSIZE, (limit, hard))
                    try:
                        api.save_model_with_external_data(model, os.path.join(root, spec["name"]), verbose=spec["verbose"])
                    except BaseException as e:  # noqa: BLE001
                        exc = e
                    finally:
                        resource.setrlimit(resource.RLIMIT_FSIZE, (soft, hard))
                    n += 1
                    errs += exc is not None
                    ctx.case(("rlimit", type(exc).__name__ if exc else "OK"))
                    rep = {"spec": _spec_for_replay(spec), "rlimit_fsize": limit, "exception": repr(exc)[:200]}
                    bad = [s["name"] for s, v, b in zip(spec["slots"], values, before) if v.const_value is not b]
                    if bad:
                        ctx.violation("C20:restore:os-fault:const_value-replaced", f"after a save that hit EFBIG initializers {bad} hold a different tensor object", rep)
                    data_name = spec["name"] + ".data"
                    for s, t0 in zip(spec["slots"], before):
                        if t0 is None or (s["kind"].startswith("ext") and s.get("file") == data_name):
                            continue
                        if tensor_bytes(t0) != s["data"]:
                            ctx.violation("C20:restore:os-fault:tensor-bytes-changed", f"tensor {s['name']} no longer gives its original bytes", rep)
                    if exc is not None and not isinstance(exc, OSError):
                        ctx.violation("C20:save-raises:" + type(exc).__name__, f"save under RLIMIT_FSIZE={limit} raised {exc!r}", rep)
                    if exc is None:
                        mp = os.path.join(root, spec["name"])
                        entries, _cnt = observe_model_file(mp, spec, perm)
                        need = max([e[2][2] + e[2][3] for e in entries if e[2][0] == "ext"] + [0])
                        have = os.path.getsize(mp + ".data") if os.path.exists(mp + ".data") else 0
                        if have < need:
                            # numpy's ndarray.tofile(fileobj) loses the error of a write that fails when its C buffer is
                            # flushed (arrays below the stdio buffer size): no Python-level call fails, so this is outside
                            # the property's fault model; counted, reported in the evidence, not a violation
                            swallowed += 1
                            continue
                        m2 = ir.load(mp)
                        got = {name: tensor_bytes(v.const_value) for g in m2.graphs() for name, v in g.initializers.items()}
                        want = {s["name"]: s["data"] for s in spec["slots"]}
                        if got != want:
                            ctx.violation("C20:roundtrip:load-differs", "ir.load differs after a save under a file-size limit that reported success", rep)
                finally:
                    shutil.rmtree(root, ignore_errors=True)
    finally:
        resource.setrlimit(resource.RLIMIT_FSIZE, (soft, hard))
        signal.signal(signal.SIGXFSZ, old_handler)
    ctx.cover(os_fault_runs=n, os_fault_errors=errs, os_fault_lost_inside_numpy_tofile=swallowed)
    ctx.obligation("generator: RLIMIT_FSIZE stream produced both failing and succeeding saves", 0 < errs < n, f"{errs} of {n}")
