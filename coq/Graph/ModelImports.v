(* Opset imports of a whole ModelProto (C02, session 6 round 3): the main graph AND the bodies of the model-local
   functions.  A function is given as (its own import list, its body as a graph).

     model_imports_ok imports main funs = true  when
       - the model's import list names no domain twice and covers every domain used by a node of the main graph
         (any nesting depth)                                              [imports_ok imports main]
       - for every model-local function: its own import list names no domain twice and covers every domain used in
         its body                                                          [imports_ok fimports body]
       - and every domain used in the body of a model-local function is imported by the MODEL too: the functions
         are part of the model, a runtime resolves the nodes of a function body against the model's imports when it
         inlines / instantiates the function (onnxruntime: "No opset import for domain ...").

   No proofs here (Graph/ModelImportsProofs.v). *)
From Coq Require Import List String Bool.
Require Import OV.Graph.Syntax OV.Graph.Wf.
Import ListNotations.

Definition mfun := (list string * graph)%type.

Definition fun_imports_ok (imports : list string) (f : mfun) : bool :=
  imports_ok (fst f) (snd f) && subset (domains_graph (snd f)) imports.

Definition model_imports_ok (imports : list string) (main : graph) (funs : list mfun) : bool :=
  imports_ok imports main && forallb (fun_imports_ok imports) funs.

(* every domain some node of the model has, main graph first *)
Definition model_domains (main : graph) (funs : list mfun) : list string :=
  domains_graph main ++ flat_map (fun f => domains_graph (snd f)) funs.
