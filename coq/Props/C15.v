(* C15 property theorems: statements only, each closed by `exact`, Print Assumptions beneath.
   Wrappers: Serde/Wrappers.v (disciplines regenerated from the source into Gen/C15Wrappers.v); ser/deser/pass are
   arbitrary functions (Section variables) -- the laws a theorem needs are its hypotheses.  The 2400-line
   onnx_ir.serde implementation itself is measured by the harness (byte equality, inclusion checker below), not proved. *)
From Coq Require Import ZArith List Bool String.
Require Import OV.Serde.Wrappers OV.Serde.WrappersProofs OV.Gen.C15Wrappers.
Require Import OV.Serde.Tree OV.Serde.TreeProofs OV.Serde.Packing OV.Serde.PackingProofs.
Import ListNotations.

(* proto(f) M = serialize (ir(f) (deserialize M)) for optimize, fold_constants, remove_unused_nodes,
   remove_unused_functions, rewrite (non-empty rules), replace_functions -- with the copy-back each has in the source *)
Theorem C15_wrappers_alike : forall (G Fs O R IR : Type) (no_funcs : Fs) (ser : IR -> proto G Fs O R) (deser : proto G Fs O R -> IR) w,
  In w [src_optimize; src_fold_constants; src_remove_unused_nodes; src_remove_unused_functions; src_rewrite; src_replace_functions] ->
  forall other r f M, result_of _ _ _ _ (run_proto G Fs O R no_funcs IR ser deser w other f M)
                      = ser (iarg_after IR (run_ir IR r f (deser M))).
Proof. exact src_alike. Qed.
Print Assumptions C15_wrappers_alike.

(* optimize / rewrite / replace_functions leave their ModelProto argument unchanged and return a new proto *)
Theorem C15_functional_variants_pure : forall (G Fs O R IR : Type) (no_funcs : Fs) (ser : IR -> proto G Fs O R) (deser : proto G Fs O R -> IR) w,
  In w [src_optimize; src_rewrite; src_replace_functions] ->
  forall other f M, arg_after _ _ _ _ (run_proto G Fs O R no_funcs IR ser deser w other f M) = M /\
                    returned _ _ _ _ (run_proto G Fs O R no_funcs IR ser deser w other f M) = RetNew (ser (f (deser M))).
Proof. exact src_functional_pure. Qed.
Print Assumptions C15_functional_variants_pure.

(* fold_constants / remove_unused_nodes / remove_unused_functions overwrite the proto they were given *)
Theorem C15_inplace_variants_mutate : forall (G Fs O R IR : Type) (no_funcs : Fs) (ser : IR -> proto G Fs O R) (deser : proto G Fs O R -> IR) w,
  In w [src_fold_constants; src_remove_unused_nodes; src_remove_unused_functions] ->
  forall other f M, arg_after _ _ _ _ (run_proto G Fs O R no_funcs IR ser deser w other f M) = ser (f (deser M)) /\
                    returned _ _ _ _ (run_proto G Fs O R no_funcs IR ser deser w other f M) = (if other then RetOther else RetNone).
Proof. exact src_inplace_mutates. Qed.
Print Assumptions C15_inplace_variants_mutate.

Theorem C15_convert_version_inplace : forall (G Fs O R IR : Type) (no_funcs : Fs) (ser : IR -> proto G Fs O R) (deser : proto G Fs O R -> IR) other f M,
  p_graph _ _ _ _ (arg_after _ _ _ _ (run_proto G Fs O R no_funcs IR ser deser src_convert_version other f M))
    = p_graph _ _ _ _ (ser (f (deser M))) /\
  returned _ _ _ _ (run_proto G Fs O R no_funcs IR ser deser src_convert_version other f M) = (if other then RetOther else RetNone).
Proof. exact src_convert_version_inplace. Qed.
Print Assumptions C15_convert_version_inplace.

(* the IR forms mutate the ir.Model they are given *)
Theorem C15_ir_form_mutates : forall (IR : Type) r (f : IR -> IR) m,
  iarg_after IR (run_ir IR r f m) = f m /\ ireturned IR (run_ir IR r f m) = r.
Proof. exact ir_form_mutates. Qed.
Print Assumptions C15_ir_form_mutates.

(* rewrite(model, []) hands the argument back in both forms; alike up to N = serialize o deserialize *)
Theorem C15_rewrite_empty_rules : forall (G Fs O R IR : Type) (ser : IR -> proto G Fs O R) (deser : proto G Fs O R -> IR) M,
  returned _ _ _ _ (run_empty_rules G Fs O R M) = RetArg /\ result_of _ _ _ _ (run_empty_rules G Fs O R M) = M /\
  N G Fs O R IR ser deser (result_of _ _ _ _ (run_empty_rules G Fs O R M)) = ser (iarg_after IR (run_ir_empty_rules IR (deser M))).
Proof. exact empty_rules_alike. Qed.
Print Assumptions C15_rewrite_empty_rules.

(* convert_version(ModelProto): fields-only copy-back is alike exactly when nothing that changed is left behind *)
Theorem C15_convert_version_alike_iff : forall (G Fs O R IR : Type) (no_funcs : Fs) (ser : IR -> proto G Fs O R) (deser : proto G Fs O R -> IR)
  cf co other f M,
  result_of _ _ _ _ (run_proto G Fs O R no_funcs IR ser deser (FieldsOnly cf co) other f M) = ser (f (deser M)) <->
  (p_rest _ _ _ _ M = p_rest _ _ _ _ (ser (f (deser M))) /\
   (co = true \/ p_opset _ _ _ _ M = p_opset _ _ _ _ (ser (f (deser M)))) /\
   (cf = true \/ no_funcs = p_funcs _ _ _ _ (ser (f (deser M))))).
Proof. exact fields_only_alike_iff. Qed.
Print Assumptions C15_convert_version_alike_iff.

(* for the copy-back the source has now: the alike statement (normalised input, pass leaves the other fields alone)
   holds if graph, functions and opset_import are all copied back, and is refuted otherwise *)
Theorem C15_convert_version_current_source : cv_statement src_convert_version.
Proof. exact src_convert_version_statement. Qed.
Print Assumptions C15_convert_version_current_source.

Theorem C15_convert_version_all_copybacks : forall w, cv_statement w.
Proof. exact cv_statement_holds. Qed.
Print Assumptions C15_convert_version_all_copybacks.

(* the inclusion checker run on (M, N(M)) and on (untouched part of N(M), f(M)): every populated field reappears
   at the same place with the same value; ordered lists keep their length; keyed containers keep their keys *)
Theorem C15_includes_sound : forall a b, includes a b = true ->
  forall p v, get a p = Some (Leaf v) -> get b p = Some (Leaf v).
Proof. exact includes_sound. Qed.
Print Assumptions C15_includes_sound.

Theorem C15_includes_seq_length : forall a b, includes a b = true ->
  forall p l, get a p = Some (Seq l) -> exists l', get b p = Some (Seq l') /\ List.length l' = List.length l.
Proof. exact includes_seq_length. Qed.
Print Assumptions C15_includes_seq_length.

Theorem C15_includes_keys : forall a b, includes a b = true ->
  forall p fs k c, get a p = Some (Node fs) -> lookup k fs = Some c ->
  exists fs' c', get b p = Some (Node fs') /\ lookup k fs' = Some c'.
Proof. exact includes_keys. Qed.
Print Assumptions C15_includes_keys.

(* int4 / uint4 two-per-byte packing: unpack n (pack l) = l for every length incl. odd and 0 *)
Open Scope Z_scope.
Theorem C15_pack_unpack_uint4 : forall l, Forall (fun e => 0 <= e < 16) l -> unpack4 (List.length l) (pack4 l) = l.
Proof. exact unpack4_pack4. Qed.
Print Assumptions C15_pack_unpack_uint4.

Theorem C15_pack_unpack_int4 : forall l, Forall (fun e => -8 <= e <= 7) l ->
  map sext4 (unpack4 (List.length l) (pack4 l)) = l.
Proof. exact unpack4_pack4_signed. Qed.
Print Assumptions C15_pack_unpack_int4.

Theorem C15_pack4_shape : forall l,
  List.length (pack4 l) = Nat.div2 (S (List.length l)) /\ Forall (fun b => 0 <= b < 256) (pack4 l).
Proof. exact (fun l => conj (pack4_length l) (pack4_bytes l)). Qed.
Print Assumptions C15_pack4_shape.

Theorem C15_pack4_padding_zero : forall l, Nat.odd (List.length l) = true -> last (pack4 l) 0 / 16 = 0.
Proof. exact pack4_padding_zero. Qed.
Print Assumptions C15_pack4_padding_zero.

(* int2 / uint2 four-per-byte packing *)
Theorem C15_pack_unpack_uint2 : forall l, Forall (fun e => 0 <= e < 4) l -> unpack2 (List.length l) (pack2 l) = l.
Proof. exact unpack2_pack2. Qed.
Print Assumptions C15_pack_unpack_uint2.

Theorem C15_pack_unpack_int2 : forall l, Forall (fun e => -2 <= e <= 1) l ->
  map sext2 (unpack2 (List.length l) (pack2 l)) = l.
Proof. exact unpack2_pack2_signed. Qed.
Print Assumptions C15_pack_unpack_int2.
