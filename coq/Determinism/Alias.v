(* C14 -- "script-time constants are fixed when the decorator runs", with shared memory.
   Snapshot.v treats the value of a name as one object.  A numpy array is a *view*: an object that selects
   cells of a buffer which other objects may select as well (a.view(), a[1:4], a.T, np.broadcast_to(a, ..),
   np.frombuffer(bytearray), a memory map, the arrays inside a tuple).  Each object carries its own
   `writeable` flag; the flag of one view says nothing about the other views of the same buffer.
   Requirement stated here: the captured constant is a deep copy -- no cell of it is reachable from an
   object outside the decorated function.  The aliasing relation is explicit: (value, base) are related by
   `shares_memory` when they select a common cell of the same buffer; mutations after decoration are
   rebindings of names and writes through ANY object (MWrite w j z: "w[j] = z"), not only through the
   object the script referred to.
   No proofs in this file (AliasProofs.v). *)
From Coq Require Import List String ZArith Bool Arith.
Import ListNotations.
Local Open Scope string_scope.

Definition buf := nat.
Record arr := { a_buf : buf; a_idx : list nat; a_writeable : bool }.
Record mem := { m_cells : buf -> list Z; m_next : buf }.

(* item j of object a is cell (nth j (a_idx a)) of buffer (a_buf a) *)
Definition read (m : mem) (a : arr) : list Z := map (fun i => nth i (m_cells m (a_buf a)) 0%Z) (a_idx a).

(* the aliasing relation (value, base) *)
Definition shares_memory (v b : arr) : bool :=
  Nat.eqb (a_buf v) (a_buf b) && existsb (fun i => existsb (Nat.eqb i) (a_idx b)) (a_idx v).

Fixpoint set_nth {A : Type} (n : nat) (x : A) (l : list A) : list A :=
  match l, n with
  | [], _ => []
  | _ :: t, 0 => x :: t
  | h :: t, S k => h :: set_nth k x t
  end.

Definition write_cell (m : mem) (b : buf) (i : nat) (z : Z) : mem :=
  {| m_cells := fun b' => if Nat.eqb b' b then set_nth i z (m_cells m b) else m_cells m b';
     m_next := m_next m |}.

Definition ns := string -> option arr.

Inductive mutation :=
| MRebind (n : string) (a : arr)          (* NAME = another object *)
| MWrite (w : arr) (j : nat) (z : Z).      (* w[j] = z through object w (numpy raises when w is read-only: nothing changes) *)

Definition apply1 (mu : mutation) (st : ns * mem) : ns * mem :=
  match mu with
  | MRebind n a => (fun k => if String.eqb k n then Some a else fst st k, snd st)
  | MWrite w j z =>
      if a_writeable w
      then match nth_error (a_idx w) j with
           | Some i => (fst st, write_cell (snd st) (a_buf w) i z)
           | None => st                       (* IndexError *)
           end
      else st
  end.
Definition apply (ms : list mutation) (st : ns * mem) : ns * mem := fold_left (fun s mu => apply1 mu s) ms st.

(* every bound name refers to an allocated buffer *)
Definition wf (g : ns) (m : mem) : Prop := forall n a, g n = Some a -> a_buf a < m_next m.

(* what the decorator does with an array it evaluates as a script-time constant *)
Inductive policy :=
| NoCopy               (* ir.tensor(pyvalue): the tensor wraps the caller's array *)
| CopyIfWriteable      (* `if pyvalue.flags.writeable: pyvalue = pyvalue.copy()` *)
| CopyAlways.          (* pyvalue = pyvalue.copy() *)

(* a copy: a new buffer holding the items as they are now; nobody else knows the new buffer *)
Definition copy_into (m : mem) (a : arr) : arr * mem :=
  ({| a_buf := m_next m; a_idx := seq 0 (List.length (a_idx a)); a_writeable := false |},
   {| m_cells := fun b => if Nat.eqb b (m_next m) then read m a else m_cells m b; m_next := S (m_next m) |}).

Definition capture1 (p : policy) (m : mem) (a : arr) : arr * mem :=
  match p with
  | NoCopy => (a, m)
  | CopyIfWriteable => if a_writeable a then copy_into m a else (a, m)
  | CopyAlways => copy_into m a
  end.

(* the names the script refers to are captured one after the other *)
Fixpoint capture (p : policy) (names : list string) (g : ns) (m : mem) : list (string * arr) * mem :=
  match names with
  | [] => ([], m)
  | n :: r =>
      match g n with
      | None => capture p r g m
      | Some a =>
          let c := capture1 p m a in
          let rest := capture p r g (snd c) in
          ((n, fst c) :: fst rest, snd rest)
      end
  end.

Fixpoint assoc (n : string) (l : list (string * arr)) : option arr :=
  match l with [] => None | (k, a) :: r => if String.eqb n k then Some a else assoc n r end.

(* the body of a script function reads the values of outer names; None = the evaluation raises *)
Definition body := (string -> option (list Z)) -> Z -> option Z.
Definition respects (b : body) : Prop :=
  forall v1 v2, (forall n, v1 n = v2 n) -> forall x, b v1 x = b v2 x.

Record scriptfn := { f_body : body; f_consts : list (string * arr) }.

Definition decorate (p : policy) (b : body) (names : list string) (g : ns) (m : mem) : scriptfn * mem :=
  let c := capture p names g m in ({| f_body := b; f_consts := fst c |}, snd c).

Definition view (f : scriptfn) (now : mem) : string -> option (list Z) :=
  fun n => option_map (read now) (assoc n (f_consts f)).
Definition denote (f : scriptfn) (now : ns * mem) (x : Z) : option Z := f_body f (view f (snd now)) x.

(* a mutation made by the rest of the program: it cannot name the buffers [lo, hi) the decorator allocated for itself
   (everything that existed before, and everything allocated later, is allowed -- in particular every alias of the
   objects the script referred to) *)
Definition outside (lo hi : buf) (mu : mutation) : Prop :=
  match mu with
  | MRebind _ _ => True
  | MWrite w _ _ => a_buf w < lo \/ hi <= a_buf w
  end.

(* the clause, for a copy policy *)
Definition later_results_fixed_alias (p : policy) : Prop :=
  forall (b : body) (names : list string) (g : ns) (m : mem), respects b -> wf g m ->
  forall (ms : list mutation), Forall (outside (m_next m) (m_next (snd (decorate p b names g m)))) ms ->
  forall x, denote (fst (decorate p b names g m)) (apply ms (g, snd (decorate p b names g m))) x =
            denote (fst (decorate p b names g m)) (g, snd (decorate p b names g m)) x.

(* ... restricted to scripts that refer only to arrays whose own flag is `flag` *)
Definition all_flag (flag : bool) (names : list string) (g : ns) : Prop :=
  forall n a, In n names -> g n = Some a -> a_writeable a = flag.
Definition later_results_fixed_alias_on (flag : bool) (p : policy) : Prop :=
  forall (b : body) (names : list string) (g : ns) (m : mem), respects b -> wf g m -> all_flag flag names g ->
  forall (ms : list mutation), Forall (outside (m_next m) (m_next (snd (decorate p b names g m)))) ms ->
  forall x, denote (fst (decorate p b names g m)) (apply ms (g, snd (decorate p b names g m))) x =
            denote (fst (decorate p b names g m)) (g, snd (decorate p b names g m)) x.

(* the captured constants are the values at decoration time *)
Definition captures_decoration_values (p : policy) : Prop :=
  forall (b : body) (names : list string) (g : ns) (m : mem), wf g m ->
  forall n, In n names ->
    view (fst (decorate p b names g m)) (snd (decorate p b names g m)) n = option_map (read m) (g n).

(* prediction for one observation: the script refers to an array whose own flag is `writeable` and that shares memory
   with a writable base; the base is written after decoration; does the result survive? *)
Definition predict_alias (p : policy) (writeable : bool) : bool :=
  match p with
  | CopyAlways => true
  | CopyIfWriteable => writeable
  | NoCopy => false
  end.
Definition explains_alias (p : policy) (obs : list (bool * bool)) : bool :=
  forallb (fun o => Bool.eqb (predict_alias p (fst o)) (snd o)) obs.
Definition consistent_alias (obs : list (bool * bool)) : list policy :=
  filter (fun p => explains_alias p obs) [NoCopy; CopyIfWriteable; CopyAlways].
Definition policy_code (p : policy) : nat := match p with NoCopy => 0 | CopyIfWriteable => 1 | CopyAlways => 2 end.

(* translator data (Gen/CapturePolicy.v): the policy of each place where a script-time constant enters the function *)
Definition is_always (p : policy) : bool := match p with CopyAlways => true | _ => false end.
Definition weak_policies (l : list (string * policy)) : list string :=
  map fst (filter (fun sp => negb (is_always (snd sp))) l).

(* witnesses: TABLE is a view of buffer 0 = [10; 20]; the owner keeps a writable object on the same buffer *)
Definition ex_mem : mem := {| m_cells := fun b => match b with 0 => [10; 20]%Z | _ => [] end; m_next := 1 |}.
Definition ex_base : arr := {| a_buf := 0; a_idx := [0; 1]; a_writeable := true |}.
Definition ex_ro_view : arr := {| a_buf := 0; a_idx := [0; 1]; a_writeable := false |}.
Definition ex_ns (a : arr) : ns := fun n => if String.eqb n "TABLE" then Some a else None.
Definition ex_body : body := fun v x =>
  match v "TABLE" with Some (t :: _) => Some (x + t)%Z | _ => None end.
