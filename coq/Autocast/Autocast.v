(* C12 -- model of literal promotion (autocast) in the three front ends of onnxscript.

   Anchors:  onnxscript/_internal/autocast.py   cast_inputs (two passes), static_cast_inputs,
                                                dynamic_cast_inputs, cast_pyvalue_to_os_tensor, _get_dtype
             onnxscript/_internal/converter.py  _emit_const / _castable  (Constant at ir.tensor(pyvalue))
             onnxscript/_internal/tape_builder.py  BuilderBase._cast_inputs / _input_to_ir_value
             onnxscript/_internal/builder.py    GraphBuilder._get_or_create_constant, _constant_cache
             onnx_ir/schemas.py                 _convert_formal_parameter (name of the type constraint)

   No proofs in this file (they are in AutocastProofs.v); everything is computable. *)
From Coq Require Import ZArith NArith List Bool String Ascii.
Import ListNotations.
Open Scope string_scope.

(* ------------------------------------------------------------------------------------------ *)
(* results                                                                                    *)

(* MixedList = the front end refuses the literal with an exception other than OverflowError *)
Inductive error := TooManyArgs | Overflow | Undefined | Unmodelled | MixedList.
Inductive result (A : Type) := OK (a : A) | Err (e : error).
Arguments OK {A} a.
Arguments Err {A} e.

Definition bind {A B} (r : result A) (f : A -> result B) : result B :=
  match r with OK a => f a | Err e => Err e end.

Fixpoint mapM {A B} (f : A -> result B) (l : list A) : result (list B) :=
  match l with
  | [] => OK []
  | a :: t => bind (f a) (fun b => bind (mapM f t) (fun bs => OK (b :: bs)))
  end.

(* ------------------------------------------------------------------------------------------ *)
(* element types: the ONNX TensorProto.DataType code                                          *)

Definition dtype := N.
Definition FLOAT : dtype := 1%N.
Definition UINT8 : dtype := 2%N.
Definition INT64 : dtype := 7%N.
Definition BOOL : dtype := 9%N.
Definition DOUBLE : dtype := 11%N.

(* how np.array(python value, dtype) / ONNX Cast treat a dtype.  Exact model for the integer types,
   BOOL and the float types wide enough to hold the modelled literals exactly; everything else
   (STRING, complex, float8, float4, 4-bit ints, ...) is COther: dtype modelled, value not. *)
Inductive dclass := CInt (signed : bool) (bits : Z) | CFloat | CBool | COther.

Definition dclass_of (d : dtype) : dclass :=
  match d with
  | 1%N => CFloat            (* FLOAT *)
  | 2%N => CInt false 8      (* UINT8 *)
  | 3%N => CInt true 8       (* INT8 *)
  | 4%N => CInt false 16     (* UINT16 *)
  | 5%N => CInt true 16      (* INT16 *)
  | 6%N => CInt true 32      (* INT32 *)
  | 7%N => CInt true 64      (* INT64 *)
  | 9%N => CBool             (* BOOL *)
  | 10%N => CFloat           (* FLOAT16 *)
  | 11%N => CFloat           (* DOUBLE *)
  | 12%N => CInt false 32    (* UINT32 *)
  | 13%N => CInt false 64    (* UINT64 *)
  | 16%N => CFloat           (* BFLOAT16 *)
  | _ => COther
  end.

(* ------------------------------------------------------------------------------------------ *)
(* Python literals                                                                            *)

(* SFloat neg m e  =  (-1)^neg * m / 2^e  in lowest terms (float.as_integer_ratio); -0.0 = SFloat true 0 0 *)
Inductive scalar := SInt (z : Z) | SFloat (neg : bool) (m e : N) | SBool (b : bool).
(* a number/bool, a non-empty flat list of them, or a rectangular NESTED list (depth >= 2) given by its
   elements in row-major order (the shape plays no part in any decision; the harness compares the
   rank directly).  The empty list is not promotable (autocast._promotable; ir.tensor refuses it). *)
Inductive literal := LScalar (s : scalar) | LList (hd : scalar) (tl : list scalar)
                   | LNested (hd : scalar) (tl : list scalar).

Inductive pykind := KInt | KFloat | KBool.
Definition kind_of (s : scalar) : pykind :=
  match s with SInt _ => KInt | SFloat _ _ _ => KFloat | SBool _ => KBool end.
Definition head_of (l : literal) : scalar := match l with LScalar s => s | LList h _ | LNested h _ => h end.
Definition scalars_of (l : literal) : list scalar :=
  match l with LScalar s => [s] | LList h t | LNested h t => h :: t end.
Definition is_list (l : literal) : bool := match l with LScalar _ => false | _ => true end.
Definition is_nested (l : literal) : bool := match l with LNested _ _ => true | _ => false end.

(* autocast._get_dtype / ir.tensor inference / builder._PYTHON_TYPE_TO_DTYPE (+ ir.tensor for bool):
   int -> INT64, float -> FLOAT, bool -> BOOL; a list by its first element *)
Definition default_of_kind (k : pykind) : dtype :=
  match k with KInt => INT64 | KFloat => FLOAT | KBool => BOOL end.
Definition default_dtype (l : literal) : dtype := default_of_kind (kind_of (head_of l)).

Definition kind_eqb (a b : pykind) : bool :=
  match a, b with KInt, KInt | KFloat, KFloat | KBool, KBool => true | _, _ => false end.
(* builder: all(isinstance(v, type(value[0])) ...) -- bool is a subclass of int, so [1, True] passes *)
Definition isinstance_kind (v head : pykind) : bool :=
  match head, v with
  | KInt, KInt | KInt, KBool | KFloat, KFloat | KBool, KBool => true
  | _, _ => false
  end.
(* GraphBuilder._get_or_create_constant: scalars, and flat lists with
   `all(isinstance(v, type(value[0])) for v in value) and isinstance(value[0], (int, float, bool, str))`,
   take the cached-initializer path; every other value (nested list, list mixing types) falls through to
   `self.initializer(ir.tensor(value, dtype=dtype))` *)
Definition builder_list_ok (l : literal) : bool :=
  match l with
  | LScalar _ => true
  | LList h t => forallb (fun v => isinstance_kind (kind_of v) (kind_of h)) t
  | LNested _ _ => false
  end.

(* ir.tensor(value) with no dtype (onnx_ir._convenience._constructors.tensor): what the converter's
   _emit_const creates, and the builder's fall-through path when no dtype is bound.
     int (not bool) -> INT64; float -> FLOAT; a flat sequence of non-bool ints -> INT64, of floats -> FLOAT;
     anything else -> numpy's own inference: all bools -> BOOL, any float -> DOUBLE (float64), else INT64.
   A nested list is never "a sequence of ints/floats" (its elements are lists): numpy inference. *)
Definition all_kind (k : pykind) (ss : list scalar) : bool := forallb (fun v => kind_eqb (kind_of v) k) ss.
Definition any_float (ss : list scalar) : bool := existsb (fun v => kind_eqb (kind_of v) KFloat) ss.
Definition numpy_infer (ss : list scalar) : dtype :=
  if all_kind KBool ss then BOOL else if any_float ss then DOUBLE else INT64.
Definition ir_default_dtype (l : literal) : dtype :=
  match l with
  | LScalar s => default_of_kind (kind_of s)
  | LList h t => if all_kind KInt (h :: t) then INT64
                 else if all_kind KFloat (h :: t) then FLOAT
                 else numpy_infer (h :: t)
  | LNested h t => numpy_infer (h :: t)
  end.
(* a literal on which the two default rules coincide and which the builder caches: every scalar and every
   flat list whose elements have one Python type (AutocastProofs.plain_of_homog) *)
Definition plainb (l : literal) : bool :=
  builder_list_ok l && N.eqb (ir_default_dtype l) (default_dtype l).

(* ------------------------------------------------------------------------------------------ *)
(* values of tensor elements and the two conversion paths                                     *)

Inductive value := VI (z : Z) | VF (neg : bool) (m e : N) | VB (b : bool).

Definition in_range (signed : bool) (bits : Z) (z : Z) : bool :=
  if signed then (- 2 ^ (bits - 1) <=? z)%Z && (z <? 2 ^ (bits - 1))%Z
  else (0 <=? z)%Z && (z <? 2 ^ bits)%Z.

(* two's complement wrap-around: what Cast int64 -> narrower/unsigned int does in onnxruntime and
   onnx.reference (C / NumPy astype) *)
Definition wrap (signed : bool) (bits : Z) (z : Z) : Z :=
  let m := (2 ^ bits)%Z in
  let r := (z mod m)%Z in
  if signed && (2 ^ (bits - 1) <=? r)%Z then (r - m)%Z else r.

Definition trunc_float (neg : bool) (m e : N) : Z :=
  let q := Z.of_N (N.shiftr m e) in if neg then (- q)%Z else q.
Definition b2z (b : bool) : Z := if b then 1%Z else 0%Z.
Definition z2f (z : Z) : value := VF (z <? 0)%Z (Z.to_N (Z.abs z)) 0%N.

(* np.array(python scalar, dtype=d): eager mode (cast_pyvalue_to_os_tensor) and ir.tensor(value, dtype)
   (builder with a known sibling dtype).  NumPy 2: a Python int out of range raises OverflowError. *)
Definition np_cast_scalar (s : scalar) (d : dtype) : result value :=
  match dclass_of d with
  | CInt sg bits =>
      match s with
      | SInt z => if in_range sg bits z then OK (VI z) else Err Overflow
      | SFloat n m e => let z := trunc_float n m e in
                        if in_range sg bits z then OK (VI z) else Err Undefined
      | SBool b => OK (VI (b2z b))
      end
  | CFloat =>
      OK (match s with
          | SInt z => z2f z
          | SFloat n m e => VF n m e
          | SBool b => z2f (b2z b)
          end)
  | CBool =>
      OK (VB (match s with
              | SInt z => negb (z =? 0)%Z
              | SFloat _ m _ => negb (m =? 0)%N
              | SBool b => b
              end))
  | COther => Err Unmodelled
  end.

(* ONNX Cast / CastLike applied to an element of a Constant (converter; builder with unknown dtype) *)
Definition onnx_cast (v : value) (d : dtype) : result value :=
  match dclass_of d with
  | CInt sg bits =>
      match v with
      | VI z => OK (VI (wrap sg bits z))
      | VF n m e => let z := trunc_float n m e in
                    if in_range sg bits z then OK (VI z) else Err Undefined
      | VB b => OK (VI (b2z b))
      end
  | CFloat =>
      OK (match v with
          | VI z => z2f z
          | VF n m e => VF n m e
          | VB b => z2f (b2z b)
          end)
  | CBool =>
      OK (VB (match v with
              | VI z => negb (z =? 0)%Z
              | VF _ m _ => negb (m =? 0)%N
              | VB b => b
              end))
  | COther => Err Unmodelled
  end.

Definition np_cast (l : literal) (d : dtype) : result (list value) :=
  mapM (fun s => np_cast_scalar s d) (scalars_of l).

(* variant w = true (proposed_fixes/ready/C12_01_...): the Python value is converted with C / ONNX Cast
   semantics (np.asarray(value).astype(dtype)): a Python int wraps modulo 2^bits instead of raising *)
Definition np_cast_scalar_v (w : bool) (s : scalar) (d : dtype) : result value :=
  match w, dclass_of d, s with
  | true, CInt sg bits, SInt z => OK (VI (wrap sg bits z))
  | _, _, _ => np_cast_scalar s d
  end.
Definition np_cast_v (w : bool) (l : literal) (d : dtype) : result (list value) :=
  mapM (fun s => np_cast_scalar_v w s d) (scalars_of l).
Definition cast_like (l : literal) (d0 d : dtype) : result (list value) :=
  bind (np_cast l d0) (mapM (fun v => onnx_cast v d)).

(* ------------------------------------------------------------------------------------------ *)
(* schemas (regenerated into Gen/Schemas.v from onnx.defs on every run)                        *)

Inductive okind := OSingle | OOptional | OVariadic.
Record formal := mkF { f_name : string; f_tstr : string; f_opt : okind; f_homog : bool }.
(* type constraints: name -> bit mask of allowed tensor element types (bit k = DataType code k;
   bit 0 set = the constraint also allows a non-tensor type: seq(...), optional(...), map(...)) *)
Record schema := mkS { s_name : string; s_ver : N; s_formals : list formal; s_tcs : list (string * N) }.

Fixpoint has_paren (s : string) : bool :=
  match s with
  | EmptyString => false
  | String c r => Ascii.eqb c "("%char || has_paren r
  end.

Definition is_typevar (s : schema) (t : string) : bool := existsb (String.eqb t) (map fst (s_tcs s)).
Definition is_variadic (f : formal) : bool := match f_opt f with OVariadic => true | _ => false end.
Definition hetero (f : formal) : bool := is_variadic f && negb (f_homog f).

(* position information: the binding key used by autocast.cast_inputs (the *name of the
   ir.schemas.TypeConstraintParam*: the type variable, or -- onnx_ir._convert_formal_parameter -- the
   parameter's own name when its type_str is a concrete type), the key used by the builder
   (the raw type_str), and the specification's notion: the type constraint this position shares
   with its siblings, if any. *)
Record pinfo := mkP { p_akey : option string; p_bkey : option string; p_skey : option string }.

Definition akey_f (s : schema) (f : formal) : string :=
  if is_typevar s (f_tstr f) then f_tstr f else f_name f.
Definition skey_f (s : schema) (f : formal) : option string :=
  if is_typevar s (f_tstr f) && negb (hetero f) then Some (f_tstr f) else None.
Definition head_info (s : schema) (f : formal) : pinfo :=
  mkP (Some (akey_f s f)) (Some (f_tstr f)) (skey_f s f).
(* arguments beyond the declared formals belong to the variadic last formal; if it is not
   homogeneous the code appends (x, None): no type variable *)
Definition tail_info (s : schema) (f : formal) : pinfo :=
  if f_homog f then head_info s f else mkP None None None.

Fixpoint last_opt {A} (l : list A) : option A :=
  match l with [] => None | [a] => Some a | _ :: t => last_opt t end.

(* `for i, x in enumerate(args): if i < len(expected_inputs) ... elif expected_inputs[-1].variadic ... else raise` *)
Definition positions (s : schema) (n : nat) : result (list pinfo) :=
  let fs := s_formals s in
  if Nat.leb n (List.length fs) then OK (map (head_info s) (firstn n fs))
  else match last_opt fs with
       | Some f => if is_variadic f
                   then OK (map (head_info s) fs ++ repeat (tail_info s f) (n - List.length fs))%list
                   else Err TooManyArgs
       | None => Err TooManyArgs
       end.

(* ------------------------------------------------------------------------------------------ *)
(* arguments and promoted operands                                                            *)

(* ATensor d known: a tensor operand whose element type is d when the op runs; `known` = the
   graph builder knows it at construction time (ir.Value.type is set).  ANone: omitted optional input. *)
Inductive arg := ATensor (d : dtype) (known : bool) | ALit (l : literal) | ANone.

Inductive out :=
| OKeep (a : arg)                          (* tensors and None pass through unchanged *)
| OConst (l : literal) (d : dtype)         (* tensor created from the Python value directly at d *)
| OCastLike (l : literal) (d0 d : dtype)   (* Constant at d0 followed by CastLike to a tensor of type d *)
| ORefuse (l : literal).                   (* the front end raises instead of promoting the literal *)

Definition out_dtype (o : out) : option dtype :=
  match o with OKeep _ | ORefuse _ => None | OConst _ d => Some d | OCastLike _ _ d => Some d end.
Definition out_literal (o : out) : option literal :=
  match o with OKeep _ => None | OConst l _ => Some l | OCastLike l _ _ => Some l | ORefuse l => Some l end.
(* w: does this front end create tensors with wrapping conversion (variant, see np_cast_scalar_v) *)
Definition out_value_v (w : bool) (o : out) : result (list value) :=
  match o with
  | OKeep _ => Err Unmodelled
  | OConst l d => np_cast_v w l d
  | OCastLike l d0 d => cast_like l d0 d
  | ORefuse _ => Err MixedList
  end.
Definition out_value (o : out) : result (list value) := out_value_v false o.

Definition slot := (arg * pinfo)%type.

Definition annotate (s : schema) (args : list arg) : result (list slot) :=
  bind (positions s (List.length args)) (fun ps => OK (combine args ps)).

(* ------------------------------------------------------------------------------------------ *)
(* autocast.cast_inputs, generic in (get_type_info, cast); also the builder's variant          *)

Section Generic.
  Variables I R : Type.
  Variable ksel : pinfo -> option string.
  Variable info : arg -> option I.
  Variable cast : arg -> option I -> R.
  Variable first_wins : bool.

  Fixpoint lookup (b : list (string * I)) (k : string) : option I :=
    match b with
    | [] => None
    | (k', v) :: t => if String.eqb k k' then Some v else lookup t k
    end.

  (* pass 1, one argument.  autocast:  if no paren in typevar: ti = info(x); if ti is not None: bindings[typevar] = ti
                            builder:   if no paren in typevar and typevar not in bindings: if isinstance(x, ir.Value): bindings[typevar] = x *)
  Definition bind1 (b : list (string * I)) (sl : slot) : list (string * I) :=
    match ksel (snd sl) with
    | Some k =>
        if has_paren k then b
        else match info (fst sl) with
             | Some v =>
                 if first_wins
                 then match lookup b k with Some _ => b | None => (k, v) :: b end
                 else (k, v) :: b      (* dict assignment: the last binding wins *)
             | None => b
             end
    | None => b
    end.

  Definition bindings (slots : list slot) : list (string * I) := fold_left bind1 slots [].

  (* pass 2: cast(x, type_bindings.get(typevar)) *)
  Definition cast_slot (b : list (string * I)) (sl : slot) : R :=
    cast (fst sl) (match ksel (snd sl) with Some k => lookup b k | None => None end).

  Definition cast_inputs (slots : list slot) : list R := map (cast_slot (bindings slots)) slots.
End Generic.

(* --- static (converter): info = the ir.Value itself unless it is a castable constant; here its
       run-time element type.  cast = CastLike(constant, sibling). *)
Definition info_dtype (a : arg) : option dtype :=
  match a with ATensor d _ => Some d | _ => None end.
Definition cast_static (a : arg) (y : option dtype) : out :=
  match a with
  | ALit l => match y with
              | Some d => OCastLike l (ir_default_dtype l) d
              | None => OConst l (ir_default_dtype l)
              end
  | _ => OKeep a
  end.
Definition promote_static (s : schema) (args : list arg) : result (list out) :=
  bind (annotate s args) (fun sl => OK (cast_inputs dtype out p_akey info_dtype cast_static false sl)).

(* --- dynamic (eager): info = Tensor.dtype, cast = np.array(pyvalue, dtype or _get_dtype(pyvalue)) *)
Definition cast_eager (a : arg) (y : option dtype) : out :=
  match a with
  | ALit l => match y with Some d => OConst l d | None => OConst l (default_dtype l) end
  | _ => OKeep a
  end.
Definition promote_eager (s : schema) (args : list arg) : result (list out) :=
  bind (annotate s args) (fun sl => OK (cast_inputs dtype out p_akey info_dtype cast_eager false sl)).

(* --- builder: FIRST ir.Value binding wins; constant created at the bound dtype when it is known,
       otherwise at the default dtype followed by a dynamic CastLike *)
Definition info_builder (a : arg) : option (dtype * bool) :=
  match a with ATensor d k => Some (d, k) | _ => None end.
(* named = false: the code as read -- a literal outside the cached path reaches
   `self.initializer(ir.tensor(value, dtype))` with an unnamed tensor and register_initializer raises
   ValueError("Initializer must have a name").  named = true: proposed_fixes/ready/C12_02_... names it. *)
Definition builder_default (l : literal) : dtype :=
  if builder_list_ok l then default_dtype l else ir_default_dtype l.
Definition cast_builder_v (named : bool) (a : arg) (y : option (dtype * bool)) : out :=
  match a with
  | ALit l => if builder_list_ok l || named
              then match y with
                   | Some (d, true) => OConst l d
                   | Some (d, false) => OCastLike l (builder_default l) d
                   | None => OConst l (builder_default l)
                   end
              else ORefuse l
  | _ => OKeep a
  end.
Definition promote_builder_v (named : bool) (s : schema) (args : list arg) : result (list out) :=
  bind (annotate s args)
       (fun sl => OK (cast_inputs (dtype * bool) out p_bkey info_builder (cast_builder_v named) true sl)).
Definition cast_builder := cast_builder_v false.
Definition promote_builder := promote_builder_v false.

(* ------------------------------------------------------------------------------------------ *)
(* the decision structure of the four functions AS CODE.  harness/c12_decisions.py reads the python   *)
(* ast of autocast.cast_inputs (+ static_cast_inputs / dynamic_cast_inputs / cast_pyvalue_to_os_tensor)*)
(* and tape_builder.BuilderBase._cast_inputs / _input_to_ir_value into one `decisions` record per      *)
(* front end (coq/Gen/C12Decisions.v, fail-closed); `promote_of` gives every flag its meaning; the      *)
(* theorems in AutocastProofs show that the records read from the code make promote_of the three       *)
(* algorithms the other theorems are about.                                                          *)

Inductive keysel := KeyConstraintName      (* typevar = expected.type_constraint.name *)
                  | KeyTypeStr.            (* typevar = expected.type_str             *)
Inductive bindcond := BindInfoNotNone      (* typeinfo = get_type_info(x); if typeinfo is not None: bind *)
                    | BindIsValue.         (* if isinstance(x, ir.Value): bind *)
Inductive infosel := InfoTensorDtype       (* x.dtype if isinstance(x, tensor.Tensor) else None *)
                   | InfoNonCastableValue  (* None if x is None or castable(x.name) else x *)
                   | InfoValueItself.      (* the ir.Value *)
Inductive caststyle := CastLikeIfBound     (* castable constant and y is not None -> CastLike(x, y), else x *)
                     | CreateAtBound       (* np.array(value, dtype = bound or default) *)
                     | CreateIfKnownElseCastLike. (* constant at like.type.dtype when known, else default + CastLike *)
Record decisions := mkD {
  d_key : keysel;
  d_index_branch : bool;      (* `if i < len(expected_inputs): expected = expected_inputs[i]` *)
  d_variadic_branch : bool;   (* `elif expected_inputs[-1] is variadic: expected = expected_inputs[-1]` *)
  d_raise_otherwise : bool;   (* `else: raise ValueError(too many actual parameters)` *)
  d_hetero_none : bool;       (* in the variadic branch: `if not homogeneous: append((x, None)); continue` *)
  d_tail_binds : bool;        (* arguments of the variadic tail go through the binding step like the others *)
  d_paren_guard : bool;       (* bind only `if "(" not in typevar` *)
  d_first_wins : bool;        (* ... `and typevar not in type_bindings` *)
  d_bind : bindcond;
  d_info : infosel;
  d_cast : caststyle;
  d_none_passes : bool;       (* None (omitted optional input) is returned as None *)
  d_cast_by_lookup : bool     (* second pass: cast(x, type_bindings.get(typevar)) over the recorded pairs *)
}.

Definition dec_static : decisions :=
  mkD KeyConstraintName true true true true true true false BindInfoNotNone InfoNonCastableValue CastLikeIfBound true true.
Definition dec_eager : decisions :=
  mkD KeyConstraintName true true true true true true false BindInfoNotNone InfoTensorDtype CreateAtBound true true.
Definition dec_builder : decisions :=
  mkD KeyTypeStr true true true true true true true BindIsValue InfoValueItself CreateIfKnownElseCastLike true true.

Definition tail_info_g (hetero_none : bool) (s : schema) (f : formal) : pinfo :=
  if f_homog f || negb hetero_none then head_info s f else mkP None None None.
Definition positions_g (hetero_none : bool) (s : schema) (n : nat) : result (list pinfo) :=
  let fs := s_formals s in
  if Nat.leb n (List.length fs) then OK (map (head_info s) (firstn n fs))
  else match last_opt fs with
       | Some f => if is_variadic f
                   then OK (map (head_info s) fs ++ repeat (tail_info_g hetero_none s f) (n - List.length fs))%list
                   else Err TooManyArgs
       | None => Err TooManyArgs
       end.
Definition annotate_g (hn : bool) (s : schema) (args : list arg) : result (list slot) :=
  bind (positions_g hn s (List.length args)) (fun ps => OK (combine args ps)).
Definition ksel_of (k : keysel) : pinfo -> option string :=
  match k with KeyConstraintName => p_akey | KeyTypeStr => p_bkey end.

(* the algorithm the flags describe.  `named`: variant of the builder's fall-through path (see
   cast_builder_v).  Flag combinations the model gives no meaning to evaluate to Err Unmodelled, so no
   theorem about promote_of can be proved for them. *)
Definition promote_of (named : bool) (dc : decisions) (s : schema) (args : list arg) : result (list out) :=
  if d_index_branch dc && d_variadic_branch dc && d_raise_otherwise dc && d_tail_binds dc
     && d_paren_guard dc && d_none_passes dc && d_cast_by_lookup dc
  then
    bind (annotate_g (d_hetero_none dc) s args) (fun sl =>
      match d_bind dc, d_info dc, d_cast dc with
      | BindInfoNotNone, InfoNonCastableValue, CastLikeIfBound =>
          OK (cast_inputs dtype out (ksel_of (d_key dc)) info_dtype cast_static (d_first_wins dc) sl)
      | BindInfoNotNone, InfoTensorDtype, CreateAtBound =>
          OK (cast_inputs dtype out (ksel_of (d_key dc)) info_dtype cast_eager (d_first_wins dc) sl)
      | BindIsValue, InfoValueItself, CreateIfKnownElseCastLike =>
          OK (cast_inputs (dtype * bool) out (ksel_of (d_key dc)) info_builder (cast_builder_v named) (d_first_wins dc) sl)
      | _, _, _ => Err Unmodelled
      end)
  else Err Unmodelled.

(* ------------------------------------------------------------------------------------------ *)
(* the specification (property text): the type of the sibling operand that shares its type      *)
(* constraint when there is one, otherwise INT64, FLOAT or BOOL by Python type                  *)

Definition sibling (p : pinfo) (sl : slot) (d : dtype) : Prop :=
  exists k kn, p_skey p = Some k /\ p_skey (snd sl) = Some k /\ fst sl = ATensor d kn.

(* others = all the other operands of the call *)
Definition spec_dtype (others : list slot) (l : literal) (p : pinfo) (d : dtype) : Prop :=
  (exists sl, In sl others /\ sibling p sl d) \/
  ((forall sl d', In sl others -> ~ sibling p sl d') /\ d = default_dtype l).

(* all tensor operands bound to one type constraint have one element type (a well-typed call) *)
Definition uniform (slots : list slot) : Prop :=
  forall sl1 sl2 k d1 d2 k1 k2, In sl1 slots -> In sl2 slots ->
    p_skey (snd sl1) = Some k -> p_skey (snd sl2) = Some k ->
    fst sl1 = ATensor d1 k1 -> fst sl2 = ATensor d2 k2 -> d1 = d2.

(* executable form used by the correspondence check *)
Definition opt_str_eqb (a b : option string) : bool :=
  match a, b with Some x, Some y => String.eqb x y | None, None => true | _, _ => false end.
Definition sibling_dtype_b (p : pinfo) (sl : slot) : option dtype :=
  match p_skey p, fst sl with
  | Some k, ATensor d _ => if opt_str_eqb (p_skey (snd sl)) (Some k) then Some d else None
  | _, _ => None
  end.
Fixpoint first_some {A B} (f : A -> option B) (l : list A) : option B :=
  match l with [] => None | a :: t => match f a with Some b => Some b | None => first_some f t end end.
Definition spec_fn (slots : list slot) (l : literal) (p : pinfo) : dtype :=
  match first_some (sibling_dtype_b p) slots with Some d => d | None => default_dtype l end.

(* ------------------------------------------------------------------------------------------ *)
(* facts about a schema that the theorems need; decided for the whole registry by vm_compute    *)

Definition cohb (ksel : pinfo -> option string) (p q : pinfo) : bool :=
  match ksel p, ksel q with
  | Some k1, Some k2 =>
      if String.eqb k1 k2 && negb (has_paren k1)
      then opt_str_eqb (p_skey p) (Some k1) && opt_str_eqb (p_skey q) (Some k1)
      else true
  | _, _ => true
  end.

Fixpoint pairwiseb {A} (r : A -> A -> bool) (l : list A) : bool :=
  match l with [] => true | a :: t => forallb (r a) t && pairwiseb r t end.

Definition tail_okb (ksel : pinfo -> option string) (s : schema) : bool :=
  match last_opt (s_formals s) with
  | Some f => if is_variadic f
              then cohb ksel (tail_info s f) (tail_info s f)
                   && forallb (fun g => cohb ksel (head_info s g) (tail_info s f)) (s_formals s)
              else true
  | None => true
  end.

Fixpoint variadic_only_last (fs : list formal) : bool :=
  match fs with [] => true | [_] => true | f :: t => negb (is_variadic f) && variadic_only_last t end.

(* a type constraint used by two or more formals admits tensor types only (bit 0 clear) *)
Definition count_tstr (s : schema) (t : string) : nat :=
  List.length (filter (fun f => String.eqb (f_tstr f) t) (s_formals s)).
Definition shared_tensor_only (s : schema) : bool :=
  forallb (fun tc => Nat.leb (count_tstr s (fst tc)) 1 || negb (N.testbit (snd tc) 0)) (s_tcs s).

Definition schema_okb (s : schema) : bool :=
  forallb (fun tc => negb (has_paren (fst tc))) (s_tcs s)       (* type variables are identifiers *)
  && pairwiseb (cohb p_akey) (map (head_info s) (s_formals s))  (* autocast keys coincide only on shared type variables *)
  && pairwiseb (cohb p_bkey) (map (head_info s) (s_formals s))  (* same for the builder's raw type_str keys *)
  && tail_okb p_akey s && tail_okb p_bkey s
  && variadic_only_last (s_formals s)
  && shared_tensor_only s.

(* ------------------------------------------------------------------------------------------ *)
(* the builder's constant cache                                                               *)

(* Python == on numbers: exact comparison of the rational values; True == 1 == 1.0, 0.0 == -0.0 *)
Definition sc_num (s : scalar) : Z * N :=
  match s with
  | SInt z => (z, 0%N)
  | SFloat n m e => ((if n then - Z.of_N m else Z.of_N m)%Z, e)
  | SBool b => (b2z b, 0%N)
  end.
Definition py_eq (a b : scalar) : bool :=
  let '(x, e1) := sc_num a in let '(y, e2) := sc_num b in
  (x * 2 ^ Z.of_N e2 =? y * 2 ^ Z.of_N e1)%Z.

(* the fixed key (proposed_fixes/C12_constant_cache_negative_zero.diff): the key gets a third component,
   the sign bits of the float elements (None for ints and bools) -- so a float never shares with an
   int/bool, and equal floats share only with equal sign; literals are in lowest terms, so equal
   floats with equal sign are syntactically equal *)
Definition key_eq_signed (a b : scalar) : bool :=
  match a, b with
  | SFloat n1 m1 e1, SFloat n2 m2 e2 => Bool.eqb n1 n2 && (m1 =? m2)%N && (e1 =? e2)%N
  | SFloat _ _ _, _ | _, SFloat _ _ _ => false
  | _, _ => py_eq a b
  end.

Fixpoint list_eqb {A} (eq : A -> A -> bool) (l1 l2 : list A) : bool :=
  match l1, l2 with
  | [], [] => true
  | a :: t1, b :: t2 => eq a b && list_eqb eq t1 t2
  | _, _ => false
  end.

Definition opt_dtype_eqb (a b : option dtype) : bool :=
  match a, b with Some x, Some y => N.eqb x y | None, None => true | _, _ => false end.

(* `if dtype is None: dtype = _PYTHON_TYPE_TO_DTYPE.get(type(value))`  -- {int: INT64, float: FLOAT}; bool stays None *)
Definition resolve (l : literal) (d : option dtype) : option dtype :=
  match d with
  | Some x => Some x
  | None => match kind_of (head_of l) with KInt => Some INT64 | KFloat => Some FLOAT | KBool => None end
  end.

Definition ckey := (literal * option dtype)%type.
(* (value, dtype) for scalars, (tuple(value), dtype) for sequences; a number never equals a tuple *)
Definition ckey_eqb (eq : scalar -> scalar -> bool) (a b : ckey) : bool :=
  Bool.eqb (is_list (fst a)) (is_list (fst b))
  && list_eqb eq (scalars_of (fst a)) (scalars_of (fst b))
  && opt_dtype_eqb (snd a) (snd b).

(* ir.tensor(value, dtype=resolved): dtype inferred from the Python type when still None *)
Record tensor := mkT { t_dtype : dtype; t_list : bool; t_vals : list value }.
Definition create_v (w : bool) (l : literal) (r : option dtype) : result tensor :=
  let d := match r with Some d => d | None => default_dtype l end in
  bind (np_cast_v w l d) (fun vs => OK (mkT d (is_list l) vs)).
Definition create := create_v false.
(* the fall-through path (values outside the cached path): ir.tensor(value, dtype) registered under a
   fresh name, never entered into the cache *)
Definition create_ir_v (w : bool) (l : literal) (d : option dtype) : result tensor :=
  let dd := match d with Some d => d | None => ir_default_dtype l end in
  bind (np_cast_v w l dd) (fun vs => OK (mkT dd (is_list l) vs)).
(* what a request denotes on its own *)
Definition denote_v (w : bool) (l : literal) (d : option dtype) : result tensor :=
  if builder_list_ok l then create_v w l (resolve l d) else create_ir_v w l d.

Definition cache := list (ckey * tensor).
Fixpoint cache_find (eq : scalar -> scalar -> bool) (c : cache) (k : ckey) : option tensor :=
  match c with
  | [] => None
  | (k', t) :: rest => if ckey_eqb eq k k' then Some t else cache_find eq rest k
  end.

(* GraphBuilder._get_or_create_constant(value, dtype) *)
Definition get_or_create_v (w named : bool) (eq : scalar -> scalar -> bool) (c : cache) (l : literal) (d : option dtype)
  : result (cache * tensor) :=
  if builder_list_ok l then
    let r := resolve l d in
    match cache_find eq c (l, r) with
    | Some t => OK (c, t)
    | None => bind (create_v w l r) (fun t => OK ((c ++ [((l, r), t)])%list, t))
    end
  else if named then bind (create_ir_v w l d) (fun t => OK (c, t))
  else Err MixedList.
Definition get_or_create := get_or_create_v false false.

(* a history of requests; a request that raises leaves the cache unchanged *)
Fixpoint run_cache_v (w named : bool) (eq : scalar -> scalar -> bool) (c : cache) (h : list (literal * option dtype)) : cache :=
  match h with
  | [] => c
  | (l, d) :: t =>
      match get_or_create_v w named eq c l d with
      | OK (c', _) => run_cache_v w named eq c' t
      | Err _ => run_cache_v w named eq c t
      end
  end.
Definition run_cache := run_cache_v false false.

(* ------------------------------------------------------------------------------------------ *)
(* correspondence cases (harness/c12.py embeds what the three front ends really produced)       *)

Inductive obs :=
| ObsT (d : dtype) (vals : option (list value))   (* element type, and values when the dtype is modelled *)
| ObsErr (e : error).

Definition value_eqb (a b : value) : bool :=
  match a, b with
  | VI x, VI y => (x =? y)%Z
  | VF n1 m1 e1, VF n2 m2 e2 => Bool.eqb n1 n2 && (m1 =? m2)%N && (e1 =? e2)%N
  | VB x, VB y => Bool.eqb x y
  | _, _ => false
  end.
Definition error_eqb (a b : error) : bool :=
  match a, b with
  | TooManyArgs, TooManyArgs | Overflow, Overflow | Undefined, Undefined
  | Unmodelled, Unmodelled | MixedList, MixedList => true
  | _, _ => false
  end.

(* model output at position i as an observation *)
Definition model_obs (w : bool) (r : result (list out)) (i : nat) : obs :=
  match r with
  | Err e => ObsErr e
  | OK outs =>
      match nth_error outs i with
      | Some (ORefuse _) => ObsErr MixedList
      | Some o =>
          match out_dtype o with
          | Some d =>
              match out_value_v w o with
              | OK vs => ObsT d (Some vs)
              | Err Unmodelled => ObsT d None
              | Err e => ObsErr e
              end
          | None => ObsErr Unmodelled
          end
      | None => ObsErr TooManyArgs
      end
  end.

Definition obs_eqb (m o : obs) : bool :=
  match m, o with
  | ObsT d1 v1, ObsT d2 v2 =>
      N.eqb d1 d2 &&
      match v1, v2 with
      | Some a, Some b => list_eqb value_eqb a b
      | None, _ => true      (* value not modelled for this dtype: compared by the harness three-way only *)
      | Some _, None => false
      end
  | ObsErr e1, ObsErr e2 => error_eqb e1 e2
  | _, _ => false
  end.

(* what the specification expects at position i: dtype by the rule, value = the literal denoted at that dtype *)
Definition spec_obs (w : bool) (s : schema) (args : list arg) (i : nat) : obs :=
  match annotate s args with
  | Err e => ObsErr e
  | OK slots =>
      match nth_error slots i with
      | Some (ALit l, p) =>
          let d := spec_fn slots l p in
          match np_cast_v w l d with
          | OK vs => ObsT d (Some vs)
          | Err Unmodelled => ObsT d None
          | Err e => ObsErr e
          end
      | _ => ObsErr Unmodelled
      end
  end.

Record ccase := mkC { c_schema : nat; c_args : list arg; c_pos : nat;
                      c_static : obs; c_eager : obs; c_builder : obs }.

(* bit 1: static model <> converter, 2: eager model <> eager, 4: builder model <> builder,
   8: spec <> converter, 16: spec <> eager, 32: spec <> builder, 64: unknown schema index *)
(* which variant of the code the harness found (probed on the real code on every run, Gen/C12Variant.v) *)
Record variant := mkV { v_eager_wrap : bool; v_builder_wrap : bool; v_builder_named : bool }.
Definition as_read : variant := mkV false false false.

Definition case_code (vr : variant) (all : list schema) (c : ccase) : N :=
  match nth_error all (c_schema c) with
  | None => 64%N
  | Some s =>
      let a := c_args c in let i := c_pos c in
      let sp := spec_obs (v_eager_wrap vr && v_builder_wrap vr) s a i in
      ((if obs_eqb (model_obs false (promote_static s a) i) (c_static c) then 0 else 1)
       + (if obs_eqb (model_obs (v_eager_wrap vr) (promote_eager s a) i) (c_eager c) then 0 else 2)
       + (if obs_eqb (model_obs (v_builder_wrap vr) (promote_builder_v (v_builder_named vr) s a) i) (c_builder c) then 0 else 4)
       + (if obs_eqb sp (c_static c) then 0 else 8)
       + (if obs_eqb sp (c_eager c) then 0 else 16)
       + (if obs_eqb sp (c_builder c) then 0 else 32))%N
  end.

Fixpoint bad_cases (vr : variant) (all : list schema) (i : N) (cs : list ccase) : list (N * N) :=
  match cs with
  | [] => []
  | c :: t => let k := case_code vr all c in
              ((if N.eqb k 0 then [] else [(i, k)]) ++ bad_cases vr all (N.succ i) t)%list
  end.

(* cache correspondence: a history of requests and, for each, the index of the history entry whose
   tensor the real builder returned (its own index = a new initializer was created; None = raised) *)
Fixpoint cache_trace (w named : bool) (eq : scalar -> scalar -> bool) (c : cache) (owners : list (ckey * nat)) (i : nat)
         (h : list (literal * option dtype)) : list (option nat) :=
  match h with
  | [] => []
  | (l, d) :: t =>
      if builder_list_ok l then
        let r := resolve l d in
        match cache_find eq c (l, r) with
        | Some _ =>
            let o := match find (fun ko => ckey_eqb eq (l, r) (fst ko)) owners with
                     | Some ko => Some (snd ko) | None => None end in
            o :: cache_trace w named eq c owners (S i) t
        | None =>
            match create_v w l r with
            | OK tn => Some i :: cache_trace w named eq (c ++ [((l, r), tn)])%list (owners ++ [((l, r), i)])%list (S i) t
            | Err Undefined =>
                (* a float outside the target's range: np.array raises (as read); astype (w) yields an
                   implementation-defined element -- a tensor is created and cached, its value is not modelled *)
                if w then Some i :: cache_trace w named eq (c ++ [((l, r), mkT 0%N (is_list l) [])])%list
                                                 (owners ++ [((l, r), i)])%list (S i) t
                else None :: cache_trace w named eq c owners (S i) t
            | Err _ => None :: cache_trace w named eq c owners (S i) t
            end
        end
      else
        (* outside the cached path: a fresh initializer of its own (named variant) or an exception *)
        (if named then match create_ir_v w l d with OK _ => Some i | Err Undefined => if w then Some i else None | Err _ => None end
         else None)
        :: cache_trace w named eq c owners (S i) t
  end.
