(* C08 -- integer arithmetic: the operator sequences emitted for floor division, remainder, fmod, clamp
   and arange compute PyTorch's results for all operands. *)
From Coq Require Import ZArith List Bool Lia ZifyBool.
Require Import OV.Torch.Onnx OV.Torch.Spec OV.Torch.Aten.
Import ListNotations.
Local Open Scope Z_scope.
Ltac Zify.zify_post_hook ::= Z.to_euclidean_division_equations.

Lemma quot_floor : forall a b, b <> 0 ->
  Z.quot a b = if (Bool.eqb (a <? 0) (0 <? b)) && negb (a mod b =? 0) then a / b + 1 else a / b.
Proof.
  intros a b Hb.
  pose proof (Z.quot_rem' a b) as Hq. pose proof (Z.div_mod a b Hb) as Hd.
  assert (Hr: (0 <= a -> 0 <= Z.rem a b < Z.abs b) /\ (a <= 0 -> - Z.abs b < Z.rem a b <= 0)).
  { split; intro H.
    - pose proof (Z.rem_bound_abs a b Hb). pose proof (Z.rem_nonneg a b Hb H). lia.
    - pose proof (Z.rem_bound_abs a b Hb). pose proof (Z.rem_nonpos a b Hb H). lia. }
  assert (Hm: (0 < b -> 0 <= a mod b < b) /\ (b < 0 -> b < a mod b <= 0)).
  { split; intro. apply Z.mod_pos_bound; lia. apply Z.mod_neg_bound; lia. }
  destruct (a <? 0) eqn:Ha; destruct (0 <? b) eqn:Hb'; destruct (a mod b =? 0) eqn:Hm0; cbn [Bool.eqb andb negb]; nia.
Qed.

(* floor_divide on signed integers: truncating Div, minus 1 when the signs differ and the division is inexact *)
Lemma floor_divide_signed_correct : forall a b, b <> 0 -> aten_floor_divide true a b = torch_div_floor a b.
Proof.
  intros a b Hb. unfold aten_floor_divide, torch_div_floor, onnx_div_int, onnx_mod.
  rewrite (quot_floor a b Hb).
  destruct ((Bool.eqb (a <? 0) (0 <? b)) && negb (a mod b =? 0)); lia.
Qed.

(* on unsigned integers Div alone is the floor *)
Lemma floor_divide_unsigned_correct : forall a b, 0 <= a -> 0 < b -> aten_floor_divide false a b = torch_div_floor a b.
Proof. intros a b Ha Hb. unfold aten_floor_divide, torch_div_floor, onnx_div_int. apply Z.quot_div_nonneg; lia. Qed.

(* the correction term is needed: plain truncation differs from the floor *)
Lemma truncation_is_not_floor : exists a b, b <> 0 /\ onnx_div_int a b <> torch_div_floor a b.
Proof. exists (-7), 2. split; [lia | vm_compute; discriminate]. Qed.

Lemma remainder_correct : forall a b, b <> 0 -> aten_remainder a b = torch_remainder a b.
Proof. intros a b Hb. unfold aten_remainder, torch_remainder, onnx_mod. pose proof (Z.div_mod a b Hb). lia. Qed.

Lemma remainder_sign : forall a b, b <> 0 ->
  (0 < b -> 0 <= aten_remainder a b < b) /\ (b < 0 -> b < aten_remainder a b <= 0).
Proof.
  intros a b Hb. unfold aten_remainder, onnx_mod.
  split; intro; [apply Z.mod_pos_bound | apply Z.mod_neg_bound]; lia.
Qed.

Lemma fmod_correct : forall a b, b <> 0 -> aten_fmod a b = torch_fmod a b.
Proof. intros a b Hb. unfold aten_fmod, torch_fmod, onnx_fmod. pose proof (Z.quot_rem' a b). lia. Qed.

Lemma fmod_sign : forall a b, b <> 0 ->
  (0 <= a -> 0 <= aten_fmod a b) /\ (a <= 0 -> aten_fmod a b <= 0) /\ Z.abs (aten_fmod a b) < Z.abs b.
Proof.
  intros a b Hb. unfold aten_fmod, onnx_fmod.
  repeat split; intros.
  - apply Z.rem_nonneg; lia.
  - apply Z.rem_nonpos; lia.
  - apply Z.rem_bound_abs; lia.
Qed.

(* clamp with optional scalar bounds, including min > max (everything becomes max) *)
Lemma clamp_correct : forall x lo hi, (lo <> None \/ hi <> None) -> Some (aten_clamp x lo hi) = torch_clamp x lo hi.
Proof.
  intros x [l|] [h|] H; unfold aten_clamp, torch_clamp, onnx_clip;
    try (destruct H; congruence); f_equal;
    try (destruct (x <? l) eqn:?);
    repeat match goal with |- context [if ?c then _ else _] => destruct c eqn:? end; lia.
Qed.

Lemma clamp_tensor_correct : forall x lo hi, (lo <> None \/ hi <> None) -> Some (aten_clamp_tensor x lo hi) = torch_clamp x lo hi.
Proof.
  intros x [l|] [h|] H; unfold aten_clamp_tensor, torch_clamp;
    try (destruct H; congruence); f_equal;
    try (destruct (x <? l) eqn:?);
    repeat match goal with |- context [if ?c then _ else _] => destruct c eqn:? end; lia.
Qed.

Lemma clamp_min_above_max : forall x l h, h < l -> aten_clamp x (Some l) (Some h) = h.
Proof. intros. unfold aten_clamp, onnx_clip. lia. Qed.

(* arange(start, end, step) on integers: Range produces exactly PyTorch's elements whenever PyTorch accepts the call *)
Lemma arange_correct : forall start end_ step out,
  torch_arange start end_ step = Some out -> aten_arange start end_ step = Some out.
Proof.
  intros start end_ step out. unfold torch_arange, aten_arange, onnx_range, range_count.
  destruct (step =? 0) eqn:Hs; [discriminate|].
  destruct (((0 <? step) && (end_ <? start)) || ((step <? 0) && (start <? end_))) eqn:Hc; [discriminate|].
  intro H; inversion H; subst; clear H. do 3 f_equal.
  unfold ceil_div. lia.
Qed.

(* tril / triu masks *)
Lemma tril_mask_correct : forall k i j, aten_tril_keep k i j = torch_tril_keep k i j.
Proof. intros. unfold aten_tril_keep, trilu_keep, torch_tril_keep. lia. Qed.
Lemma triu_mask_correct : forall k i j, aten_triu_keep k i j = torch_triu_keep k i j.
Proof. intros. unfold aten_triu_keep, trilu_keep, torch_triu_keep. lia. Qed.
