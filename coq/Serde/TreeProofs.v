(* Soundness of the inclusion checker: what `includes a b = true` guarantees, for all trees and all paths. *)
From Coq Require Import ZArith List Bool String Lia.
Require Import OV.Serde.Tree.
Import ListNotations.
Open Scope Z_scope.

Lemma value_eqb_eq : forall a b, value_eqb a b = true -> a = b.
Proof.
  intros [x|x] [y|y] H; cbn in H; try discriminate.
  - apply Z.eqb_eq in H; subst; reflexivity.
  - apply String.eqb_eq in H; subst; reflexivity.
Qed.

Lemma lookup_in : forall k l c, lookup k l = Some c -> In (k, c) l.
Proof.
  induction l as [|[k' t] l IH]; intros c H; cbn in H; [discriminate|].
  destruct (String.eqb k k') eqn:E.
  - apply String.eqb_eq in E. inversion H; subst. left; reflexivity.
  - right. apply IH; assumption.
Qed.

(* the two local fixpoints of `includes`, named *)
Definition incl_fields (fa fb : list (string * tree)) : bool :=
  forallb (fun kt => match lookup (fst kt) fb with Some tb => includes (snd kt) tb | None => false end) fa.
Fixpoint incl_seq (l m : list tree) : bool :=
  match l, m with [], [] => true | x :: r, y :: s => includes x y && incl_seq r s | _, _ => false end.

Lemma includes_node : forall fa fb, includes (Node fa) (Node fb) = incl_fields fa fb.
Proof.
  intros fa fb. unfold incl_fields. cbn [includes].
  induction fa as [|[k t] fa IH]; [reflexivity|]. cbn [forallb fst snd]. rewrite <- IH. reflexivity.
Qed.
Lemma includes_seq : forall la lb, includes (Seq la) (Seq lb) = incl_seq la lb.
Proof.
  intros la. cbn [includes]. induction la as [|x la IH]; intros [|y lb]; cbn [incl_seq]; reflexivity.
Qed.

Lemma incl_seq_nth : forall la lb i c, incl_seq la lb = true -> nth_error la i = Some c ->
  exists y, nth_error lb i = Some y /\ includes c y = true.
Proof.
  induction la as [|x la IH]; intros [|y lb] i c H Hn; cbn in H; try discriminate.
  - destruct i; discriminate.
  - apply andb_true_iff in H. destruct H as [H1 H2]. destruct i as [|i]; cbn in Hn |- *.
    + inversion Hn; subst. exists y; auto.
    + eapply IH; eassumption.
Qed.
Lemma incl_seq_length : forall la lb, incl_seq la lb = true -> List.length lb = List.length la.
Proof.
  induction la as [|x la IH]; intros [|y lb] H; cbn in H; try discriminate; [reflexivity|].
  apply andb_true_iff in H. destruct H as [_ H]. cbn. f_equal. apply IH; assumption.
Qed.

(* every subtree of a reachable by a path is matched, at the same path, by a subtree of b that includes it *)
Theorem includes_get : forall p a b ta, includes a b = true -> get a p = Some ta ->
  exists tb, get b p = Some tb /\ includes ta tb = true.
Proof.
  induction p as [|s p IH]; intros a b ta H G.
  - cbn in G. inversion G; subst. exists b; auto.
  - destruct s as [k|i]; cbn [get] in G.
    + destruct a as [v|fa|la]; try discriminate.
      destruct b as [w|fb|lb]; try (cbn in H; discriminate).
      rewrite includes_node in H. unfold incl_fields in H. rewrite forallb_forall in H.
      destruct (lookup k fa) as [c|] eqn:L; [|discriminate].
      specialize (H (k, c) (lookup_in _ _ _ L)). cbn [fst snd] in H.
      destruct (lookup k fb) as [tb|] eqn:L'; [|discriminate].
      cbn [get]. rewrite L'. eapply IH; eassumption.
    + destruct a as [v|fa|la]; try discriminate.
      destruct b as [w|fb|lb]; try (cbn in H; discriminate).
      rewrite includes_seq in H.
      destruct (nth_error la i) as [c|] eqn:L; [|discriminate].
      destruct (incl_seq_nth _ _ _ _ H L) as (y & Ly & Hy).
      cbn [get]. rewrite Ly. eapply IH; eassumption.
Qed.

(* every populated scalar / bytes field of a reappears in b, at the same path, with the same value *)
Theorem includes_sound : forall a b, includes a b = true ->
  forall p v, get a p = Some (Leaf v) -> get b p = Some (Leaf v).
Proof.
  intros a b H p v G. destruct (includes_get p a b (Leaf v) H G) as (tb & Gb & I).
  destruct tb as [w|fb|lb]; cbn in I; try discriminate. apply value_eqb_eq in I. subst. assumption.
Qed.

(* ordered repeated fields keep their length (nothing is appended to or dropped from a node list, an input list, dims ...) *)
Theorem includes_seq_length : forall a b, includes a b = true ->
  forall p l, get a p = Some (Seq l) -> exists l', get b p = Some (Seq l') /\ List.length l' = List.length l.
Proof.
  intros a b H p l G. destruct (includes_get p a b (Seq l) H G) as (tb & Gb & I).
  destruct tb as [w|fb|lb]; try (cbn in I; discriminate). rewrite includes_seq in I.
  exists lb. split; [assumption | apply incl_seq_length; assumption].
Qed.

(* keyed containers of a keep all their keys in b *)
Theorem includes_keys : forall a b, includes a b = true ->
  forall p fs k c, get a p = Some (Node fs) -> lookup k fs = Some c -> exists fs' c', get b p = Some (Node fs') /\ lookup k fs' = Some c'.
Proof.
  intros a b H p fs k c G L. destruct (includes_get p a b (Node fs) H G) as (tb & Gb & I).
  destruct tb as [w|fb|lb]; try (cbn in I; discriminate). rewrite includes_node in I.
  unfold incl_fields in I. rewrite forallb_forall in I. specialize (I (k, c) (lookup_in _ _ _ L)). cbn [fst snd] in I.
  destruct (lookup k fb) as [tb|] eqn:L'; [|discriminate]. exists fb, tb; auto.
Qed.

(* ---------------------------------------------------------------- sound and complete for the path specification *)
Lemma value_eqb_refl : forall v, value_eqb v v = true.
Proof. intros [z|h]; cbn; [apply Z.eqb_refl | apply String.eqb_refl]. Qed.

Theorem includes_Included : forall a b, includes a b = true -> Included a b.
Proof.
  intros a b H p x G. destruct (includes_get p a b x H G) as (y & Gy & I). exists y. split; [assumption|].
  destruct x as [v|fa|la], y as [w|fb|lb]; try (cbn in I; discriminate); cbn [same_kind].
  - cbn in I. apply value_eqb_eq; assumption.
  - exact Logic.I.
  - rewrite includes_seq in I. symmetry. apply incl_seq_length; assumption.
Qed.

(* induction over trees with the nested lists *)
Fixpoint tree_ind' (P : tree -> Prop) (HL : forall v, P (Leaf v))
  (HN : forall fs, Forall (fun kt => P (snd kt)) fs -> P (Node fs)) (HS : forall l, Forall P l -> P (Seq l)) (t : tree) : P t :=
  match t with
  | Leaf v => HL v
  | Node fs => HN fs ((fix go (l : list (string * tree)) : Forall (fun kt => P (snd kt)) l :=
                         match l with [] => Forall_nil _ | kt :: r => Forall_cons kt (tree_ind' P HL HN HS (snd kt)) (go r) end) fs)
  | Seq l => HS l ((fix go (l : list tree) : Forall P l :=
                      match l with [] => Forall_nil _ | c :: r => Forall_cons c (tree_ind' P HL HN HS c) (go r) end) l)
  end.

Definition wk_fields (fs : list (string * tree)) : bool := forallb (fun kt => wkb (snd kt)) fs.
Lemma wkb_node : forall fs, wkb (Node fs) = keys_nodupb (map fst fs) && wk_fields fs.
Proof.
  intro fs. cbn [wkb]. f_equal. unfold wk_fields. induction fs as [|[k c] r IH]; [reflexivity|]. cbn [forallb snd]. rewrite <- IH. reflexivity.
Qed.
Lemma wkb_seq : forall l, wkb (Seq l) = forallb wkb l.
Proof. intro l. cbn [wkb]. induction l as [|c r IH]; [reflexivity|]. cbn [forallb]. rewrite <- IH. reflexivity. Qed.

Lemma lookup_nodup : forall fs k c, keys_nodupb (map fst fs) = true -> In (k, c) fs -> lookup k fs = Some c.
Proof.
  induction fs as [|[k' c'] r IH]; intros k c ND I; [destruct I|].
  cbn [map fst keys_nodupb] in ND. apply andb_true_iff in ND. destruct ND as [N1 N2]. cbn [lookup].
  destruct I as [E|I].
  - inversion E; subst. rewrite String.eqb_refl. reflexivity.
  - destruct (String.eqb k k') eqn:Ek.
    + apply String.eqb_eq in Ek. subst k'. exfalso. apply negb_true_iff in N1.
      assert (X : existsb (String.eqb k) (map fst r) = true).
      { apply existsb_exists. exists k. split; [|apply String.eqb_refl]. apply in_map_iff. exists (k, c). split; [reflexivity|assumption]. }
      rewrite X in N1. discriminate.
    + apply IH; assumption.
Qed.

Lemma Included_key : forall fa fb k ta tb, Included (Node fa) (Node fb) -> lookup k fa = Some ta -> lookup k fb = Some tb -> Included ta tb.
Proof.
  intros fa fb k ta tb H La Lb p x G. specialize (H (Key k :: p) x). cbn [get] in H. rewrite La, Lb in H. apply H. assumption.
Qed.
Lemma Included_idx : forall la lb i x y, Included (Seq la) (Seq lb) -> nth_error la i = Some x -> nth_error lb i = Some y -> Included x y.
Proof.
  intros la lb i x y H La Lb p z G. specialize (H (Idx i :: p) z). cbn [get] in H. rewrite La, Lb in H. apply H. assumption.
Qed.

Lemma incl_seq_complete : forall la, Forall (fun a => forall b, wkb a = true -> Included a b -> includes a b = true) la ->
  forallb wkb la = true -> forall lb, List.length la = List.length lb ->
  (forall i x y, nth_error la i = Some x -> nth_error lb i = Some y -> Included x y) -> incl_seq la lb = true.
Proof.
  induction la as [|a la IH]; intros F W [|b lb] L H; cbn in L; try discriminate; [reflexivity|].
  inversion F as [|? ? Fa Fr]; subst. cbn [forallb] in W. apply andb_true_iff in W. destruct W as [Wa Wr].
  cbn [incl_seq]. apply andb_true_iff. split.
  - apply Fa; [assumption|]. apply (H 0%nat); reflexivity.
  - apply IH; [assumption | assumption | congruence |]. intros i x y Hx Hy. apply (H (S i)); assumption.
Qed.

Theorem Included_includes : forall a, wkb a = true -> forall b, Included a b -> includes a b = true.
Proof.
  intro a. induction a as [v|fa IH|la IH] using tree_ind'; intros W b H.
  - destruct (H [] (Leaf v) eq_refl) as (y & Gy & K). cbn in Gy. inversion Gy; subst y.
    destruct b as [w|fb|lb]; cbn in K; try contradiction. subst. cbn. apply value_eqb_refl.
  - destruct (H [] (Node fa) eq_refl) as (y & Gy & K). cbn in Gy. inversion Gy; subst y.
    destruct b as [w|fb|lb]; cbn in K; try contradiction.
    rewrite wkb_node in W. apply andb_true_iff in W. destruct W as [ND WF].
    rewrite includes_node. unfold incl_fields. apply forallb_forall. intros [k ta] I. cbn [fst snd].
    pose proof (lookup_nodup fa k ta ND I) as La.
    destruct (H [Key k] ta) as (tb & Gb & _). { cbn [get]. rewrite La. reflexivity. }
    cbn [get] in Gb. destruct (lookup k fb) as [tb'|] eqn:Lb; [|discriminate]. cbn in Gb. inversion Gb; subst tb'.
    rewrite Forall_forall in IH. apply (IH (k, ta) I).
    + unfold wk_fields in WF. rewrite forallb_forall in WF. apply (WF (k, ta) I).
    + eapply Included_key; eassumption.
  - destruct (H [] (Seq la) eq_refl) as (y & Gy & K). cbn in Gy. inversion Gy; subst y.
    destruct b as [w|fb|lb]; cbn in K; try contradiction.
    rewrite wkb_seq in W. rewrite includes_seq. apply incl_seq_complete; [| assumption | assumption |].
    + eapply Forall_impl; [|exact IH]. intros a Ha b' Wa Hb. apply Ha; assumption.
    + intros i x y Hx Hy. eapply Included_idx; eassumption.
Qed.

(* the checker decides the path specification on well-keyed trees *)
Theorem includes_iff_Included : forall a b, wkb a = true -> (includes a b = true <-> Included a b).
Proof. intros a b W. split; [apply includes_Included | apply Included_includes; assumption]. Qed.

(* without well-keyedness completeness fails: a shadowed duplicate key is invisible to paths but not to the checker *)
Example wk_needed :
  let a := Node [("k", Leaf (VInt 1)); ("k", Leaf (VInt 2))]%string in let b := Node [("k", Leaf (VInt 1))]%string in
  wkb a = false /\ includes a b = false /\ get a [Key "k"%string] = Some (Leaf (VInt 1)).
Proof. repeat split; reflexivity. Qed.

(* the checker is not vacuous: it rejects a changed payload byte, a dropped key and a shortened list *)
Example includes_examples :
  let a := Node [("name", Leaf (VBytes "77")); ("raw", Leaf (VBytes "0000807f")); ("dims", Seq [Leaf (VInt 2)])]%string in
  includes a (Node [("extra", Leaf (VInt 1)); ("dims", Seq [Leaf (VInt 2)]); ("raw", Leaf (VBytes "0000807f")); ("name", Leaf (VBytes "77"))])%string = true
  /\ includes a (Node [("dims", Seq [Leaf (VInt 2)]); ("raw", Leaf (VBytes "0000c07f")); ("name", Leaf (VBytes "77"))])%string = false
  /\ includes a (Node [("dims", Seq [Leaf (VInt 2)]); ("name", Leaf (VBytes "77"))])%string = false
  /\ includes a (Node [("dims", Seq []); ("raw", Leaf (VBytes "0000807f")); ("name", Leaf (VBytes "77"))])%string = false.
Proof. repeat split; reflexivity. Qed.
