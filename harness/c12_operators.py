"""C12: the Python OPERATOR spellings of the script converter and of the eager Tensor, as code.

  converter.py   primop_map                                   python operator (ast class) -> name
                 Converter._translate_binary_op_expr           a <op> b      BinOp
                 Converter._translate_compare_expr             a <cmp> b     Compare
                 Converter._translate_unary_op_expr            <op> a        UnaryOp (no operand beside it: nothing to promote)
                 Converter._cast_like_binary_expression        autocast.static_cast_inputs(self, op.op_signature, (left, right))
                 Converter._translate_expr                     which expression classes are translated at all
  tensor.py      Tensor.__add__ ... (through harness/c01_tables_py2v.tensor_methods, the reader C01 uses)

For every entry of primop_map the two binary translators are PARTIALLY EVALUATED on the operator's name: the result is
    cast   the name of the operator whose signature drives the cast-like step (values.Op(default_opset, <name>).op_signature;
           a name without a schema has signature None and autocast skips the cast: `op_signature is None` branch),
    emit   the operator of the node the two operands are handed to, and
    post   the operator applied to its result (`!=` = Not(Equal(a, b))).
Anything outside the recognised statement forms raises TranslationError (fail-closed).  The table is written to
coq/Gen/C12Operators.v; Autocast/OperatorsProofs.v proves over the regenerated table and registry that promotion through a
spelling is promotion through the operator it maps to.
"""
from __future__ import annotations

import ast
import os

from harness import c01_tables_py2v as T01
from harness.c12_registry import TranslationError

# python symbol of every ast operator class the property talks about
SYMBOL = {"Add": "+", "Sub": "-", "Mult": "*", "Div": "/", "FloorDiv": "//", "Mod": "%", "Pow": "**", "MatMult": "@",
          "BitAnd": "&", "BitOr": "|", "BitXor": "^", "LShift": "<<", "RShift": ">>", "Invert": "~", "USub": "-", "UAdd": "+",
          "Not": "not", "And": "and", "Or": "or", "Eq": "==", "NotEq": "!=", "Lt": "<", "LtE": "<=", "Gt": ">", "GtE": ">=",
          "Is": "is", "IsNot": "is not", "In": "in", "NotIn": "not in"}
BINOPS = ["Add", "Sub", "Mult", "Div", "FloorDiv", "Mod", "Pow", "MatMult", "BitAnd", "BitOr", "BitXor", "LShift", "RShift"]
COMPARES = ["Eq", "NotEq", "Lt", "LtE", "Gt", "GtE", "Is", "IsNot", "In", "NotIn"]
UNARIES = ["USub", "UAdd", "Not", "Invert"]
BOOLOPS = ["And", "Or"]
# `1 < x` with a Tensor x: int.__lt__ returns NotImplemented and Python calls the MIRRORED method of the right operand
MIRROR = {"__lt__": "__gt__", "__le__": "__ge__", "__gt__": "__lt__", "__ge__": "__le__", "__eq__": "__eq__", "__ne__": "__ne__"}
UNARY_METHODS = {"__neg__", "__pos__", "__invert__", "__abs__"}      # no operand beside self: nothing to promote
DUNDER = {"Add": "add", "Sub": "sub", "Mult": "mul", "Div": "truediv", "FloorDiv": "floordiv", "Mod": "mod", "Pow": "pow",
          "MatMult": "matmul", "BitAnd": "and", "BitOr": "or", "BitXor": "xor", "LShift": "lshift", "RShift": "rshift",
          "Eq": "eq", "NotEq": "ne", "Lt": "lt", "LtE": "le", "Gt": "gt", "GtE": "ge"}


def _src(n):
    return ast.unparse(n)


def _method(tree, name):
    fns = [f for c in tree.body if isinstance(c, ast.ClassDef) and c.name == "Converter"
           for f in c.body if isinstance(f, ast.FunctionDef) and f.name == name]
    if len(fns) != 1:
        raise TranslationError(f"Converter.{name} not found exactly once")
    return fns[0]


def _only_raises(body):
    """a block that never falls through with an effect we track: raise / self._fail(...) / warnings"""
    for s in body:
        if isinstance(s, ast.Raise):
            continue
        if isinstance(s, ast.Expr) and isinstance(s.value, ast.Call) and _src(s.value.func) in ("self._fail", "self.fail", "fail"):
            continue
        return False
    return True


class _PE:
    """partial evaluator of one binary translator on a fixed operator name"""

    IRRELEVANT = {"attrs", "cst"}          # the fmod attribute of `%` (C01's concern: attributes, not operand types)

    def __init__(self, fname, opname, operand_srcs):
        self.fname, self.opname = fname, opname
        self.env = {}
        self.operand_srcs = operand_srcs           # (source of the left operand expression, of the right one)
        self.cast = None                           # (operator name, "LR")
        self.emitted = None                        # (operator name, "LR")  an explicit self._emit1 of the two operands
        self.result = None

    def fail(self, node, why):
        raise TranslationError(f"Converter.{self.fname} line {getattr(node, 'lineno', '?')}: {why}: `{_src(node)[:120]}`")

    # ---- expressions
    def ev(self, e):
        if isinstance(e, ast.Constant) and isinstance(e.value, str):
            return ("str", e.value)
        if isinstance(e, ast.Name):
            return self.env.get(e.id, ("opaque", e.id))
        if isinstance(e, ast.Subscript) and _src(e) == "primop_map[op]" and self.env.get("op") == ("optype",):
            return ("str", self.opname)
        if isinstance(e, ast.Call) and _src(e.func) == "type" and len(e.args) == 1 and _src(e.args[0]) in ("node.op", "node.ops[0]"):
            return ("optype",)
        if isinstance(e, ast.IfExp):
            t = self.test(e.test)
            if t is None:
                self.fail(e, "conditional expression on something other than the operator name")
            return self.ev(e.body if t else e.orelse)
        if isinstance(e, ast.Call) and _src(e.func) == "values.Op":
            if len(e.args) != 2 or e.keywords or _src(e.args[0]) != "self.default_opset":
                self.fail(e, "values.Op not of the form values.Op(self.default_opset, <name>)")
            nm = self.ev(e.args[1])
            if nm[0] != "str":
                self.fail(e, "operator name not determined by the python operator")
            return ("Op", nm[1])
        if isinstance(e, ast.Call) and _src(e.func) == "self._translate_expr" and len(e.args) == 1 and not e.keywords:
            s = _src(e.args[0])
            if s == self.operand_srcs[0]:
                return ("operand", "L")
            if s == self.operand_srcs[1]:
                return ("operand", "R")
            self.fail(e, "translates an expression that is neither operand")
        return ("opaque", _src(e)[:40])

    def test(self, t):
        """value of a test that depends on the operator name only; None when it does not mention it"""
        if isinstance(t, ast.Compare) and len(t.ops) == 1 and isinstance(t.ops[0], (ast.Eq, ast.NotEq)):
            a, b = self.ev(t.left), self.ev(t.comparators[0])
            if a[0] == "str" and b[0] == "str":
                return (a[1] == b[1]) == isinstance(t.ops[0], ast.Eq)
        names = {n.id for n in ast.walk(t) if isinstance(n, ast.Name)}
        if names & {k for k, v in self.env.items() if v[0] in ("str", "Op")}:
            self.fail(t, "test on the operator name outside `opname == \"...\"`")
        return None

    def order(self, elts, node):
        vs = [self.ev(x) for x in elts]
        if [v[0] for v in vs] != ["cast_operand", "cast_operand"] and [v[0] for v in vs] != ["operand", "operand"]:
            self.fail(node, "operands handed on are not the two (cast) operands")
        return vs[0][1] + vs[1][1], vs[0][0] == "cast_operand"

    # ---- statements
    def run(self, body):
        for s in body:
            if self.result is not None:
                return                     # a return was executed on this path: the rest is not reached
            self.stmt(s)

    def stmt(self, s):
        if isinstance(s, ast.Expr) and isinstance(s.value, ast.Constant):
            return
        if isinstance(s, ast.If):
            t = self.test(s.test)
            if t is None:
                if _only_raises(s.body) and not s.orelse:
                    return
                assigned = {n.id for b in s.body + s.orelse for n in ast.walk(b) if isinstance(n, ast.Name) and isinstance(n.ctx, ast.Store)}
                if assigned <= self.IRRELEVANT and not any(isinstance(n, ast.Return) for b in s.body + s.orelse for n in ast.walk(b)):
                    return
                self.fail(s, "branch that does not depend on the operator name but changes tracked state")
            self.run(s.body if t else s.orelse)
            return
        if isinstance(s, ast.Assign) and len(s.targets) == 1:
            tg = s.targets[0]
            if isinstance(tg, ast.Name):
                if tg.id in self.IRRELEVANT:
                    return
                v = s.value
                if isinstance(v, ast.Call) and _src(v.func) == "self._emit1":
                    if len(v.args) != 3 or not isinstance(v.args[2], ast.List):
                        self.fail(s, "unrecognised _emit1 call")
                    op = self.ev(v.args[1])
                    if op[0] != "Op":
                        self.fail(s, "emitted operator not determined")
                    if self.emitted is not None:
                        self.fail(s, "more than one explicit node")
                    od, casted = self.order(v.args[2].elts, s)
                    self.emitted = (op[1], od, casted)
                    self.env[tg.id] = ("emitted",)
                    return
                self.env[tg.id] = self.ev(v)
                return
            if isinstance(tg, ast.Tuple) and isinstance(s.value, ast.Call) and _src(s.value.func) == "self._cast_like_binary_expression":
                c = s.value
                if len(c.args) != 3 or c.keywords or len(tg.elts) != 2 or not all(isinstance(x, ast.Name) for x in tg.elts):
                    self.fail(s, "unrecognised cast-like call")
                op = self.ev(c.args[0])
                if op[0] != "Op":
                    self.fail(s, "operator of the cast-like step not determined")
                a, b = self.ev(c.args[1]), self.ev(c.args[2])
                if (a, b) != (("operand", "L"), ("operand", "R")):
                    self.fail(s, "cast-like step not applied to (left, right)")
                if self.cast is not None:
                    self.fail(s, "two cast-like steps")
                self.cast = op[1]
                self.env[tg.elts[0].id] = ("cast_operand", "L")
                self.env[tg.elts[1].id] = ("cast_operand", "R")
                return
        if isinstance(s, ast.Return) and isinstance(s.value, ast.Tuple) and len(s.value.elts) == 3 and isinstance(s.value.elts[1], ast.List):
            op = self.ev(s.value.elts[0])
            if op[0] != "Op":
                self.fail(s, "returned operator not determined")
            ins = s.value.elts[1].elts
            if len(ins) == 2:
                od, casted = self.order(ins, s)
                if self.emitted is not None:
                    self.fail(s, "explicit node and a binary result")
                self.result = dict(emit=op[1], order=od, operands_cast=casted, post=None)
            elif len(ins) == 1 and self.ev(ins[0]) == ("emitted",) and self.emitted is not None:
                self.result = dict(emit=self.emitted[0], order=self.emitted[1], operands_cast=self.emitted[2], post=op[1])
            else:
                self.fail(s, "unrecognised result")
            return
        self.fail(s, "unrecognised statement")


def _specialise(fn, opname, operand_srcs):
    pe = _PE(fn.name, opname, operand_srcs)
    pe.run(fn.body)
    if pe.result is None:
        raise TranslationError(f"Converter.{fn.name}: no result for operator {opname}")
    r = dict(pe.result, cast=pe.cast)
    if r["order"] != "LR":
        raise TranslationError(f"Converter.{fn.name}: operands of {opname} handed on in the order {r['order']}")
    return r


_CAST_LIKE = ["op_signature = op.op_signature", "return autocast.static_cast_inputs(self, op_signature, (left, right))"]
_EXPR_CLASSES = ["ast.Call", "(ast.BinOp, ast.BitAnd, ast.BitOr)", "ast.UnaryOp", "ast.Compare", "ast.Name", "ast.Subscript"]


def translate_converter(path):
    """-> list of dict(py, sym, kind, name, cast, emit, post, operands_cast)"""
    text = open(path).read()
    tree = ast.parse(text)
    prim = dict(T01.primop_map(path))
    cl = [_src(b) for b in _method(tree, "_cast_like_binary_expression").body if not (isinstance(b, ast.Expr) and isinstance(b.value, ast.Constant))]
    if cl != _CAST_LIKE:
        raise TranslationError(f"Converter._cast_like_binary_expression: unrecognised body {cl}")
    # which expression classes are translated at all (a new one -- BoolOp, IfExp, ... -- is a spelling without a model)
    te = _method(tree, "_translate_expr")
    classes = []
    for n in ast.walk(te):
        if isinstance(n, ast.Call) and _src(n.func) == "isinstance" and len(n.args) == 2 and _src(n.args[0]) == "node":
            classes.append(_src(n.args[1]))
    if classes != _EXPR_CLASSES:
        raise TranslationError(f"Converter._translate_expr dispatches on {classes}, modelled: {_EXPR_CLASSES}")
    for stmt_cls in ("AugAssign", "BoolOp", "IfExp", "NamedExpr"):
        if f"ast.{stmt_cls}" in text:
            raise TranslationError(f"converter.py mentions ast.{stmt_cls}: a spelling the operator model does not have")
    un = _method(tree, "_translate_unary_op_expr")
    if "cast" in _src(un):
        raise TranslationError("Converter._translate_unary_op_expr has a cast step: not modelled")
    binf, cmpf = _method(tree, "_translate_binary_op_expr"), _method(tree, "_translate_compare_expr")
    rows = []
    for py, name in sorted(prim.items()):
        if py in BINOPS:
            r = _specialise(binf, name, ("node.left", "node.right"))
            kind = "binary"
        elif py in COMPARES:
            r = _specialise(cmpf, name, ("node.left", "node.comparators[0]"))
            kind = "compare"
        elif py in UNARIES:
            rows.append(dict(py=py, sym=SYMBOL[py], kind="unary", name=name, cast=None, emit=name, post=None, operands_cast=False))
            continue
        elif py in BOOLOPS:
            # in primop_map, but ast.BoolOp is not a translated expression class (checked above): the entry is dead
            rows.append(dict(py=py, sym=SYMBOL[py], kind="dead", name=name, cast=None, emit=name, post=None, operands_cast=False))
            continue
        else:
            raise TranslationError(f"primop_map entry ast.{py}: not a python operator class the model knows")
        rows.append(dict(py=py, sym=SYMBOL[py], kind=kind, name=name, **r))
    return rows


def translate_tensor(path):
    """-> {method: (op, swapped, kind)} from the reader C01 uses (plain | mod-by-dtype | not-equal)"""
    try:
        ms = T01.tensor_methods(path)
    except T01.Untranslatable as e:
        raise TranslationError(f"tensor.py: {e}") from e
    return {m: (op, swapped, kind) for m, kind, op, swapped, _a in ms if m not in UNARY_METHODS}


def eager_route(py, side, methods):
    """which Tensor method Python's data model calls for `tensor <py> literal` (side TL) or `literal <py> tensor` (LT), and
    where the literal lands: -> (op, position of the literal) | None when the spelling does not exist on Tensor"""
    d = DUNDER.get(py)
    if d is None:
        return None
    if side == "TL":
        m = f"__{d}__"
        lit_is_other = True
    elif py in ("Eq", "NotEq", "Lt", "LtE", "Gt", "GtE"):
        m = MIRROR[f"__{d}__"]
        lit_is_other = True
    else:
        m = f"__r{d}__"
        lit_is_other = True
    if m not in methods:
        return None
    op, swapped, _kind = methods[m]
    # Op(self, other) -> the literal (other) is input 1; swapped: Op(other, self) -> input 0
    return op, (0 if swapped else 1), m


def _cs(s):
    return '"' + s + '"'


def to_coq(rows, methods):
    out = ["(* GENERATED by harness/c12_operators.py from onnxscript/_internal/converter.py (primop_map, _translate_binary_op_expr,",
           "   _translate_compare_expr partially evaluated on every operator name) and onnxscript/tensor.py -- do not edit. *)",
           "From Coq Require Import List String.", "Require Import OV.Autocast.Operators.", "Import ListNotations.", "Local Open Scope string_scope.", "",
           "(* python operator, symbol, operator whose signature drives the cast-like step, operator of the node that receives the",
           "   two operands, operator applied to its result *)",
           "Definition converter_spellings : list spelling := ["]
    rs = [r for r in rows if r["kind"] in ("binary", "compare")]
    out.append(";\n".join(f"  mkSp {_cs(r['py'])} {_cs(r['sym'])} {('(Some ' + _cs(r['cast']) + ')') if r['cast'] else 'None'} {_cs(r['emit'])} "
                          f"{('(Some ' + _cs(r['post']) + ')') if r['post'] else 'None'} {'true' if r['operands_cast'] else 'false'}" for r in rs))
    out.append("].")
    out.append("")
    out.append("(* Tensor.__op__(self, other) = self._opset.<op>(self, other)  (swapped: <op>(other, self)) *)")
    out.append("Definition tensor_methods : list tmethod := [")
    out.append(";\n".join(f"  mkTm {_cs(m)} {_cs(op)} {'true' if sw else 'false'}" for m, (op, sw, _k) in methods.items()))
    out.append("].")
    return "\n".join(out) + "\n"
