(* Groundwork for the converse of build_computes_trace_cf_partial (reading undefined => evaluation fails;
   TraceCFProofs.build_computes_trace_cf_full is still unproved for traces with bodies): the converse invariant
   `inv2` (the graph environment binds no value name that the reading has not bound), its preservation when
   CastLike outputs and freshly created values are bound, and the fact that the CastLike nodes define exactly the
   new anonymous names.  Hypothesis beyond the partial theorem: "?undefined" (the name of a value id that does not
   exist) is not a defined name. *)
From Coq Require Import String List Bool Arith ZArith Lia.
Require Import OV.Graph.Syntax OV.Graph.Sem OV.Graph.SemProofs OV.Graph.Names.
Require Import OV.Builder.Strings OV.Builder.StringsProofs OV.Builder.Naming OV.Builder.NamingProofs.
Require Import OV.Builder.Trace OV.Builder.TraceProofs OV.Builder.TraceCF OV.Builder.TraceCFProofs.
Import ListNotations.
Local Open Scope list_scope.

Section ConvCF.
  Variable V : Type.
  Variable sem : string -> string -> list (string * attrv) -> list (option V) -> option (list V).
  Variable truth : V -> option bool.
  Variable trip : V -> option nat.
  Variable of_nat : nat -> V.
  Variable of_bool : bool -> V.
  Variable lim : nat.
  Variable lit_val : string -> V.
  Variable cf : bcfg.
  Variable rn : list (nat * string).
  Variable N : list string.
  Variable A : list string.
  Variable C : list (string * (string * lit)).
  Hypothesis Hnd : NoDup (N ++ A ++ cache_names C).
  Notation ud := "?undefined"%string.
  Hypothesis Hud : ~ In ud (N ++ A ++ cache_names C).

  Notation enode ev := (eval_node V sem truth trip of_nat of_bool lim ev).
  Notation runn ev := (run V sem truth trip of_nat of_bool lim ev).
  Notation vlook := (vlook V).
  Notation vbind := (vbind V).
  Notation cargs := (cargs V sem lit_val).
  Notation cok := (cache_ok V lit_val C).
  Notation lok := (lit_ok V lit_val C).
  Notation inv := (inv V N).
  Notation below := (below N A C).
  Notation creplay_call rb := (creplay_call V sem truth trip of_nat of_bool lim lit_val rb).
  Notation creplay_calls rb := (creplay_calls V sem truth trip of_nat of_bool lim lit_val rb).
  Notation rloop rb := (rloop V truth of_nat of_bool rb).

  (* the graph environment binds no value name that the reading has not bound *)
  Definition inv2 (E : venv V) (e : env V) : Prop :=
    forall id, vlook E id = None -> lookup e (nth id N ud) = None.

  Lemma nthN_cases : forall id, In (nth id N ud) N \/ nth id N ud = ud.
  Proof. intro id. destruct (nth_in_or_default id N ud); auto. Qed.

  Lemma nthN_notA : forall id, ~ In (nth id N ud) A.
  Proof.
    intros id H. destruct (nthN_cases id) as [Q|Q].
    - exact (N_notA N A C Hnd _ Q H).
    - rewrite Q in H. apply Hud. apply in_or_app. right. apply in_or_app. now left.
  Qed.

  Lemma ud_notN : ~ In ud N.
  Proof. intro H. apply Hud. apply in_or_app. now left. Qed.

  Lemma inv2_agree : forall E e e1 An, inv2 E e ->
    (forall x, ~ In x An -> lookup e1 x = lookup e x) -> (forall x, In x An -> In x A) -> inv2 E e1.
  Proof.
    intros E e e1 An I Ag Sub id Hv. rewrite Ag; [now apply I|].
    intro Q. apply (nthN_notA id). now apply Sub.
  Qed.

  Lemma inv2_bind : forall E e k vs P names R, inv2 E e ->
    N = P ++ names ++ R -> List.length P = k -> List.length names = List.length vs ->
    inv2 (vbind k vs E) (combine names vs ++ e).
  Proof.
    intros E e k vs P names R I HN HP Hl id Hv. rewrite vlook_vbind in Hv. unfold vname in *.
    destruct ((k <=? id) && (id <? k + List.length vs)) eqn:Eb.
    - apply andb_true_iff in Eb as [E1 E2]. apply Nat.leb_le in E1. apply Nat.ltb_lt in E2.
      apply nth_error_None in Hv. lia.
    - rewrite lookup_combine_notin; [now apply I|].
      intro Hin. destruct (Nat.lt_ge_cases id (List.length N)) as [Hlt|Hge].
      + (* a position outside the new segment cannot carry a name of the segment *)
        apply In_nth with (d := ud) in Hin as [j [Hj Ej]]. unfold vname in *.
        pose proof (ndN N A C Hnd) as HndN.
        assert (Epos : nth (k + j) N ud = nth j names ud).
        { rewrite HN. rewrite app_nth2; [|lia]. rewrite HP. replace (k + j - k) with j by lia. rewrite app_nth1; [reflexivity|exact Hj]. }
        assert (Hkj : k + j < List.length N).
        { rewrite HN, !app_length. lia. }
        rewrite <- Epos in Ej.
        pose proof (proj1 (NoDup_nth N ud) HndN (k + j) id Hkj Hlt Ej) as Q.
        apply andb_false_iff in Eb as [Eb|Eb]; [apply Nat.leb_gt in Eb|apply Nat.ltb_ge in Eb]; lia.
      + rewrite nth_overflow in Hin by lia. apply ud_notN. rewrite HN. apply in_or_app. right. apply in_or_app. now left.
  Qed.

  (* definitions of the CastLike nodes = the new anonymous names *)
  Lemma resolve_defs : forall args st s local s' local' ins pre,
    resolve cf st s local args = (s', local', ins, pre) -> b_anon s' = b_anon s ++ defs_nodes pre.
  Proof.
    induction args as [|a r IH]; intros st s local s' local' ins pre H.
    - cbn in H. inversion H; subst. cbn. now rewrite app_nil_r.
    - destruct a as [id | l | l like | ]; cbn [resolve] in H.
      + destruct (resolve cf st s local r) as [[[s1 l1] ins1] pre1] eqn:Er. inversion H; subst. eauto.
      + destruct (promote s l) as [s0 n] eqn:Epr.
        destruct (resolve cf st s0 local r) as [[[s1 l1] ins1] pre1] eqn:Er. inversion H; subst.
        destruct (promote_ext _ _ _ _ Epr) as (_ & Q & _). rewrite <- Q. eauto.
      + destruct (promote s l) as [s0 n] eqn:Epr. cbv zeta in H.
        remember (note_anon (bump s0 (node_name st "CastLike" (cnt cf s0 local)))
                            (qualify_value st (base_name "CastLike" (cnt cf s0 local)))) as s3 eqn:Es3.
        destruct (resolve cf st s3 (S local) r) as [[[s1 l1] ins1] pre1] eqn:Er. inversion H; subst s' local' ins pre.
        destruct (promote_ext _ _ _ _ Epr) as (_ & Q & _).
        rewrite (IH _ _ _ _ _ _ _ Er), Es3. cbn. rewrite Q. unfold defs_nodes. cbn. now rewrite <- app_assoc.
      + destruct (resolve cf st s local r) as [[[s1 l1] ins1] pre1] eqn:Er. inversion H; subst. eauto.
  Qed.
End ConvCF.
