(* C05, session 6: the elementwise rule families over EXTENDED values (NaN, +inf, -inf; kernel semantics of onnxruntime,
   measured on every run) and the exactness of every matched constant.  Statements only, each closed by `exact`. *)
From Coq Require Import ZArith QArith List Bool String.
Require Import OV.Rules.XVal OV.Rules.XValProofs OV.Rules.XNoOp OV.Rules.XNoOpProofs OV.Gen.C05Consts OV.Rules.XConstProofs.
Import ListNotations.

(* ---- _fuse_relus_clips.py: for EVERY input value (NaN and both infinities included) ------------------------- *)
Theorem C05_xval_successive_relu : forall x, XVal.relu (XVal.relu x) = XVal.relu x.
Proof. exact relurelu_x. Qed.
Print Assumptions C05_xval_successive_relu.

(* Clip(Relu(x), lo, hi) -> Clip(x, max(0, lo), hi): sound for every x when no bound is NaN (infinite / absent bounds allowed) *)
Theorem C05_xval_clip_relu : forall M lo hi x, (0 < M)%Z -> wfx M x -> wfo M lo -> wfo M hi ->
  safe_relu lo hi = true -> XVal.rhs M (XVal.cliprelu_bounds lo hi) x = XVal.lhs_cliprelu M lo hi x.
Proof. exact cliprelu_x_sound. Qed.
Print Assumptions C05_xval_clip_relu.

Theorem C05_xval_relu_clip : forall M lo hi x, (0 < M)%Z -> wfx M x -> wfo M lo -> wfo M hi ->
  safe_relu lo hi = true -> XVal.rhs M (XVal.reluclip_bounds lo hi) x = XVal.lhs_reluclip M lo hi x.
Proof. exact reluclip_x_sound. Qed.
Print Assumptions C05_xval_relu_clip.

(* Clip(Clip(x)): sound for every x when no bound is NaN, no absent bound is paired with an infinite one, and no lower
   bound is +inf / upper bound is -inf *)
Theorem C05_xval_successive_clip : forall M l1 h1 l2 h2 x, (0 < M)%Z -> wfx M x -> wfo M l1 -> wfo M h1 -> wfo M l2 -> wfo M h2 ->
  safe_clipclip l1 h1 l2 h2 = true -> XVal.rhs M (XVal.clipclip_bounds l1 h1 l2 h2) x = XVal.lhs_clipclip M l1 h1 l2 h2 x.
Proof. exact clipclip_x_sound. Qed.
Print Assumptions C05_xval_successive_clip.

(* the excluded cases are real (finding C05:clip:nan-bound): the fused bound is NaN (numpy propagates), which Clip ignores *)
Theorem C05_xval_clip_relu_nan_bound_refuted : exists M lo hi x, (0 < M)%Z /\ wfx M x /\ wfo M lo /\ wfo M hi /\
  XVal.rhs M (XVal.cliprelu_bounds lo hi) x <> XVal.lhs_cliprelu M lo hi x.
Proof. exact cliprelu_nan_bound_refuted. Qed.
Print Assumptions C05_xval_clip_relu_nan_bound_refuted.

Theorem C05_xval_relu_clip_nan_bound_refuted : exists M lo hi x, (0 < M)%Z /\ wfx M x /\ wfo M lo /\ wfo M hi /\
  XVal.rhs M (XVal.reluclip_bounds lo hi) x <> XVal.lhs_reluclip M lo hi x.
Proof. exact reluclip_nan_bound_refuted. Qed.
Print Assumptions C05_xval_relu_clip_nan_bound_refuted.

Theorem C05_xval_successive_clip_nan_bound_refuted : exists M l1 h1 l2 h2 x, (0 < M)%Z /\ wfx M x /\
  XVal.rhs M (XVal.clipclip_bounds l1 h1 l2 h2) x <> XVal.lhs_clipclip M l1 h1 l2 h2 x.
Proof. exact clipclip_nan_bound_refuted. Qed.
Print Assumptions C05_xval_successive_clip_nan_bound_refuted.

(* finding C05:clip:ClipClip:absent-bound-clamps-infinity: an absent bound clamps +-inf to +-max(), a present infinite one does not *)
Theorem C05_xval_successive_clip_absent_vs_infinite_refuted : exists M l1 h1 l2 h2 x, (0 < M)%Z /\ wfx M x /\
  not_nan_o l1 && not_nan_o h1 && not_nan_o l2 && not_nan_o h2 = true /\
  XVal.rhs M (XVal.clipclip_bounds l1 h1 l2 h2) x <> XVal.lhs_clipclip M l1 h1 l2 h2 x.
Proof. exact clipclip_absent_vs_infinite_refuted. Qed.
Print Assumptions C05_xval_successive_clip_absent_vs_infinite_refuted.

Theorem C05_xval_successive_clip_degenerate_infinite_refuted : exists M l1 h1 l2 h2 x, (0 < M)%Z /\ wfx M x /\
  not_nan_o l1 && not_nan_o h1 && not_nan_o l2 && not_nan_o h2 = true /\
  XVal.rhs M (XVal.clipclip_bounds l1 h1 l2 h2) x <> XVal.lhs_clipclip M l1 h1 l2 h2 x.
Proof. exact clipclip_degenerate_infinite_refuted. Qed.
Print Assumptions C05_xval_successive_clip_degenerate_infinite_refuted.

(* ---- _min_max_to_clip.py -------------------------------------------------------------------------------------- *)
(* Min(Min) / Max(Max): every x and every constant, NaN included; the two Clip fusions: every x, constants not NaN *)
Theorem C05_xval_minmax : forall M k cs ds x v, cs <> [] -> ds <> [] ->
  (match k with MinMin | MaxMax => true | _ => no_nans cs && no_nans ds end) = true ->
  mm_rhs M k cs ds x = Some v -> v = mm_lhs k cs ds x.
Proof. exact minmax_x_sound. Qed.
Print Assumptions C05_xval_minmax.

(* finding C05:minmax:nan-bound *)
Theorem C05_xval_max_min_clip_nan_refuted : exists M cs ds x v, mm_rhs M MaxMinClip cs ds x = Some v /\ v <> mm_lhs MaxMinClip cs ds x.
Proof. exact maxminclip_nan_refuted. Qed.
Print Assumptions C05_xval_max_min_clip_nan_refuted.

Theorem C05_xval_min_max_clip_nan_refuted : exists M cs ds x v, mm_rhs M MinMaxClip cs ds x = Some v /\ v <> mm_lhs MinMaxClip cs ds x.
Proof. exact minmaxclip_nan_refuted. Qed.
Print Assumptions C05_xval_min_max_clip_nan_refuted.

(* ---- _no_op.py: IEEE arithmetic with NaN / infinities; constant matched with the tolerances of the source (0, 0) -- *)
Theorem C05_xval_noop : forall o r c x, XNoOp.fires 0 0 o r c = true -> xq_eq (XNoOp.lhs o c x) x.
Proof. exact noop_x_sound. Qed.
Print Assumptions C05_xval_noop.

Theorem C05_xval_noop_default_tolerance_refuted : forall o, exists c x,
  XNoOp.fires (1 # 100000) (1 # 100000000) o 0 c = true /\ ~ xq_eq (XNoOp.lhs o c x) x.
Proof. exact noop_x_default_tolerance_refuted. Qed.
Print Assumptions C05_xval_noop_default_tolerance_refuted.

Theorem C05_xval_special_constant_never_matches : forall np rel abs t c,
  (c = QNaN \/ c = QNInf \/ c = QPInf) -> match_const np rel abs t c = false.
Proof. exact special_constant_never_matches. Qed.
Print Assumptions C05_xval_special_constant_never_matches.

(* the sign of a zero: x*1, 1*x, x/1 keep it; x + c / c + x / x - c keep it except at the listed sign combination *)
Theorem C05_xval_zero_sign_kept_iff : forall o c x,
  zlhs o c x = x <-> match o with
                     | AddR | AddL => ~ (x = NZ /\ c = PZ)
                     | SubR => ~ (x = NZ /\ c = NZ)
                     | _ => True
                     end.
Proof. exact zero_sign_kept_iff. Qed.
Print Assumptions C05_xval_zero_sign_kept_iff.

(* finding C05:noop:add-zero:negative-zero-sign: 1 / (x + 0) at x = -0.0 is +inf, 1 / x is -inf *)
Theorem C05_xval_add_zero_negative_zero_refuted : exists c x,
  recip (zlhs AddR c x) <> recip x /\ recip (zlhs AddL c x) <> recip x.
Proof. exact add_zero_negative_zero_refuted. Qed.
Print Assumptions C05_xval_add_zero_negative_zero_refuted.

(* ---- "value only approximately equal ... does not fire": the regenerated table of matched constants ------------- *)
Theorem C05_consts_exact_or_listed : forallb (fun e => ce_ok e || ce_listed e) C05Consts.table = true.
Proof. exact table_checked. Qed.
Print Assumptions C05_consts_exact_or_listed.

(* every entry that is not one of the two listed numpy.isclose tests matches nothing but its value *)
Theorem C05_consts_sound_partial : forall e, In e C05Consts.table -> ce_listed e = false ->
  (ce_exact e = true /\ forall c, ce_matches e c = true -> exists q, c = QFin q /\ (q == ce_value e)%Q) \/
  (ce_int_ok e = true /\ forall z, ce_matches e (QFin (inject_Z z)) = true -> (inject_Z z == ce_value e)%Q).
Proof. exact table_sound. Qed.
Print Assumptions C05_consts_sound_partial.

(* what the full statement would be (false while HardSwishFusionFromHardSigmoid uses numpy.isclose: see the refutation) *)
Definition C05_consts_sound_full : Prop := forall e, In e C05Consts.table ->
  forall c, ce_matches e c = true -> exists q, c = QFin q /\ (q == ce_value e)%Q.

Theorem C05_consts_numpy_default_tolerance_refuted : exists c,
  np_isclose c (1 # 6) (1 # 100000) (1 # 100000000) = true /\ ~ (c == 1 # 6)%Q.
Proof. exact numpy_default_tolerance_refuted. Qed.
Print Assumptions C05_consts_numpy_default_tolerance_refuted.

Theorem C05_consts_table_has_the_float_constants :
  (6 <=? List.length (filter (fun e => match ce_kind e with KPattern => ce_exact e | _ => false end) C05Consts.table))%nat = true /\
  (4 <=? List.length (filter (fun e => match ce_kind e with KSingleton => ce_exact e | _ => false end) C05Consts.table))%nat = true.
Proof. exact table_has_the_float_constants. Qed.
Print Assumptions C05_consts_table_has_the_float_constants.
