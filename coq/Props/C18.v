(* C18 property theorems: statements only, each closed by `exact`, Print Assumptions beneath.
   Model A (module trees -> initializer names): coq/Builder/Modules.v, proofs in ModulesProofs.v. *)
From Coq Require Import String List Bool.
Require Import OV.Builder.Strings OV.Builder.Modules OV.Builder.ModulesProofs.
Import ListNotations.
Local Open Scope string_scope.

(* --- Model A: "every module parameter appears exactly once as an initializer whose name is the dotted
   module path, equal to the keys of state_dict()/named_parameters() prefixed with the root's name".
   For every construction program s (any depth; Module / ModuleList / Sequential; constructor, early and
   late appends; slices; unnamed or consistently named children; named or unnamed root) whose
   hypotheses `program_okb` hold, under either behaviour `cf` of the three probed code paths.
   Not covered: the order in which a user-written forward() calls its children (the model calls every
   child once, in registration order); modules shared between two parents. *)
Theorem C18_param_names_eq_state_dict : forall cf s, program_okb cf s = true ->
  realised_names cf (construct cf s) =
  map (prefix (root_name (construct cf s))) (sd_keys (construct cf s)).
Proof. exact param_names_eq_state_dict. Qed.
Print Assumptions C18_param_names_eq_state_dict.

Theorem C18_params_once : forall cf s, program_okb cf s = true ->
  NoDup (realised_names cf (construct cf s)) /\
  List.length (realised_names cf (construct cf s)) = List.length (param_ids (construct cf s)).
Proof. exact params_once. Qed.
Print Assumptions C18_params_once.

(* the hypotheses are satisfiable on a depth-4 program mixing all constructs *)
Example C18_program_hypotheses_satisfiable :
  program_okb cfg_pinned (ex_program (Some "model")) = true /\
  program_okb cfg_pinned (ex_program None) = true /\
  program_okb cfg_fixed (ex_program (Some "model")) = true.
Proof. exact ex_program_ok. Qed.

(* the tree-level statement behind it: any object graph whose names are propagated (`shape_ok`) *)
Theorem C18_realised_names_tree : forall cf t, tree_hyps cf t ->
  realised_names cf t = map (prefix (root_name t)) (sd_keys t).
Proof. exact realised_names_tree. Qed.
Print Assumptions C18_realised_names_tree.

(* every consistent construction program propagates names correctly, whatever the order of
   constructor arguments, appends before / after attachment and slicing *)
Theorem C18_construction_propagates_names : forall cf s,
  consistentb URoot s = true -> shape_ok (construct cf s).
Proof. exact construct_shape. Qed.
Print Assumptions C18_construction_propagates_names.

Theorem C18_state_dict_keys_unique : forall t, keys_okb t = true -> NoDup (sd_keys t).
Proof. exact sd_keys_nodup. Qed.
Print Assumptions C18_state_dict_keys_unique.

(* --- outside the hypotheses: the faithful model deviates; each witness is replayed on the real code *)
Theorem C18_named_child_appended_refuted :
  static_okb cfg_pinned (construct cfg_pinned w_named_append) = true /\
  names_match cfg_pinned w_named_append = false /\
  names_match cfg_pinned w_named_init = true /\
  names_match cfg_fixed w_named_append = true.
Proof. exact named_child_appended_refuted. Qed.
Print Assumptions C18_named_child_appended_refuted.

Theorem C18_shared_parameter_refuted :
  consistentb URoot w_shared = true /\ keys_okb (construct cfg_pinned w_shared) = true /\
  realised_names cfg_pinned (construct cfg_pinned w_shared) = ["root.a.weight"] /\
  sd_keys (construct cfg_pinned w_shared) = ["a.weight"; "b.weight"].
Proof. exact shared_parameter_refuted. Qed.
Print Assumptions C18_shared_parameter_refuted.

Theorem C18_module_in_subgraph_refuted :
  consistentb URoot w_subgraph = true /\ keys_okb (construct cfg_pinned w_subgraph) = true /\
  nodup_natb (param_ids (construct cfg_pinned w_subgraph)) = true /\
  realised_names cfg_pinned (construct cfg_pinned w_subgraph) = ["root.weight"] /\
  sd_keys (construct cfg_pinned w_subgraph) = ["a.weight"; "b.weight"] /\
  names_match cfg_fixed w_subgraph = true.
Proof. exact module_in_subgraph_refuted. Qed.
Print Assumptions C18_module_in_subgraph_refuted.

Theorem C18_qualify_not_injective_refuted :
  exists st1 n1 st2 n2, (st1, n1) <> (st2, n2) /\ qualify_init st1 n1 = qualify_init st2 n2.
Proof. exact qualify_not_injective_refuted. Qed.
Print Assumptions C18_qualify_not_injective_refuted.

Theorem C18_dotted_name_collision_refuted :
  nodup_natb (param_ids (construct cfg_pinned w_dotted)) = true /\
  List.length (param_ids (construct cfg_pinned w_dotted)) = 2 /\
  realised_names cfg_pinned (construct cfg_pinned w_dotted) = ["root.a.b.weight"].
Proof. exact dotted_name_collision_refuted. Qed.
Print Assumptions C18_dotted_name_collision_refuted.

Theorem C18_nested_unattached_list_refuted :
  consistentb URoot w_nested_unattached = true /\
  static_okb cfg_pinned (construct cfg_pinned w_nested_unattached) = true /\
  realised_names cfg_pinned (construct cfg_pinned w_nested_unattached) = ["0.weight"] /\
  sd_keys (construct cfg_pinned w_nested_unattached) = ["0.0.weight"] /\
  names_match cfg_fixed w_nested_unattached = true.
Proof. exact nested_unattached_list_refuted. Qed.
Print Assumptions C18_nested_unattached_list_refuted.
