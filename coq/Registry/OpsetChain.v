(* C17 -- model of the class skeleton the generator writes (opgen/onnx_opset_builder.py, _make_opset_modules /
   _make_opset_module): which classes exist, what each one derives from, which methods each one defines itself.
   No proofs in this file.

   for schema in sorted(get_all_schemas_with_history(), key=(domain, since_version, name)):
       [as read: if schema.deprecated: continue]                      -- `skip`
       class (domain, since_version) is created on first use, unless excluded (-x / --exclude)
           name  Opset<_domain with . -> _><version>
           base  the class of (domain, version - 1) when version > 1 (whether or not such a class is generated),
                 onnxscript.values.Opset otherwise
       the method emitted for the schema (Registry/OpsetEmit.emit_method) is appended to that class
   So a class defines itself exactly the operators whose since_version is its version and inherits the rest
   from the previous version of the domain. *)
From Coq Require Import List String ZArith Bool Ascii DecimalString.
Import ListNotations.
Require Import OV.Registry.OpsetMethod OV.Registry.OpsetEmit.
Local Open Scope string_scope.
Local Open Scope list_scope.

Fixpoint dots_to_underscores (s : string) : string :=
  match s with
  | EmptyString => EmptyString
  | String c t => String (if Ascii.eqb c "."%char then "_"%char else c) (dots_to_underscores t)
  end.

(* _make_class_name *)
Definition class_name (dom : string) (ver : Z) : string :=
  "Opset" ++ (match dom with EmptyString => "" | _ => "_" ++ dots_to_underscores dom end)
          ++ NilZero.string_of_int (Z.to_int ver).

Definition ckey := (string * Z)%type.
Definition key_eqb (a b : ckey) : bool := String.eqb (fst a) (fst b) && Z.eqb (snd a) (snd b).
Definition key_mem (k : ckey) (l : list ckey) : bool := existsb (key_eqb k) l.

(* the (domain, version) pairs that get a class: every version of every domain that has a schema the
   generator does not skip, minus the excluded ones; domains in order of first appearance, versions ascending *)
Definition domains_of (reg : list schema) : list string := nodup_names [] (map s_domain reg).
Definition has_version (skip : schema -> bool) (reg : list schema) (dom : string) (v : Z) : bool :=
  existsb (fun s => String.eqb (s_domain s) dom && Z.eqb (s_since s) v && negb (skip s)) reg.
Definition max_since (reg : list schema) (dom : string) : Z :=
  fold_right (fun s acc => if String.eqb (s_domain s) dom then Z.max (s_since s) acc else acc) 0%Z reg.
Definition versions_of (skip : schema -> bool) (reg : list schema) (dom : string) : list Z :=
  filter (has_version skip reg dom) (map Z.of_nat (seq 1 (Z.to_nat (max_since reg dom)))).
Definition class_keys (skip : schema -> bool) (excl : list ckey) (reg : list schema) : list ckey :=
  filter (fun k => negb (key_mem k excl))
         (flat_map (fun d => map (pair d) (versions_of skip reg d)) (domains_of reg)).

Definition emit_class (skip : schema -> bool) (reg : list schema) (k : ckey) : cls :=
  mkC (class_name (fst k) (snd k))
      (if Z.leb (snd k) 1 then None else Some (class_name (fst k) (snd k - 1)))
      (fst k) (snd k)
      (emit_methods skip reg (fst k) (snd k)).

Definition emit_classes (skip : schema -> bool) (excl : list ckey) (reg : list schema) : list cls :=
  map (emit_class skip reg) (class_keys skip excl reg).

(* ------------------------------------------------------------------ well-formed registries *)

(* no two registered schemas share (name, domain, since_version): per operator the since_versions are
   pairwise different, i.e. strictly increasing along the operator's history *)
Fixpoint uniq_keysb (reg : list schema) : bool :=
  match reg with
  | [] => true
  | s :: t => negb (existsb (has_key (s_name s) (s_since s) (s_domain s)) t) && uniq_keysb t
  end.

(* every class that derives from a previous version finds that version among the generated classes *)
Definition chain_okb (keys : list ckey) : bool :=
  forallb (fun k => Z.leb (snd k) 1 || key_mem (fst k, (snd k - 1)%Z) keys) keys.

(* What the generator needs of (registry, exclusions) for the modules it writes to import and to mean what the
   theorem says:
   - every schema passes the per-method test's precondition (OpsetEmit.schema_wfb);
   - (name, domain, since_version) identifies a schema; since_version >= 1;
   - the class names are pairwise different (the name folds '.' and '_' of the domain together);
   - base classes exist (no gap in the versions of a domain below a generated class, nothing in between excluded). *)
Definition reg_wfb (skip : schema -> bool) (excl : list ckey) (reg : list schema) : bool :=
  forallb schema_wfb reg && uniq_keysb reg && forallb (fun s => Z.leb 1 (s_since s)) reg &&
  nodupb (map c_name (emit_classes skip excl reg)) &&
  chain_okb (class_keys skip excl reg) && forallb (fun k => Z.leb 1 (snd k)) (class_keys skip excl reg).

(* ------------------------------------------------------------------ comparing with extracted classes *)

Definition ostr_eqb (a b : option string) : bool :=
  match a, b with Some x, Some y => String.eqb x y | None, None => true | _, _ => false end.
Definition class_eqb (a b : cls) : bool :=
  String.eqb (c_name a) (c_name b) && ostr_eqb (c_base a) (c_base b) && String.eqb (c_domain a) (c_domain b) &&
  Z.eqb (c_version a) (c_version b) && list_eqb method_eqb (c_methods a) (c_methods b).
Definition classes_eqb (a b : list cls) : bool := list_eqb class_eqb a b.

(* report: names of classes on either side without an equal partner *)
Definition classes_diff (a b : list cls) : list string :=
  map c_name (filter (fun c => negb (existsb (class_eqb c) b)) a) ++
  map c_name (filter (fun c => negb (existsb (fun c' => class_eqb c' c) a)) b).
