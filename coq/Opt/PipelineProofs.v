(* Composition: a Sequential of semantics-preserving stages, and a PassManager with any number of steps and with or
   without early stop over semantics-preserving stages, are semantics-preserving; hence optimize_ir for every option
   tuple, given soundness of each stage.  Stated for any notion of model M with a reflexive, transitive refinement.
   Instances: M = graph (stages DCE, checked CSE modelled) and M = graph with its table of initializer values (DCE, CSE,
   lift constants, lift subgraph initializers, de-duplicate initializers modelled); the stages without a model are Section
   hypotheses (listed in the trusted base by the harness). *)
From Coq Require Import List String ZArith Bool Lia.
Require Import OV.Graph.Syntax OV.Graph.Sem OV.Opt.Dce OV.Opt.DceProofs OV.Opt.Cse OV.Opt.CseProofs OV.Opt.Use OV.Opt.UseProofs.
Require Import OV.Opt.Inits OV.Opt.InitsProofs OV.Opt.Pipeline.
Import ListNotations.
Local Open Scope list_scope.

Section G.
  Variable M : Type.
  Variable Rf : M -> M -> Prop.
  Hypothesis Rf_refl : forall m, Rf m m.
  Hypothesis Rf_trans : forall a b c, Rf a b -> Rf b c -> Rf a c.

  Definition stage_ok (s : mstage M) : Prop := forall g g' m, s g = Some (g', m) -> Rf g g'.

  Theorem run_seq_ok l : Forall stage_ok l -> stage_ok (run_seq l).
  Proof.
    induction l as [|s t IH]; intros Hl g g' m; cbn.
    - intro H; inversion H; subst. apply Rf_refl.
    - inversion Hl; subst. destruct (s g) as [[g1 m1]|] eqn:E; [|discriminate].
      destruct (run_seq t g1) as [[g2 m2]|] eqn:E2; [|discriminate]. intro H; inversion H; subst.
      apply (Rf_trans g g1 g'); [exact (H1 _ _ _ E)|exact (IH H2 _ _ _ E2)].
  Qed.

  Theorem run_manager_ok steps early_stop body : Forall stage_ok body -> stage_ok (run_manager steps early_stop body).
  Proof.
    intro Hb. induction steps as [|k IH]; intros g g' m; cbn.
    - intro H; inversion H; subst. apply Rf_refl.
    - destruct (run_seq body g) as [[g1 m1]|] eqn:E; [|discriminate].
      pose proof (run_seq_ok body Hb _ _ _ E) as R1.
      destruct (early_stop && negb m1).
      + intro H; inversion H; subst. exact R1.
      + destruct (run_manager k early_stop body g1) as [[g2 m2]|] eqn:E2; [|discriminate]. intro H; inversion H; subst.
        apply (Rf_trans g g1 g'); [exact R1|exact (IH _ _ _ E2)].
  Qed.

  Theorem optimize_ir_model_ok : forall inline num_iterations stop_if_no_change prefix loop post,
    Forall stage_ok prefix -> Forall stage_ok loop -> Forall stage_ok post ->
    stage_ok (optimize_ir_model inline num_iterations stop_if_no_change prefix loop post).
  Proof.
    intros inline n stop prefix loop post Hp Hl Hq. unfold optimize_ir_model. apply run_seq_ok.
    apply Forall_app. split; [destruct inline; [exact Hp|constructor]|].
    constructor; [apply run_manager_ok; exact Hl|exact Hq].
  Qed.
End G.

Section C.
  Variable V : Type.
  Variable sem : string -> string -> list (string * attrv) -> list (option V) -> option (list V).
  Variable truth : V -> option bool.
  Variable trip : V -> option nat.
  Variable of_nat : nat -> V.
  Variable of_bool : bool -> V.
  Variable limit : nat.

  Notation refines := (grefines V sem truth trip of_nat of_bool limit).
  Definition mstage_sound (s : mstage graph) : Prop := stage_ok graph refines s.

  Lemma refines_refl g : refines g g.
  Proof. intros F outer args r H; exact H. Qed.
  Lemma refines_trans a b c : refines a b -> refines b c -> refines a c.
  Proof. intros A B F outer args r H. apply B, A, H. Qed.

  Theorem run_seq_sound l : Forall mstage_sound l -> mstage_sound (run_seq l).
  Proof. apply run_seq_ok; [exact refines_refl|exact refines_trans]. Qed.
  Theorem run_manager_sound steps early_stop body : Forall mstage_sound body -> mstage_sound (run_manager steps early_stop body).
  Proof. apply run_manager_ok; [exact refines_refl|exact refines_trans]. Qed.
  Theorem optimize_ir_model_sound : forall inline num_iterations stop_if_no_change prefix loop post,
    Forall mstage_sound prefix -> Forall mstage_sound loop -> Forall mstage_sound post ->
    mstage_sound (optimize_ir_model inline num_iterations stop_if_no_change prefix loop post).
  Proof. apply optimize_ir_model_ok; [exact refines_refl|exact refines_trans]. Qed.

  (* the modelled stages *)
  Definition dce_stage (modified : graph -> bool) : mstage graph := fun g => Some (dce g, modified g).
  Definition cse_stage (modified : graph -> bool) : mstage graph := fun g => match cse_checked g with Some g' => Some (g', modified g) | None => None end.

  Lemma dce_stage_sound f : mstage_sound (dce_stage f).
  Proof. intros g g' m H. inversion H; subst. intros F outer args r X. apply dce_sound. exact X. Qed.
  Lemma cse_stage_sound f : mstage_sound (cse_stage f).
  Proof.
    intros g g' m. unfold cse_stage. destruct (cse_checked g) as [g1|] eqn:E; [|discriminate].
    intro H; inversion H; subst. exact (cse_checked_sound V sem truth trip of_nat of_bool limit g g' E).
  Qed.

  (* optimize_ir with the pass list of the source: the stages without a model are hypotheses *)
  Section Assumed.
    Variables inline_pass fold_pass rewrite_pass unused_functions unused_opsets lift_constants lift_subgraph_initializers
              dedup_initializers output_fix name_fix : mstage graph.
    Hypothesis inline_sound : mstage_sound inline_pass.
    Hypothesis fold_sound : mstage_sound fold_pass.                 (* Props/C03.v: C03_fold_graph_sound_partial *)
    Hypothesis rewrite_sound : mstage_sound rewrite_pass.           (* C05 (rules) + C07 (application) *)
    Hypothesis unused_functions_sound : mstage_sound unused_functions.
    Hypothesis unused_opsets_sound : mstage_sound unused_opsets.
    Hypothesis lift_constants_sound : mstage_sound lift_constants.
    Hypothesis lift_subgraph_initializers_sound : mstage_sound lift_subgraph_initializers.
    Hypothesis dedup_initializers_sound : mstage_sound dedup_initializers.
    Hypothesis output_fix_sound : mstage_sound output_fix.
    Hypothesis name_fix_sound : mstage_sound name_fix.

    Definition optimize_ir_stages (f1 f2 f3 : graph -> bool) (inline : bool) (n : nat) (stop : bool) : mstage graph :=
      optimize_ir_model inline n stop [inline_pass]
        [fold_pass; rewrite_pass; dce_stage f1; unused_functions; unused_opsets]
        [dce_stage f2; lift_constants; lift_subgraph_initializers; dedup_initializers; cse_stage f3; output_fix; name_fix].

    Theorem optimize_ir_sound : forall f1 f2 f3 inline n stop, mstage_sound (optimize_ir_stages f1 f2 f3 inline n stop).
    Proof.
      intros. unfold optimize_ir_stages. apply optimize_ir_model_sound; repeat constructor;
        auto using dce_stage_sound, cse_stage_sound.
    Qed.
  End Assumed.

  (* ================================================================ graph + initializer values *)
  Variable tok_val : token -> option V.
  Hypothesis Hconst : const_oracle V sem tok_val.

  Definition imodel := (graph * itab)%type.
  Definition irefines (m m' : imodel) : Prop := forall F args r,
    eval_model V sem truth trip of_nat of_bool limit tok_val F [] (fst m) (snd m) args = Some r ->
    eval_model V sem truth trip of_nat of_bool limit tok_val F [] (fst m') (snd m') args = Some r.
  Definition istage_sound (s : mstage imodel) : Prop := stage_ok imodel irefines s.

  Lemma irefines_refl m : irefines m m.
  Proof. intros F args r H; exact H. Qed.
  Lemma irefines_trans a b c : irefines a b -> irefines b c -> irefines a c.
  Proof. intros A B F args r H. apply B, A, H. Qed.

  Definition i_dce (f : imodel -> bool) : mstage imodel := fun m => Some ((dce (fst m), snd m), f m).
  Definition i_cse (f : imodel -> bool) : mstage imodel :=
    fun m => match cse_checked (fst m) with Some g' => Some ((g', snd m), f m) | None => None end.
  (* the side conditions of lift_sound are checked by the stage: distinct table names, no lifted name bound inside the result *)
  Definition i_lift (f : imodel -> bool) : mstage imodel :=
    fun m => match lift (fst m) (snd m) with
             | Some (g', t') =>
               if nodupb (map fst t') && forallb (fun b => match tab_get b (collect (depth_graph (fst m)) (fst m)) with None => true | Some _ => false end) (binds_graph g')
               then Some ((g', t'), f m) else None
             | None => None
             end.
  Definition i_hoist (f : imodel -> bool) : mstage imodel :=
    fun m => match hoist (fst m) with Some g' => Some ((g', snd m), f m) | None => None end.
  Definition i_dedup (f : imodel -> bool) : mstage imodel := fun m => Some (dedup (fst m) (snd m), f m).

  Lemma i_dce_sound f : istage_sound (i_dce f).
  Proof. intros [g t] m' b H. inversion H; subst. intros F args r X. cbn in *. unfold eval_model in *. apply dce_sound. exact X. Qed.
  Lemma i_cse_sound f : istage_sound (i_cse f).
  Proof.
    intros [g t] m' b. unfold i_cse. cbn [fst snd]. destruct (cse_checked g) as [g1|] eqn:E; [|discriminate].
    intro H; inversion H; subst. intros [|F] args r X; [discriminate|]. cbn [fst snd] in *. unfold eval_model in *.
    exact (cse_checked_sound V sem truth trip of_nat of_bool limit g g1 E F _ args r X).
  Qed.
  Lemma i_lift_sound f : istage_sound (i_lift f).
  Proof.
    intros [g t] m' b. unfold i_lift. cbn [fst snd]. destruct (lift g t) as [[g' t']|] eqn:L; [|discriminate].
    destruct (nodupb (map fst t') && _) eqn:G; [|discriminate]. intro H; inversion H; subst.
    apply andb_true_iff in G. destruct G as [G1 G2]. intros F args r X. cbn [fst snd] in *.
    apply (lift_sound V sem truth trip of_nat of_bool limit tok_val Hconst g t g' t' L G1); [|reflexivity|exact X].
    intros x Hx. rewrite forallb_forall in G2. specialize (G2 x Hx). cbn [fst] in G2. destruct (tab_get x (collect (depth_graph g) g)); [discriminate|reflexivity].
  Qed.
  Lemma i_hoist_sound f : istage_sound (i_hoist f).
  Proof.
    intros [g t] m' b. unfold i_hoist. cbn [fst snd]. destruct (hoist g) as [g'|] eqn:Hh; [|discriminate].
    intro H; inversion H; subst. intros F args r X. cbn [fst snd] in *. unfold eval_model in *.
    exact (hoist_sound V sem truth trip of_nat of_bool limit g g' Hh F _ args r X).
  Qed.
  Lemma i_dedup_sound f : istage_sound (i_dedup f).
  Proof.
    intros [g t] m' b H. inversion H; subst. intros F args r X. cbn [fst snd] in *.
    destruct (dedup g t) as [g' t'] eqn:D. cbn [fst snd].
    apply (dedup_sound V sem truth trip of_nat of_bool limit tok_val g t g' t' D F [] args r); [reflexivity|exact X].
  Qed.

  Section AssumedI.
    Variables inline_pass fold_pass rewrite_pass unused_functions unused_opsets output_fix name_fix : mstage imodel.
    Hypothesis inline_sound : istage_sound inline_pass.
    Hypothesis fold_sound : istage_sound fold_pass.                 (* Props/C03.v: C03_fold_graph_sound_partial *)
    Hypothesis rewrite_sound : istage_sound rewrite_pass.           (* C05 (rules) + C07 (application) *)
    Hypothesis unused_functions_sound : istage_sound unused_functions.
    Hypothesis unused_opsets_sound : istage_sound unused_opsets.
    Hypothesis output_fix_sound : istage_sound output_fix.
    Hypothesis name_fix_sound : istage_sound name_fix.

    Definition optimize_ir_istages (f1 f2 f3 f4 f5 f6 : imodel -> bool) (inline : bool) (n : nat) (stop : bool) : mstage imodel :=
      optimize_ir_model inline n stop [inline_pass]
        [fold_pass; rewrite_pass; i_dce f1; unused_functions; unused_opsets]
        [i_dce f2; i_lift f3; i_hoist f4; i_dedup f5; i_cse f6; output_fix; name_fix].

    Theorem optimize_ir_isound : forall f1 f2 f3 f4 f5 f6 inline n stop, istage_sound (optimize_ir_istages f1 f2 f3 f4 f5 f6 inline n stop).
    Proof.
      intros. unfold optimize_ir_istages.
      apply optimize_ir_model_ok; [exact irefines_refl|exact irefines_trans| | |];
        repeat (apply Forall_cons || apply Forall_nil); try assumption;
        first [apply i_dce_sound|apply i_cse_sound|apply i_lift_sound|apply i_hoist_sound|apply i_dedup_sound].
    Qed.
  End AssumedI.
End C.
