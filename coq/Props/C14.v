(* C14 property theorems: statements only, each closed by `exact`, Print Assumptions beneath.
   Part A: set order in the converter; part B: per-match state on rule singletons / pass objects.
   Part D: script-time constants / later calls (capture disciplines, Determinism/Snapshot.v).
   Not covered by a theorem (measured by the direct oracle of harness/c14.py only): the swapped pattern
   builder, to_model_proto cloning. *)
From Coq Require Import List String Permutation.
Require Import OV.Determinism.Perm OV.Determinism.PermProofs.
Require Import OV.Determinism.MustDef OV.Determinism.MustDefProofs OV.Determinism.RuleCfgsOk OV.Gen.RuleCfgs.
Require Import OV.Determinism.KeyedCache OV.Determinism.KeyedCacheProofs OV.Determinism.EvaluatorCacheOk OV.Gen.EvaluatorCache.
Require Import OV.Determinism.Snapshot OV.Determinism.SnapshotProofs.
Require Import OV.Determinism.ProcessState OV.Determinism.ProcessStateProofs.
From Coq Require Import Arith ZArith.
Import ListNotations.

(* A. a site that lists a set with sorted(...) emits the same thing for every enumeration of the set
   (every hash seed), whatever is computed from the list afterwards *)
Theorem C14_sorted_site_deterministic : forall (R : Type) (k : list string -> R) (enum1 enum2 : list string),
  Permutation enum1 enum2 -> emit k as_sorted enum1 = emit k as_sorted enum2.
Proof. exact sorted_site_deterministic. Qed.
Print Assumptions C14_sorted_site_deterministic.

Theorem C14_sorted_site_is_listing : forall enum, Permutation (as_sorted enum) enum.
Proof. exact sorted_site_is_listing. Qed.
Print Assumptions C14_sorted_site_is_listing.

(* A. a site that uses list(set) / for v in set does not: the If interface differs between two
   enumerations of {alpha, beta, gamma} (witness replayed on the real converter under several hash seeds) *)
Theorem C14_enumerated_site_refuted : exists (enum1 enum2 : list string) (c : nat),
  NoDup enum1 /\ Permutation enum1 enum2 /\
  emit (if_site c) as_enumerated enum1 <> emit (if_site c) as_enumerated enum2.
Proof. exact enumerated_site_refuted. Qed.
Print Assumptions C14_enumerated_site_refuted.

(* A. lifted to a list of translated sites (instantiated with Gen/ConverterSites.v by the harness) *)
Theorem C14_sites_ok_deterministic : forall (sites : list site),
  forallb site_ok sites = true ->
  forall s, In s sites -> s_emits s = true ->
  forall (R : Type) (k : list string -> R) e1 e2, Permutation e1 e2 ->
    emit k (if s_sorted s then as_sorted else as_enumerated) e1 =
    emit k (if s_sorted s then as_sorted else as_enumerated) e2.
Proof. exact sites_ok_deterministic. Qed.
Print Assumptions C14_sites_ok_deterministic.

(* B. soundness of the must-definition analysis: non-interference from the object's earlier state *)
Theorem C14_must_def_sound : forall r, rule_ok r = true ->
  forall orc fuel s1 s2 tr, agree (r_config r) s1 s2 ->
    observable (run_match orc fuel (r_check r) (r_rewrite r) s1 tr) =
    observable (run_match orc fuel (r_check r) (r_rewrite r) s2 tr).
Proof. exact must_def_sound. Qed.
Print Assumptions C14_must_def_sound.

(* B. after any history of earlier match attempts on other models (finished, failed or aborted) *)
Theorem C14_history_independent : forall r, rule_ok r = true ->
  forall (h : list (oracle * nat * trace)) (s0 : state) orc fuel tr,
    observable (run_match orc fuel (r_check r) (r_rewrite r) (run_history r h s0) tr) =
    observable (run_match orc fuel (r_check r) (r_rewrite r) s0 tr).
Proof. exact history_independent. Qed.
Print Assumptions C14_history_independent.

(* B. the analysis is not vacuous: a rule that reads a field set on only one successful path is
   rejected, and two earlier states do give different results *)
Theorem C14_stale_read_refuted : rule_ok leaky = false /\
  exists orc fuel s1 s2, agree (r_config leaky) s1 s2 /\
    observable (run_match orc fuel (r_check leaky) (r_rewrite leaky) s1 []) <>
    observable (run_match orc fuel (r_check leaky) (r_rewrite leaky) s2 []).
Proof. exact stale_read_refuted. Qed.
Print Assumptions C14_stale_read_refuted.

(* B. every rule class shipped under rewriter/rules and rewriter/ort_fusions, as translated from the
   current sources into Gen/RuleCfgs.v *)
Theorem C14_shipped_rules_history_independent : forall r, In r RuleCfgs.all ->
  forall (h : list (oracle * nat * trace)) (s0 : state) orc fuel tr,
    observable (run_match orc fuel (r_check r) (r_rewrite r) (run_history r h s0) tr) =
    observable (run_match orc fuel (r_check r) (r_rewrite r) s0 tr).
Proof. exact shipped_rules_history_independent. Qed.
Print Assumptions C14_shipped_rules_history_independent.

(* B. ... and for the whole target operation: all match attempts it makes on the rule object *)
Theorem C14_shipped_rules_target_history_independent : forall r, In r RuleCfgs.all ->
  forall (h ms : list (oracle * nat * trace)) (s0 : state),
    run_target r ms (run_history r h s0) = run_target r ms s0.
Proof. exact shipped_rules_target_history_independent. Qed.
Print Assumptions C14_shipped_rules_target_history_independent.

(* B. FoldConstantsPass.call: _reset() re-initialises every field the visitors read *)
Theorem C14_fold_pass_history_independent : forall r, In r RuleCfgs.passes ->
  forall (h : list (oracle * nat * trace)) (s0 : state) orc fuel tr,
    observable (run_match orc fuel (r_check r) (r_rewrite r) (run_history r h s0) tr) =
    observable (run_match orc fuel (r_check r) (r_rewrite r) s0 tr).
Proof. exact fold_pass_history_independent. Qed.
Print Assumptions C14_fold_pass_history_independent.

(* B. stale entries of an identity-keyed per-graph cache are invisible *)
Theorem C14_stale_cache_invisible : forall k c stale, (forall v, ~ In (k, v) stale) -> lookup k (c ++ stale) = lookup k c.
Proof. exact lookup_app_fresh. Qed.
Print Assumptions C14_stale_cache_invisible.

(* C. a process-wide memo table keyed by a projection k of the request (module-level ReferenceEvaluator of the
   constant folder): the answers do not depend on the history of earlier requests iff what is computed on a
   miss factors through k *)
Theorem C14_keyed_memo_history_independent : forall (X K V : Type) (K_eq_dec : forall a b : K, {a = b} + {a <> b})
  (k : X -> K) (f : X -> V), factors_through_key k f ->
  forall (h : list X) (x : X), answer_after K_eq_dec k f h x = f x.
Proof. exact keyed_memo_history_independent. Qed.
Print Assumptions C14_keyed_memo_history_independent.

Theorem C14_keyed_memo_history_independent_only_if : forall (X K V : Type) (K_eq_dec : forall a b : K, {a = b} + {a <> b})
  (k : X -> K) (f : X -> V),
  (forall (h : list X) (x : X), answer_after K_eq_dec k f h x = f x) -> factors_through_key k f.
Proof. exact keyed_memo_history_independent_only_if. Qed.
Print Assumptions C14_keyed_memo_history_independent_only_if.

(* C. the reference implementation looked up under (op type) instead of (op type, opset version): after an
   opset-11 request for Unsqueeze, an opset-18 request gets the opset-11 implementation *)
Theorem C14_key_without_version_refuted : exists (h : list (string * nat)) (x : string * nat),
  answer_after string_dec key_without_version impl_of h x <> impl_of x.
Proof. exact key_without_version_refuted. Qed.
Print Assumptions C14_key_without_version_refuted.

(* C. every memo table the translator finds in the current sources has a key that contains all parameters
   the memoizing method uses *)
Theorem C14_source_memos_history_independent : forall m, In m EvaluatorCache.memos ->
  forall (V : Type) (f : env -> V), depends_only_on f (m_fun_params m) ->
  forall (h : list env) (x : env),
    answer_after (list_eq_dec Nat.eq_dec) (project (m_key_params m)) f h x = f x.
Proof. exact source_memos_history_independent. Qed.
Print Assumptions C14_source_memos_history_independent.

(* B. the rule-set object: RewriteRuleSet.apply_to_model as read on 2026-09-26 re-initialises `_used_value_names` but not
   `_value_name_counter`; the faithful mini model is rejected by the analysis and one earlier application changes the
   values (generated names) of the next one -- replayed on the real rewriter (m_rw_materialize after m_rw_materialize_b) *)
Theorem C14_ruleset_counter_refuted : rule_ok ruleset_as_read = false /\
  exists (h : list (oracle * nat * trace)) orc fuel,
    observable (run_match orc fuel (r_check ruleset_as_read) (r_rewrite ruleset_as_read) (run_history ruleset_as_read h ruleset_init) []) <>
    observable (run_match orc fuel (r_check ruleset_as_read) (r_rewrite ruleset_as_read) ruleset_init []).
Proof. exact ruleset_counter_refuted. Qed.
Print Assumptions C14_ruleset_counter_refuted.

(* B. repaired model (counter re-initialised per model): accepted, hence history independent.  What the *source* says now is
   Gen/RuleCfgs.ruleset_passes, judged by the harness on every run (RuleCfgsOk.ruleset_passes_history_independent_if_ok) *)
Theorem C14_ruleset_counter_fixed : rule_ok ruleset_reset = true /\
  forall (h : list (oracle * nat * trace)) (s0 : state) orc fuel tr,
    observable (run_match orc fuel (r_check ruleset_reset) (r_rewrite ruleset_reset) (run_history ruleset_reset h s0) tr) =
    observable (run_match orc fuel (r_check ruleset_reset) (r_rewrite ruleset_reset) s0 tr).
Proof. exact ruleset_counter_fixed. Qed.
Print Assumptions C14_ruleset_counter_fixed.

(* D. "mutating globals afterwards changes neither the generated protos nor later calls".  Full statement for a capture
   discipline c: Snapshot.later_results_fixed c (any sequence of rebindings and in-place mutations of the namespace after
   decoration; bodies that only look names up).  It holds for Deep (values captured when the decorator runs): *)
Theorem C14_later_results_fixed : later_results_fixed Deep.
Proof. exact deep_fixed. Qed.
Print Assumptions C14_later_results_fixed.

(* D. it is false for AsRead -- eager calls as read on 2026-09-26 execute the python function with its live globals -- already
   for a single rebinding (witness: SCALE = 99 after decoration; replayed on the real code for every kind of global) *)
Theorem C14_later_results_as_read_refuted : ~ later_results_fixed_under_rebinding AsRead.
Proof. exact as_read_refuted. Qed.
Print Assumptions C14_later_results_as_read_refuted.

(* D. Shallow (a copied namespace dictionary; a tensor wrapping the caller's numpy array): proved for rebinding only
   (C14_later_results_shallow_partial; the full statement is later_results_fixed Shallow) and refuted for in-place mutation *)
Theorem C14_later_results_shallow_partial : later_results_fixed_under_rebinding Shallow.
Proof. exact shallow_fixed_under_rebinding. Qed.
Print Assumptions C14_later_results_shallow_partial.

Theorem C14_later_results_shallow_refuted : ~ later_results_fixed Shallow.
Proof. exact shallow_in_place_refuted. Qed.
Print Assumptions C14_later_results_shallow_refuted.

(* D. until something is mutated every discipline denotes the same function: eager call = generated proto at decoration time *)
Theorem C14_captures_agree_at_decoration : forall c (b : body) (st : store) (x : Z),
  denote c (decorate b st) st x = denote Deep (decorate b st) st x.
Proof. exact all_agree_at_decoration. Qed.
Print Assumptions C14_captures_agree_at_decoration.

(* D. the table the harness uses to decide, per kind of global, which discipline the implementation follows *)
Theorem C14_capture_prediction_table : forall c,
  (predict c true = true -> later_results_fixed_under_rebinding c) /\
  (predict c true = false -> ~ later_results_fixed_under_rebinding c) /\
  (predict c false = true -> later_results_fixed c) /\
  (predict c false = false -> ~ later_results_fixed c).
Proof. exact predict_spec. Qed.
Print Assumptions C14_capture_prediction_table.

(* C. process-wide state in general: an operation whose only access to state that outlives it is through completely keyed memo
   tables of functions gives the same result after every history of such operations as in a fresh process.  (State the operation
   re-initialises before reading it: part B.)  The tables found in the sources -- Opset.cache keyed by (cls, domain, version),
   functools caches -- are listed in Gen/ProcessStateSites.v and checked by the harness on every run. *)
Theorem C14_keyed_process_state_history_independent :
  forall (T X K V R : Type) (T_eq_dec : forall a b : T, {a = b} + {a <> b}) (K_eq_dec : forall a b : K, {a = b} + {a <> b})
         (k : T -> X -> K) (f : T -> X -> V),
  all_keyed_completely k f -> process_history_independent (R := R) T_eq_dec K_eq_dec k f.
Proof. exact keyed_process_state_history_independent. Qed.
Print Assumptions C14_keyed_process_state_history_independent.

Theorem C14_incompletely_keyed_state_refuted :
  ~ process_history_independent (R := string * nat) unit_eq_dec string_dec bad_k bad_f.
Proof. exact incompletely_keyed_state_refuted. Qed.
Print Assumptions C14_incompletely_keyed_state_refuted.

Theorem C14_keyed_site_complete : forall s kp fp, ps_discipline s = KeyedBy kp fp -> site_controlled s = true ->
  forall (V : Type) (g : env -> V), depends_only_on g fp -> factors_through_key (project kp) g.
Proof. exact keyed_site_complete. Qed.
Print Assumptions C14_keyed_site_complete.
