(* C09 -- onnxscript/rewriter/rules/common/_materialize_reshape_shape.py (MaterializeReshapeShape):
   Reshape(data, dynamic_shape) whose OUTPUT is annotated o with at most one non-int dim becomes
   Reshape(data, Constant(dims), allowzero=1) where dims has -1 at the non-int position.
   Model file: definitions only. *)
From Coq Require Import ZArith List Bool.
Require Import OV.Shape.SymDim OV.Shape.PartialEval.
Import ListNotations.
Open Scope Z_scope.

Definition is_sym (d : dim) : bool := match d with DInt _ => false | _ => true end.     (* not isinstance(d, int) *)
Definition count_sym (o : list dim) : nat := List.length (filter is_sym o).
Definition mat_dim (d : dim) : Z := match d with DInt z => z | _ => -1 end.
Definition is_zero_int (d : dim) : bool := match d with DInt z => z =? 0 | _ => false end.

(* as shipped: sym_count <= 1 *)
Definition mat_dims_old (o : list dim) : option (list Z) :=
  if Nat.leb (count_sym o) 1 then Some (map mat_dim o) else None.
(* repaired: a static 0 next to the -1 cannot be expressed (allowzero=1 forbids 0 together with -1,
   and the inferred dim would be 0/0) *)
Definition mat_dims_fixed (o : list dim) : option (list Z) :=
  if Nat.eqb (count_sym o) 1 && existsb is_zero_int o then None else mat_dims_old o.

(* correspondence: (annotation of the Reshape output (None = not annotated), observed new shape constant or None).
   code: 0 both models agree with the implementation, 1 only the shipped, 2 only the repaired, 3 neither *)
Definition olz_eqb (a b : option (list Z)) : bool :=
  match a, b with Some x, Some y => forallb2 Z.eqb x y | None, None => true | _, _ => false end.
Definition mat_case := (option (list dim) * option (list Z))%type.
Definition mat_code (c : mat_case) : nat :=
  let '(o, obs) := c in
  let f := match o with Some s => mat_dims_fixed s | None => None end in
  let g := match o with Some s => mat_dims_old s | None => None end in
  ((if olz_eqb f obs then 0 else 1) + (if olz_eqb g obs then 0 else 2))%nat.
Fixpoint mat_report (i : nat) (cs : list mat_case) : list (nat * nat) :=
  match cs with
  | [] => []
  | c :: t => (match mat_code c with O => [] | k => [(i, k)] end) ++ mat_report (S i) t
  end.
