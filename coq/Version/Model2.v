(* C10 -- the two repaired variants of _VersionConverter.visit_model (proposed_fixes/ready/C10_01, C10_02):
     own    : the nodes of a function are read at the opset the FUNCTION imports (falling back to the model's);
              all imports are read before anything is modified;
     minchk : the below-minimum pre-check, three variants (minvar):
              MinOff  -- none (the code before a75b415);
              MinNode -- /repo a75b415: before anything is modified, a default-domain node whose VERSION (node.version or
                         the container's import) lies below SUPPORTED_MIN_ONNX_OPSET makes the converter raise
                         VersionConverterError.  Wrong for exporter output: torch.onnx.export(dynamo=True) stamps nodes with
                         the since-version of their schema (e.g. 13) inside a model importing 18 (UnsupportedProofs.
                         node_version_check_refuted);
              MinDecl -- /repo 78f42e9 (the code as it stands): the refusal reads only the opset the CONTAINER (model or
                         function) imports; raised at the first default-domain node met (recursively) iff that import
                         is below the minimum; node.version plays no role;
     refuse : before anything is modified, every node (recursively) is checked for a conversion no adapter can
              complete -- QuantizeLinear below 19 with an int32 x and a non-int32 y_scale going to 19..22 -- and
              VersionConverterError is raised.
   own = refuse = false, minchk = MinOff is Model.convert_native (Model2Proofs.native2_off).  No proofs in this file. *)
From Coq Require Import ZArith List Bool String.
Import ListNotations.
Require Import OV.Version.Model.
Local Open Scope Z_scope.

(* _get_onnx_opset_version(function) or model_opset; None = the function imports "" and "ai.onnx" at different versions *)
Definition func_version (dv : option Z) (f : func) : option (option Z) :=
  match f_decl f, f_ai f with
  | Some a, Some b => if a =? b then Some (Some a) else None
  | Some a, None => Some (Some a)
  | None, Some b => Some (Some b)
  | None, None => Some dv
  end.

(* for QuantizeLinear nodes the harness records in n_shp what the pre-check can learn: [dtype of x; dtype of y_scale]
   as DStatic <ir.DataType value> (INT32 = 6), DMissing when unknown *)
Definition ql_unconvertible (n : node) : bool :=
  match n_shp n with
  | [DStatic x; DStatic sc] => (x =? 6) && negb (sc =? 6)
  | _ => false
  end.
Fixpoint refuses (t : Z) (dv : option Z) (n : node) : bool :=
  match n with
  | Node o d v _ _ _ _ sb =>
    (d && String.eqb o "QuantizeLinear" &&
     match (match v with Some x => Some x | None => dv end) with
     | Some nv => (nv <? 19) && (19 <=? t) && (t <? 23) && ql_unconvertible n
     | None => false
     end)
    || existsb (refuses t dv) sb
  end.

(* variant a75b415 (MinNode): a default-domain node (recursively) whose version is below the supported minimum *)
Fixpoint below_min (smin : Z) (dv : option Z) (n : node) : bool :=
  match n with
  | Node _ d v _ _ _ _ sb =>
    (d && match (match v with Some x => Some x | None => dv end) with Some nv => nv <? smin | None => false end)
    || existsb (below_min smin dv) sb
  end.

(* variant 78f42e9 (MinDecl): _check_convertible walks ir.traversal.RecursiveGraphIterator (every node, subgraphs of every
   node entered) and raises at the first default-domain node iff the container's import dv is below the minimum *)
Fixpoint has_dflt (n : node) : bool :=
  match n with Node _ d _ _ _ _ _ sb => d || existsb has_dflt sb end.
Definition below_min_decl (smin : Z) (dv : option Z) (n : node) : bool :=
  match dv with Some v => (v <? smin) && has_dflt n | None => false end.

Inductive minvar := MinOff | MinNode | MinDecl.
Definition min_refuses (mv : minvar) (smin : Z) (dv : option Z) (n : node) : bool :=
  match mv with MinOff => false | MinNode => below_min smin dv n | MinDecl => below_min_decl smin dv n end.

Section Native2.
  Variables own refuse : bool.
  Variable minchk : minvar.
  Variable adapt : adapter.
  Variables smin smax : Z.
  Variable fuel : nat.

  Fixpoint conv_funcs2 (t : Z) (fs : list (func * option Z)) : list func * option err * list string :=
    match fs with
    | [] => ([], None, [])
    | (f, fv) :: rest =>
      match conv adapt t fv fuel (f_nodes f) with
      | GAbort e ns l => (Func (f_decl f) (f_ai f) ns :: map fst rest, Some e, l)
      | GFin ns l =>
        let '(rest', e, l') := conv_funcs2 t rest in
        (Func (Some t) None ns :: rest', e, l ++ l')
      end
    end.

  Fixpoint versions_of (dv : option Z) (fs : list func) : option (list (func * option Z)) :=
    match fs with
    | [] => Some []
    | f :: r =>
      match (if own then func_version dv f else Some dv), versions_of dv r with
      | Some fv, Some rest => Some ((f, fv) :: rest)
      | _, _ => None
      end
    end.

  Definition convert_native2 (M : model) (t : Z) : mres :=
    if (t >? smax) || (t <? smin) then MRaised EValueRange M []
    else
      match default_version M with
      | None => MRaised EOpsetConflict M []
      | Some dv =>
        match versions_of dv (m_funcs M) with
        | None => MRaised EOpsetConflict M []
        | Some fvs =>
          if (refuse && (existsb (refuses t dv) (m_graph M)
                         || existsb (fun p => existsb (refuses t (snd p)) (f_nodes (fst p))) fvs))
             || (existsb (min_refuses minchk smin dv) (m_graph M)
                 || existsb (fun p => existsb (min_refuses minchk smin (snd p)) (f_nodes (fst p))) fvs)
          then MRaised ERefused M []
          else
            match conv adapt t dv fuel (m_graph M) with
            | GAbort e g l => MRaised e (Model (m_decl M) (m_ai M) g (m_funcs M)) l
            | GFin g l =>
              match conv_funcs2 t fvs with
              | (fs, Some e, l') => MRaised e (Model (m_decl M) (m_ai M) g fs) (l ++ l')
              | (fs, None, l') => MDone (Model (Some t) None g fs) (l ++ l')
              end
            end
        end
      end.
End Native2.

(* every container is consistent with its own import: the main graph at s, each function at some version of its own *)
Definition func_self_consistent (f : func) : bool :=
  match f_decl f with Some v => func_at v f | None => false end.
Definition locally_consistent (s : Z) (M : model) : bool :=
  oz_is (m_decl M) s && oz_none_or (m_ai M) s && forallb (at_version s) (m_graph M) && forallb func_self_consistent (m_funcs M).
