(* C08 -- operators acting along one axis (the tensor is the list of its slabs along that axis, slab type
   arbitrary, so every rank is covered): select, slice, narrow, split, chunk, roll, flip, index_select, cumsum. *)
From Coq Require Import ZArith List Bool Lia ZifyBool.
Require Import OV.Torch.Onnx OV.Torch.Spec OV.Torch.Aten OV.Torch.Lemmas.
Import ListNotations.
Local Open Scope Z_scope.

Lemma slice_arith : forall n s0 e0 step, 0 <= n -> 0 < step ->
  let s1 := if s0 <? 0 then s0 + n else s0 in
  let e1 := if e0 <? 0 then e0 + n else e0 in
  let s2 := if s1 <? 0 then 0 else if n <=? s1 then n else s1 in
  let e2 := if e1 <? s2 then s2 else if n <=? e1 then n else e1 in
  slice_bounds n s0 e0 step = (s2, (e2 - s2 + step - 1) / step).
Proof.
  intros n s0 e0 step Hn Hs. cbv zeta. unfold slice_bounds.
  replace (0 <? step) with true by lia.
  generalize (if s0 <? 0 then s0 + n else s0) as s1. generalize (if e0 <? 0 then e0 + n else e0) as e1.
  intros e1 s1.
  assert (Hs2 : clampZ 0 n s1 = (if s1 <? 0 then 0 else if n <=? s1 then n else s1)).
  { unfold clampZ. destruct (s1 <? 0) eqn:?; [reflexivity|]. destruct (n <? s1) eqn:?; destruct (n <=? s1) eqn:?; lia. }
  rewrite Hs2.
  assert (Hr : 0 <= (if s1 <? 0 then 0 else if n <=? s1 then n else s1) <= n).
  { destruct (s1 <? 0) eqn:?; [lia|]. destruct (n <=? s1) eqn:?; lia. }
  revert Hr. generalize (if s1 <? 0 then 0 else if n <=? s1 then n else s1) as s2. clear Hs2 s1.
  intros s2 Hr. f_equal.
  rewrite ceil_div_pos by lia.
  unfold clampZ.
  destruct (e1 <? s2) eqn:E1.
  - replace (s2 - s2 + step - 1) with (step - 1) by lia.
    rewrite (Z.div_small (step - 1) step) by lia.
    destruct (e1 <? 0) eqn:?.
    + assert ((0 - s2 + step - 1) / step < 1); [|lia].
      apply Z.div_lt_upper_bound; lia.
    + destruct (n <? e1) eqn:?; [lia|].
      assert ((e1 - s2 + step - 1) / step < 1); [|lia].
      apply Z.div_lt_upper_bound; lia.
  - destruct (e1 <? 0) eqn:?; [lia|].
    assert (Hge : forall e2, s2 <= e2 -> 0 <= (e2 - s2 + step - 1) / step) by (intros; apply Z.div_pos; lia).
    destruct (n <? e1) eqn:?; destruct (n <=? e1) eqn:?; try lia.
    + specialize (Hge n ltac:(lia)). lia.
    + assert (e1 = n) by lia. subst e1. specialize (Hge n ltac:(lia)). lia.
    + specialize (Hge e1 ltac:(lia)). lia.
Qed.

Lemma narrow_arith : forall fixed n start length,
  0 <= n -> n <= INT64_MAX ->
  (length <? 0) || (start <? - n) || (n <? start) = false ->
  (n - length <? (if start <? 0 then start + n else start)) = false ->
  (fixed = true \/ 0 <= start \/ start + length < 0 \/ length = 0) ->
  sl_lo n start = (if start <? 0 then start + n else start) /\
  (sl_lo n (narrow_end fixed start length) - (if start <? 0 then start + n else start) = length \/
   (length = 0 /\ sl_lo n (narrow_end fixed start length) - (if start <? 0 then start + n else start) <= 0)).
Proof.
  intros fixed n start length Hn Hmax E E2 Hdom.
  unfold narrow_end, sl_lo, clampZ, INT64_MAX in *.
  destruct fixed; cbn [andb];
  destruct (start <? 0) eqn:Hs0; rewrite ?Hs0 in E2; cbn [andb];
  repeat case_if; lia.
Qed.

(* Shape(start=dim, end=dim+1) selects exactly the rolled axis unless dim = -1 *)
Lemma roll_len_old : forall r dim a n shift,
  norm_axis r dim = Some a -> (0 <= shift -> shift < 2 * n /\ dim <> -1) ->
  exists L, roll_len false r dim n shift = Some L /\ L = (if shift <? 0 then - shift else n - shift).
Proof.
  intros r dim a n shift Ha Hpos. unfold roll_len.
  destruct (shift <? 0) eqn:Es; [eexists; split; reflexivity|].
  destruct (Hpos ltac:(lia)) as [_ Hd].
  pose proof (norm_axis_range _ _ _ Ha) as [Har [Had Hdr]].
  unfold shape_range.
  assert (clampZ 0 r (if dim <? 0 then dim + r else dim) = a) as -> by (unfold clampZ; repeat case_if; lia).
  assert (clampZ 0 r (if dim + 1 <? 0 then dim + 1 + r else dim + 1) = a + 1) as -> by (unfold clampZ; repeat case_if; lia).
  replace (Z.max 0 (a + 1 - a) =? 1) with true by lia.
  replace (a =? (if dim <? 0 then dim + r else dim)) with true by (case_if; lia).
  eexists; split; reflexivity.
Qed.

Lemma roll_arith : forall n numel shift L,
  0 < n <= numel -> (shift < 0 -> - shift <= n) -> (0 <= shift -> shift < 2 * n) ->
  L = (if shift <? 0 then - shift else n - shift) ->
  exists st, st = (n - shift) mod n /\ (sl_lo n L = st \/ (sl_lo n L = n /\ st = 0)) /\ sl_lo n 0 = 0 /\ sl_lo n numel = n /\ 0 <= st < n.
Proof.
  intros n numel shift L Hn Hneg Hpos HL.
  exists ((n - shift) mod n). split; [reflexivity|].
  pose proof (Z.mod_pos_bound (n - shift) n ltac:(lia)) as Hb.
  assert (Hst : (n - shift) mod n = (if L <? 0 then L + n else if L =? n then 0 else L)).
  { subst L. destruct (shift <? 0) eqn:Es.
    - replace (- shift <? 0) with false by lia. destruct (- shift =? n) eqn:En.
      + rewrite <- (Z.mod_add (n - shift) (-2) n) by lia. rewrite Z.mod_small by lia; lia.
      + rewrite <- (Z.mod_add (n - shift) (-1) n) by lia. rewrite Z.mod_small by lia; lia.
    - specialize (Hpos ltac:(lia)). destruct (n - shift <? 0) eqn:E1.
      + rewrite <- (Z.mod_add (n - shift) 1 n) by lia. rewrite Z.mod_small by lia; lia.
      + destruct (n - shift =? n) eqn:E2.
        * rewrite <- (Z.mod_add (n - shift) (-1) n) by lia. rewrite Z.mod_small by lia; lia.
        * rewrite Z.mod_small by lia; lia. }
  rewrite Hst. unfold sl_lo, clampZ.
  assert (HLr : - n < L <= n) by (subst L; case_if; lia).
  repeat split; repeat case_if; try lia.
Qed.

(* sizes produced by SplitToSequence with a scalar split = torch.split's, for a non-empty axis *)
Lemma repeat_snoc : forall (c : Z) (k : nat), repeat c k ++ [c] = repeat c (S k).
Proof. induction k; [reflexivity|]. cbn [repeat app]. rewrite IHk. reflexivity. Qed.

Lemma split_sizes_arith : forall n c out, 0 < n -> torch_split_sizes n c = Some out -> split_scalar n c = Some out.
Proof.
  intros n c out Hn. unfold torch_split_sizes, split_scalar.
  destruct (c <? 0) eqn:E1; [discriminate|].
  destruct (c =? 0) eqn:E2; [replace (n =? 0) with false by lia; discriminate|].
  replace (c <=? 0) with false by lia.
  assert (Hc : 0 < c) by lia.
  pose proof (Z.div_mod n c ltac:(lia)) as Hd. pose proof (Z.mod_pos_bound n c Hc) as Hm.
  intro H; inversion H; subst out; clear H. f_equal.
  destruct (n mod c =? 0) eqn:E3.
  - assert (Hq : (n + c - 1) / c = n / c).
    { symmetry. apply Z.div_unique with (r := c - 1); [left; lia | nia]. }
    rewrite Hq. assert (0 < n / c) by nia.
    replace (Z.max (n / c) 1) with (n / c) by lia.
    replace (c - (c * (n / c) - n)) with c by nia.
    rewrite app_nil_r.
    replace (Z.to_nat (n / c)) with (S (Z.to_nat (n / c - 1))) by lia.
    rewrite <- repeat_snoc. reflexivity.
  - assert (Hq : (n + c - 1) / c = n / c + 1).
    { symmetry. apply Z.div_unique with (r := n mod c - 1); [left; lia | nia]. }
    rewrite Hq. assert (0 <= n / c) by (apply Z.div_pos; lia).
    replace (Z.max (n / c + 1) 1) with (n / c + 1) by lia.
    replace (n / c + 1 - 1) with (n / c) by lia.
    replace (c - (c * (n / c + 1) - n)) with (n mod c) by nia. reflexivity.
Qed.

(* whenever Split(num_outputs = k) is accepted, its sizes are torch.chunk's *)
Lemma chunk_sizes_arith : forall n k sz, 0 < k -> split_num_outputs n k = Some sz -> torch_chunk_sizes n k = Some sz.
Proof.
  intros n k sz Hk. unfold split_num_outputs, torch_chunk_sizes.
  replace (k <=? 0) with false by lia. cbn [orb].
  destruct (n <? k) eqn:E1; [discriminate|].
  rewrite ceil_div_pos by lia. set (c := (n + k - 1) / k).
  destruct (n - c * (k - 1) <=? 0) eqn:E2; [discriminate|].
  intro H; inversion H; subst sz; clear H.
  assert (Hc : 0 < c) by (unfold c; apply Z.div_str_pos; lia).
  assert (Hck : n <= c * k).
  { unfold c. pose proof (Z.div_mod (n + k - 1) k ltac:(lia)). pose proof (Z.mod_pos_bound (n + k - 1) k Hk). nia. }
  replace ((c =? 0) && (n =? 0)) with false by lia.
  unfold torch_split_sizes. replace (c <? 0) with false by lia. replace (c =? 0) with false by lia.
  assert (Hq : (n + c - 1) / c = k).
  { symmetry. apply Z.div_unique with (r := n - c * (k - 1) - 1); [left; lia | lia]. }
  rewrite Hq. replace (Z.max k 1) with k by lia.
  replace (c - (c * k - n)) with (n - c * (k - 1)) by lia. reflexivity.
Qed.

Lemma chunk_one_arith : forall n, 0 <= n ->
  torch_chunk_sizes n 1 = Some [n] \/ (n = 0 /\ torch_chunk_sizes n 1 = Some [0]).
Proof.
  intros n Hn. unfold torch_chunk_sizes. cbn [Z.leb Z.compare].
  replace (n + 1 - 1) with n by lia. rewrite Z.div_1_r.
  destruct (n =? 0) eqn:E.
  - right. split; [lia|]. replace n with 0 by lia. reflexivity.
  - left. cbn [andb]. unfold torch_split_sizes. replace (n <? 0) with false by lia. rewrite E.
    replace ((n + n - 1) / n) with 1.
    2:{ apply Z.div_unique with (r := n - 1); [left; lia | lia]. }
    change (Z.max 1 1) with 1. change (Z.to_nat (1 - 1)) with O. cbn [repeat app]. do 2 f_equal. lia.
Qed.

Section Axis.
Context {A : Type}.
Implicit Types xs : list A.

(* ------------------------------------------------------------------ select *)
Lemma select_correct : forall r dim xs index,
  0 < r ->
  aten_select r dim xs index = obind (torch_axis r dim) (fun a => obind (torch_select xs index) (fun x => Some (a, x))).
Proof.
  intros r dim xs index Hr. unfold aten_select, torch_axis.
  replace (r =? 0) with false by lia. rewrite wrap_dim_norm_axis by lia. reflexivity.
Qed.

(* ------------------------------------------------------------------ slice *)
Lemma slice_core : forall xs start end_ step,
  0 < step ->
  slice_axis xs (match start with Some v => v | None => 0 end) (match end_ with Some v => v | None => INT64_MAX end) step
  = torch_slice xs start end_ step.
Proof.
  intros xs start end_ step Hs. unfold slice_axis, torch_slice.
  replace (step =? 0) with false by lia. replace (step <=? 0) with false by lia.
  rewrite (slice_arith (zlen xs) _ _ step (zlen_nonneg _ xs) Hs). reflexivity.
Qed.

Lemma slice_correct : forall r dim xs start end_ step,
  0 < r -> (match step with Some v => 0 < v | None => True end) ->
  aten_slice r dim xs start end_ step
  = obind (torch_axis r dim) (fun a =>
      obind (torch_slice xs start end_ (match step with Some v => v | None => 1 end)) (fun ys => Some (a, ys))).
Proof.
  intros r dim xs start end_ step Hr Hs. unfold aten_slice, torch_axis.
  replace (r =? 0) with false by lia. rewrite wrap_dim_norm_axis by lia.
  rewrite slice_core; [reflexivity|]. destruct step; lia.
Qed.

(* ------------------------------------------------------------------ narrow *)
Lemma narrow_core : forall fixed xs start length out,
  zlen xs <= INT64_MAX ->
  torch_narrow xs start length = Some out ->
  (fixed = true \/ 0 <= start \/ start + length < 0 \/ length = 0) ->
  slice_axis xs start (narrow_end fixed start length) 1 = Some out.
Proof.
  intros fixed xs start length out Hmax. unfold torch_narrow.
  pose proof (zlen_nonneg _ xs) as Hn. 
  destruct ((length <? 0) || (start <? - zlen xs) || (zlen xs <? start)) eqn:E; [discriminate|].
  destruct (zlen xs - length <? (if start <? 0 then start + zlen xs else start)) eqn:E2; [discriminate|].
  intros H Hdom; inversion H; subst out; clear H.
  rewrite slice_axis_step1.
  destruct (narrow_arith fixed (zlen xs) start length Hn Hmax E E2 Hdom) as [Hlo Hhi].
  rewrite Hlo. f_equal.
  destruct Hhi as [-> | [-> Hle]]; [reflexivity|].
  rewrite take_neg by lia. rewrite take_neg by lia. reflexivity.
Qed.

Lemma narrow_correct : forall fixed r dim xs start length out,
  0 < r -> zlen xs <= INT64_MAX ->
  (fixed = true \/ 0 <= start \/ start + length < 0 \/ length = 0) ->
  obind (torch_axis r dim) (fun a => obind (torch_narrow xs start length) (fun ys => Some (a, ys))) = Some out ->
  aten_narrow fixed r dim xs start length = Some out.
Proof.
  intros fixed r dim xs start length out Hr Hmax Hdom. unfold aten_narrow, torch_axis.
  replace (r =? 0) with false by lia. rewrite wrap_dim_norm_axis by lia.
  destruct (norm_axis r dim); [|discriminate]. cbn [obind].
  destruct (torch_narrow xs start length) eqn:E; [|discriminate]. cbn [obind]. intro H.
  rewrite (narrow_core fixed _ _ _ _ Hmax E Hdom). assumption.
Qed.

(* ------------------------------------------------------------------ flip along one axis *)
Lemma flip1_core : forall xs, zlen xs < - INT64_MIN -> slice_axis xs (-1) INT64_MIN (-1) = Some (torch_flip1 xs).
Proof.
  intros xs Hmax. unfold slice_axis, slice_bounds, torch_flip1. cbn [Z.eqb Z.ltb Z.compare].
  pose proof (zlen_nonneg _ xs) as Hn. unfold INT64_MIN in *.
  assert (Hlen : Z.to_nat (zlen xs) = length xs) by (unfold zlen; lia).
  assert (Hlen' : zlen xs = Z.of_nat (length xs)) by reflexivity.
  remember (zlen xs) as n eqn:Hn0.
  destruct (n =? 0) eqn:E0.
  - destruct xs; [reflexivity|]. cbn [length] in Hlen'. exfalso. clear - Hlen' E0. lia.
  - assert (Hs : clampZ 0 (n - 1) (-1 + n) = n - 1) by (unfold clampZ; repeat case_if; lia).
    assert (He : clampZ (-1) (n - 1) (-9223372036854775808 + n) = -1) by (unfold clampZ; repeat case_if; lia).
    change (-9223372036854775808 <? 0) with true. cbv iota. rewrite Hs, He. f_equal.
    assert (Hc : Z.max 0 (ceil_div (-1 - (n - 1)) (-1)) = n).
    { unfold ceil_div. replace (- (-1 - (n - 1))) with n by lia.
      replace (n / -1) with (- n); [lia|]. rewrite <- (Z.div_opp_opp n (-1)) by lia. cbn. rewrite Z.div_1_r. reflexivity. }
    rewrite Hc, Hlen, Hlen'.
    rewrite strided_rev_aux by lia. rewrite firstn_all. reflexivity.
Qed.

Lemma flip1_correct : forall r dim xs,
  0 < r -> zlen xs < - INT64_MIN ->
  aten_flip1 r dim xs = obind (torch_axis r dim) (fun a => Some (a, torch_flip1 xs)).
Proof.
  intros r dim xs Hr Hmax. unfold aten_flip1, torch_axis.
  replace (r =? 0) with false by lia. rewrite wrap_dim_norm_axis by lia.
  rewrite flip1_core by assumption. reflexivity.
Qed.

(* ------------------------------------------------------------------ index_select *)
Lemma index_select_core : forall xs idx out, torch_index_select xs idx = Some out -> gather_axis xs idx = Some out.
Proof.
  intros xs idx out. unfold torch_index_select, gather_axis. apply omap_all_weaken.
  intros i y. unfold gather1. destruct ((0 <=? i) && (i <? zlen xs)) eqn:E; [|discriminate].
  replace ((- zlen xs <=? i) && (i <? zlen xs)) with true by lia. replace (i <? 0) with false by lia. auto.
Qed.

Lemma index_select_correct : forall r dim xs idx a out,
  0 <= r -> wrap_dim r dim = Some a -> torch_index_select xs idx = Some out ->
  aten_index_select r dim xs idx = Some (a, out).
Proof.
  intros r dim xs idx a out Hr Ha Hi. unfold aten_index_select.
  assert (norm_axis (if r =? 0 then 1 else r) dim = Some a) as ->.
  { rewrite <- Ha. destruct (r =? 0) eqn:E.
    - replace r with 0 by lia. reflexivity.
    - rewrite wrap_dim_norm_axis by lia. reflexivity. }
  cbn [obind]. rewrite (index_select_core _ _ _ Hi). reflexivity.
Qed.

(* ------------------------------------------------------------------ roll along one axis *)
Lemma roll_dim_correct : forall r numel dim xs shift a,
  norm_axis r dim = Some a ->
  0 < zlen xs <= numel ->
  (shift < 0 -> - shift <= zlen xs) ->
  (0 <= shift -> shift < 2 * zlen xs /\ dim <> -1) ->
  aten_roll_dim false r numel dim xs shift = Some (a, torch_roll1 xs shift).
Proof.
  intros r numel dim xs shift a Ha Hn Hneg Hpos. unfold aten_roll_dim. rewrite Ha. cbn [obind].
  pose proof (norm_axis_range _ _ _ Ha) as [Har [Had Hdr]].
  destruct (roll_len_old r dim a (zlen xs) shift Ha Hpos) as [L [HL HLv]]. rewrite HL. cbn [obind].
  rewrite !slice_axis_step1. cbn [obind]. f_equal. f_equal.
  unfold torch_roll1. replace (zlen xs =? 0) with false by lia.
  destruct (roll_arith (zlen xs) numel shift L Hn Hneg ltac:(intro; apply Hpos; assumption) HLv) as [st [Hst [H1 [H2 [H3 H4]]]]].
  rewrite <- Hst. rewrite H2, H3.
  destruct H1 as [H1 | [H1 H0]]; rewrite H1.
  - replace (st - 0) with st by lia.
    rewrite (take_all _ (zlen xs - st) (drop st xs)); [reflexivity|].
    rewrite zlen_drop by lia. lia.
  - subst st. rewrite H0. rewrite (drop_all _ (zlen xs) xs) by lia. rewrite !(drop_neg _ 0 xs) by lia.
    rewrite (take_all _ (zlen xs - 0) xs) by lia. rewrite (take_neg _ 0 xs) by lia.
    rewrite app_nil_r. unfold take. rewrite firstn_nil. reflexivity.
Qed.

Lemma roll_dim_fixed_correct : forall r numel dim xs shift a,
  norm_axis r dim = Some a -> zlen xs <= INT64_MAX ->
  aten_roll_dim true r numel dim xs shift = Some (a, torch_roll1 xs shift).
Proof.
  intros r numel dim xs shift a Ha Hmax. unfold aten_roll_dim, roll_len. rewrite Ha. cbn [obind].
  rewrite !slice_axis_step1. cbn [obind]. f_equal. f_equal.
  unfold torch_roll1. pose proof (zlen_nonneg _ xs) as Hn.
  destruct (zlen xs =? 0) eqn:E0.
  - destruct xs; [unfold take, drop; rewrite !skipn_nil, !firstn_nil; reflexivity|]. rewrite zlen_cons in E0. pose proof (zlen_nonneg _ xs). exfalso. lia.
  - replace (Z.max (zlen xs) 1) with (zlen xs) by lia.
    replace ((zlen xs - shift) mod zlen xs) with ((- shift) mod zlen xs).
    2:{ replace (zlen xs - shift) with (- shift + 1 * zlen xs) by lia. rewrite Z.mod_add by lia. reflexivity. }
    pose proof (Z.mod_pos_bound (- shift) (zlen xs) ltac:(lia)) as Hb.
    remember ((- shift) mod zlen xs) as st.
    assert (sl_lo (zlen xs) st = st) as -> by (unfold sl_lo, clampZ; repeat case_if; lia).
    assert (sl_lo (zlen xs) 0 = 0) as -> by (unfold sl_lo, clampZ; repeat case_if; lia).
    assert (sl_lo (zlen xs) INT64_MAX = zlen xs) as -> by (unfold sl_lo, clampZ, INT64_MAX in *; repeat case_if; lia).
    replace (st - 0) with st by lia.
    rewrite (take_all _ (zlen xs - st) (drop st xs)); [reflexivity|].
    rewrite zlen_drop by lia. lia.
Qed.


(* ------------------------------------------------------------------ roll of the flattened tensor *)
Lemma roll_flat_correct : forall xs shift,
  0 < zlen xs -> (shift < 0 -> - shift <= zlen xs) -> (0 <= shift -> shift < 2 * zlen xs) ->
  aten_roll_flat false xs shift = Some (torch_roll1 xs shift).
Proof.
  intros xs shift Hn Hneg Hpos. unfold aten_roll_flat. cbn [obind].
  rewrite !slice_axis_step1. cbn [obind]. f_equal.
  unfold torch_roll1. replace (zlen xs =? 0) with false by lia.
  destruct (roll_arith (zlen xs) (zlen xs) shift _ ltac:(lia) Hneg Hpos eq_refl) as [st [Hst [H1 [H2 [H3 H4]]]]].
  rewrite <- Hst. rewrite H2, H3.
  destruct H1 as [H1 | [H1 H0]]; rewrite H1.
  - replace (st - 0) with st by lia.
    rewrite (take_all _ (zlen xs - st) (drop st xs)); [reflexivity|].
    rewrite zlen_drop by lia. lia.
  - subst st. rewrite H0. rewrite (drop_all _ (zlen xs) xs) by lia. rewrite !(drop_neg _ 0 xs) by lia.
    rewrite (take_all _ (zlen xs - 0) xs) by lia. rewrite (take_neg _ 0 xs) by lia.
    rewrite app_nil_r. unfold take. rewrite firstn_nil. reflexivity.
Qed.

Lemma roll_flat_fixed_correct : forall xs shift,
  zlen xs <= INT64_MAX -> aten_roll_flat true xs shift = Some (torch_roll1 xs shift).
Proof.
  intros xs shift Hmax. unfold aten_roll_flat. cbn [obind].
  rewrite !slice_axis_step1. cbn [obind]. f_equal.
  unfold torch_roll1. pose proof (zlen_nonneg _ xs) as Hn.
  destruct (zlen xs =? 0) eqn:E0.
  - destruct xs; [unfold take, drop; rewrite !skipn_nil, !firstn_nil; reflexivity|]. rewrite zlen_cons in E0.
    pose proof (zlen_nonneg _ xs). exfalso. lia.
  - replace (Z.max (zlen xs) 1) with (zlen xs) by lia.
    replace ((zlen xs - shift) mod zlen xs) with ((- shift) mod zlen xs).
    2:{ replace (zlen xs - shift) with (- shift + 1 * zlen xs) by lia. rewrite Z.mod_add by lia. reflexivity. }
    pose proof (Z.mod_pos_bound (- shift) (zlen xs) ltac:(lia)) as Hb.
    remember ((- shift) mod zlen xs) as st.
    assert (sl_lo (zlen xs) st = st) as -> by (unfold sl_lo, clampZ; repeat case_if; lia).
    assert (sl_lo (zlen xs) 0 = 0) as -> by (unfold sl_lo, clampZ; repeat case_if; lia).
    assert (sl_lo (zlen xs) INT64_MAX = zlen xs) as -> by (unfold sl_lo, clampZ, INT64_MAX in *; repeat case_if; lia).
    replace (st - 0) with st by lia.
    rewrite (take_all _ (zlen xs - st) (drop st xs)); [reflexivity|].
    rewrite zlen_drop by lia. lia.
Qed.

(* ------------------------------------------------------------------ split / chunk *)
Lemma cut_all : forall xs, cut xs [zlen xs] = [xs].
Proof. intro xs. cbn [cut]. rewrite take_all by lia. reflexivity. Qed.

Lemma split_correct : forall r dim xs c a out,
  norm_axis r dim = Some a -> 0 < zlen xs ->
  torch_split_sizes (zlen xs) c = Some out ->
  aten_split r dim xs c = Some (a, cut xs out).
Proof.
  intros r dim xs c a out Ha Hn Ht. unfold aten_split. rewrite Ha. cbn [obind].
  rewrite (split_sizes_arith _ _ _ Hn Ht). reflexivity.
Qed.

Lemma chunk_correct : forall r dim xs k a sz,
  norm_axis r dim = Some a -> 0 < k ->
  (k = 1 \/ split_num_outputs (zlen xs) k = Some sz) ->
  exists out, torch_chunk_sizes (zlen xs) k = Some out /\ aten_chunk r dim xs k = Some (a, cut xs out).
Proof.
  intros r dim xs k a sz Ha Hk [-> | Hs].
  - unfold aten_chunk. cbn [Z.eqb Pos.eqb]. rewrite Ha. cbn [obind].
    destruct (chunk_one_arith (zlen xs) (zlen_nonneg _ xs)) as [H | [H0 H]].
    + exists [zlen xs]. split; [assumption|]. rewrite cut_all. reflexivity.
    + exists [0]. split; [assumption|]. destruct xs; [reflexivity|].
      rewrite zlen_cons in H0. pose proof (zlen_nonneg _ xs). exfalso. lia.
  - exists sz. split; [exact (chunk_sizes_arith _ _ _ Hk Hs)|].
    unfold aten_chunk. destruct (k =? 1) eqn:E1.
    + assert (k = 1) by lia. subst k. rewrite Ha. cbn [obind].
      unfold split_num_outputs in Hs. cbn [Z.leb Z.compare orb] in Hs.
      destruct (zlen xs <? 1) eqn:E2; [discriminate|]. rewrite ceil_div_1 in Hs.
      replace (zlen xs - zlen xs * (1 - 1)) with (zlen xs) in Hs by lia.
      destruct (zlen xs <=? 0) eqn:E3; [discriminate|]. inversion Hs; subst. cbn [repeat Z.to_nat Z.sub app Z.add Z.opp Z.pos_sub].
      rewrite cut_all. reflexivity.
    + rewrite Ha. cbn [obind]. rewrite Hs. reflexivity.
Qed.
End Axis.

(* ------------------------------------------------------------------ cumsum *)
Lemma cumsum_correct : forall r dim xs a,
  0 <= r -> (r = 0 -> exists x, xs = [x]) ->           (* a 0-d tensor is one slab *)
  wrap_dim r dim = Some a -> aten_cumsum r dim xs = Some (a, torch_cumsum xs).
Proof.
  intros r dim xs a Hr H0 Ha. unfold aten_cumsum. destruct (r =? 0) eqn:E.
  - assert (r = 0) by lia. subst r. destruct (H0 eq_refl) as [x ->].
    unfold wrap_dim in Ha. cbn [Z.max Z.compare Z.opp] in Ha.
    destruct ((-1 <=? dim) && (dim <? 1)) eqn:E2; [|discriminate].
    destruct (dim <? 0) eqn:E3; injection Ha as <-; unfold torch_cumsum; cbn [cumsum_axis cumsum_from];
      do 2 f_equal; lia.
  - rewrite <- wrap_dim_norm_axis by lia. rewrite Ha. reflexivity.
Qed.

(* ------------------------------------------------------------------ refutations (witnesses replayed on the real code) *)
Lemma roll_shift_beyond_size_refuted : exists (xs : list Z) shift,
  aten_roll_dim false 1 3 0 xs shift <> Some (0, torch_roll1 xs shift).
Proof. exists [0; 1; 2], (-4). vm_compute. discriminate. Qed.
Lemma roll_positive_shift_beyond_refuted : exists (xs : list Z) shift,
  aten_roll_dim false 1 3 0 xs shift <> Some (0, torch_roll1 xs shift).
Proof. exists [0; 1; 2], 7. vm_compute. discriminate. Qed.
Lemma roll_last_dim_refuted : exists (xs : list Z) shift,
  norm_axis 1 (-1) = Some 0 /\ aten_roll_dim false 1 3 (-1) xs shift = None.
Proof. exists [0; 1; 2], 1. vm_compute. split; reflexivity. Qed.
Lemma roll_empty_tensor_refuted : exists (xs : list (list Z)) shift,
  aten_roll_dim false 2 0 0 xs shift <> Some (0, torch_roll1 xs shift).
Proof. exists [[]; []; []], 1. vm_compute. discriminate. Qed.
Lemma roll_flat_refuted : exists (xs : list Z) shift, aten_roll_flat false xs shift <> Some (torch_roll1 xs shift).
Proof. exists [0; 1; 2], (-4). vm_compute. discriminate. Qed.

Lemma narrow_negative_start_refuted : exists (xs : list Z) start length out,
  torch_narrow xs start length = Some out /\ out <> [] /\ aten_narrow false 1 0 xs start length = Some (0, []).
Proof. exists [0; 1; 2], (-2), 2, [1; 2]. vm_compute. repeat split; discriminate. Qed.

Lemma chunk_fewer_chunks_refuted : exists (xs : list Z) k out,
  torch_chunk_sizes (zlen xs) k = Some out /\ aten_chunk 1 0 xs k = None.
Proof. exists [0; 1; 2; 3; 4], 4, [2; 2; 1]. vm_compute. split; reflexivity. Qed.

Lemma split_empty_refuted : exists (xs : list Z) c,
  torch_split_sizes (zlen xs) c = Some [0] /\ aten_split 1 0 xs c = Some (0, []).
Proof. exists [], 2. vm_compute. split; reflexivity. Qed.
