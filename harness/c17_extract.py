"""C17 translator, part 1: fail-closed extraction of the generated opset classes (Python `ast` only --
the generated modules are *not* imported for the method data) and of the ONNX schema records (onnx.defs).

extract_classes(repo) -> (classes, exposed, errors)
    classes : list of dict(cls, file, base, domain, version, methods=[method...]) sorted by (domain, version)
    method  : dict(name, line, params=[(name, kind, default)], triple=(op, since, domain), op_name,
                   prepare=[(name, starred)] | None, forwards=[(keyword, value-name)])
              kind in {"req", "opt", "var", "kwreq", "kw"}; default is an encoded default (see enc_default)
    exposed : list of (instance name, class name, (domain, version) key in all_opsets or None)
    errors  : list of (file, line, why)   -- anything outside the recognised shape (translator breaks, fail-closed)

schema_records() -> list of dict(domain, name, since, deprecated, inputs=[(name, option)], attrs=[(name, required, default)])
"""
from __future__ import annotations

import ast
import hashlib
import os
import re
import struct


# ----------------------------------------------------------------------------- defaults

def f32repr(x):
    """Canonical text of a float after rounding to float32 (attribute FLOAT is 32 bit in ONNX)."""
    x = float(x)
    try:
        y = struct.unpack("<f", struct.pack("<f", x))[0]
    except OverflowError:
        y = x
    return repr(y)


def enc_default(v):
    """Python value -> small sum type: ("none",) ("int",n) ("float",s) ("str",s) ("ints",(..)) ("floats",(..)) ("strs",(..)) ("other",hash)."""
    if v is None:
        return ("none",)
    if isinstance(v, bool):
        return ("other", "bool:" + repr(v))
    if isinstance(v, int):
        return ("int", v)
    if isinstance(v, float):
        return ("float", f32repr(v))
    if isinstance(v, (bytes, bytearray)):
        try:
            return ("str", bytes(v).decode("utf-8"))
        except UnicodeDecodeError:
            return ("other", "bytes:" + hashlib.sha1(bytes(v)).hexdigest()[:12])
    if isinstance(v, str):
        return ("str", v)
    if isinstance(v, (tuple, list)):
        xs = [enc_default(x) for x in v]
        kinds = {x[0] for x in xs}
        if not xs:
            return ("ints", ())          # an empty sequence carries no element type
        if kinds == {"int"}:
            return ("ints", tuple(x[1] for x in xs))
        if kinds == {"float"}:
            return ("floats", tuple(x[1] for x in xs))
        if kinds == {"str"}:
            return ("strs", tuple(x[1] for x in xs))
        return ("other", "seq:" + hashlib.sha1(repr(xs).encode()).hexdigest()[:12])
    return ("other", type(v).__name__ + ":" + hashlib.sha1(repr(v).encode()).hexdigest()[:12])


class _Bad(Exception):
    def __init__(self, node, why):
        super().__init__(why)
        self.line = getattr(node, "lineno", 0)
        self.why = why


def _const_expr(node):
    """Literal default expressions the generator writes: constants, -constant, tuples of those."""
    if isinstance(node, ast.Constant):
        if isinstance(node.value, (int, float, str, bytes, type(None))) :
            return node.value
        raise _Bad(node, f"unsupported constant {node.value!r}")
    if isinstance(node, ast.UnaryOp) and isinstance(node.op, ast.USub) and isinstance(node.operand, ast.Constant) \
            and isinstance(node.operand.value, (int, float)) and not isinstance(node.operand.value, bool):
        return -node.operand.value
    if isinstance(node, ast.Tuple):
        return tuple(_const_expr(e) for e in node.elts)
    raise _Bad(node, "default is not a literal: " + ast.dump(node)[:80])


# ----------------------------------------------------------------------------- generated classes

def _is_name(n, s):
    return isinstance(n, ast.Name) and n.id == s


def _is_self_attr(n, attr):
    return isinstance(n, ast.Attribute) and _is_name(n.value, "self") and n.attr == attr


def _method(fn):
    a = fn.args
    if a.posonlyargs or a.kwarg is not None:
        raise _Bad(fn, "positional-only or **kwargs parameter")
    if not a.args or a.args[0].arg != "self":
        raise _Bad(fn, "first parameter is not self")
    if fn.decorator_list:
        raise _Bad(fn, "decorated method")
    pos = a.args[1:]
    nd = len(a.defaults)
    if nd > len(pos):
        raise _Bad(fn, "default on self")
    params = []
    for i, p in enumerate(pos):
        j = i - (len(pos) - nd)
        if j >= 0:
            d = _const_expr(a.defaults[j])
            if d is not None:
                raise _Bad(a.defaults[j], f"input parameter {p.arg} has a default other than None")
            params.append((p.arg, "opt", ("none",)))
        else:
            params.append((p.arg, "req", ("none",)))
    if a.vararg is not None:
        params.append((a.vararg.arg, "var", ("none",)))
    for p, d in zip(a.kwonlyargs, a.kw_defaults):
        if d is None:
            params.append((p.arg, "kwreq", ("none",)))
        else:
            params.append((p.arg, "kw", enc_default(_const_expr(d))))
    names = [p[0] for p in params]
    if len(set(names)) != len(names) or "self" in names or "schema" in names or "op" in names:
        raise _Bad(fn, "parameter names collide with self/schema/op or each other")

    body = list(fn.body)
    if body and isinstance(body[0], ast.Expr) and isinstance(body[0].value, ast.Constant) and isinstance(body[0].value.value, str):
        body = body[1:]
    if len(body) != 3:
        raise _Bad(fn, f"body has {len(body)} statements after the docstring, expected 3")
    s1, s2, s3 = body
    # schema = get_schema("Name", N, "domain")
    if not (isinstance(s1, ast.Assign) and len(s1.targets) == 1 and _is_name(s1.targets[0], "schema")
            and isinstance(s1.value, ast.Call) and _is_name(s1.value.func, "get_schema")
            and len(s1.value.args) == 3 and not s1.value.keywords
            and all(isinstance(x, ast.Constant) for x in s1.value.args)):
        raise _Bad(s1, "first statement is not `schema = get_schema(<str>, <int>, <str>)`")
    t = tuple(x.value for x in s1.value.args)
    if not (isinstance(t[0], str) and type(t[1]) is int and isinstance(t[2], str)):
        raise _Bad(s1, f"get_schema arguments have the wrong types: {t!r}")
    # op = Op(self, "Name", schema)
    if not (isinstance(s2, ast.Assign) and len(s2.targets) == 1 and _is_name(s2.targets[0], "op")
            and isinstance(s2.value, ast.Call) and _is_name(s2.value.func, "Op")
            and len(s2.value.args) == 3 and not s2.value.keywords
            and _is_name(s2.value.args[0], "self") and isinstance(s2.value.args[1], ast.Constant)
            and isinstance(s2.value.args[1].value, str) and _is_name(s2.value.args[2], "schema")):
        raise _Bad(s2, "second statement is not `op = Op(self, <str>, schema)`")
    op_name = s2.value.args[1].value
    # return op(*self._prepare_inputs(schema, a, b, *c), k=k, ...)
    if not (isinstance(s3, ast.Return) and isinstance(s3.value, ast.Call) and _is_name(s3.value.func, "op")):
        raise _Bad(s3, "third statement is not `return op(...)`")
    call = s3.value
    prepare = None
    if call.args:
        if len(call.args) != 1 or not isinstance(call.args[0], ast.Starred):
            raise _Bad(s3, "positional arguments of op(...) are not exactly one *self._prepare_inputs(...)")
        inner = call.args[0].value
        if not (isinstance(inner, ast.Call) and _is_self_attr(inner.func, "_prepare_inputs") and not inner.keywords
                and inner.args and _is_name(inner.args[0], "schema")):
            raise _Bad(s3, "starred argument is not self._prepare_inputs(schema, ...)")
        prepare = []
        for x in inner.args[1:]:
            if isinstance(x, ast.Name):
                prepare.append((x.id, False))
            elif isinstance(x, ast.Starred) and isinstance(x.value, ast.Name):
                prepare.append((x.value.id, True))
            else:
                raise _Bad(x, "argument of _prepare_inputs is not a parameter name")
    forwards = []
    for kw in call.keywords:
        if kw.arg is None or not isinstance(kw.value, ast.Name):
            raise _Bad(s3, "keyword argument of op(...) is not `name=<parameter>`")
        forwards.append((kw.arg, kw.value.id))
    return dict(name=fn.name, line=fn.lineno, params=params, triple=t, op_name=op_name, prepare=prepare, forwards=forwards)


def _class_file(path, rel):
    errors = []
    tree = ast.parse(open(path, encoding="utf-8").read(), filename=path)
    imports = {}     # local name -> (module, original name)
    classes = []
    for st in tree.body:
        if isinstance(st, ast.Expr) and isinstance(st.value, ast.Constant) and isinstance(st.value.value, str):
            continue
        if isinstance(st, ast.ImportFrom):
            for al in st.names:
                imports[al.asname or al.name] = (st.module, al.name)
            continue
        if isinstance(st, ast.ClassDef):
            classes.append(st)
            continue
        errors.append((rel, getattr(st, "lineno", 0), "module-level statement other than from-import / class: " + type(st).__name__))
    if imports.get("get_schema") != ("onnx.defs", "get_schema"):
        errors.append((rel, 0, "get_schema is not imported from onnx.defs"))
    if imports.get("Op") != ("onnxscript.values", "Op") or imports.get("Opset") != ("onnxscript.values", "Opset"):
        errors.append((rel, 0, "Op/Opset are not imported from onnxscript.values"))
    if len(classes) != 1:
        errors.append((rel, 0, f"{len(classes)} classes in module, expected 1"))
        return None, errors
    c = classes[0]
    if c.decorator_list or c.keywords or len(c.bases) != 1 or not isinstance(c.bases[0], ast.Name):
        errors.append((rel, c.lineno, "class header is not `class X(Base):`"))
        return None, errors
    base = c.bases[0].id
    if base == "Opset":
        base_res = None
    else:
        mod, orig = imports.get(base, (None, None))
        m = re.fullmatch(r"onnxscript\.onnx_opset\._impl\.(opset\w+)", mod or "")
        if not m or orig != base:
            errors.append((rel, c.lineno, f"base class {base} is not imported from a sibling generated module"))
            return None, errors
        base_res = (m.group(1), base)
    rec = dict(cls=c.name, file=rel, base=base_res, domain=None, version=None, methods=[])
    seen = set()
    for st in c.body:
        try:
            if isinstance(st, ast.Expr) and isinstance(st.value, ast.Constant) and isinstance(st.value.value, str):
                continue
            if isinstance(st, (ast.Assign, ast.AnnAssign)):
                # type variables / aliases: T_Op = TypeVar(...), T: TypeAlias = ...; must not shadow anything callable we model
                tg = st.targets if isinstance(st, ast.Assign) else [st.target]
                for t in tg:
                    if not isinstance(t, ast.Name):
                        raise _Bad(st, "class-level assignment to a non-name")
                    seen.add(("assign", t.id))
                continue
            if isinstance(st, ast.FunctionDef):
                if st.name == "__new__":
                    ok = (len(st.body) == 1 and isinstance(st.body[0], ast.Return) and isinstance(st.body[0].value, ast.Call))
                    if ok:
                        cl = st.body[0].value
                        ok = (isinstance(cl.func, ast.Attribute) and _is_name(cl.func.value, "Opset") and cl.func.attr == "__new__"
                              and len(cl.args) == 3 and _is_name(cl.args[0], "cls") and not cl.keywords
                              and isinstance(cl.args[1], ast.Constant) and isinstance(cl.args[1].value, str)
                              and isinstance(cl.args[2], ast.Constant) and type(cl.args[2].value) is int)
                    if not ok:
                        raise _Bad(st, "__new__ is not `return Opset.__new__(cls, <domain>, <version>)`")
                    rec["domain"], rec["version"] = cl.args[1].value, cl.args[2].value
                    continue
                if st.name.startswith("_"):
                    raise _Bad(st, f"unexpected private/dunder method {st.name}")
                if ("def", st.name) in seen:
                    raise _Bad(st, f"method {st.name} defined twice")
                seen.add(("def", st.name))
                rec["methods"].append(_method(st))
                continue
            raise _Bad(st, "class-level statement other than assignment / def: " + type(st).__name__)
        except _Bad as e:
            errors.append((rel, e.line, e.why))
    for kind, n in sorted(seen):
        if kind == "assign" and ("def", n) in seen:
            errors.append((rel, c.lineno, f"class-level name {n} is both assigned and a method"))
    if rec["domain"] is None:
        errors.append((rel, c.lineno, "class has no __new__ giving (domain, version)"))
        return None, errors
    rec["methods"].sort(key=lambda m: m["name"])
    return rec, errors


def _init_file(path, rel):
    """onnx_opset/__init__.py: which instance names exist, of which class, and the all_opsets mapping."""
    errors = []
    tree = ast.parse(open(path, encoding="utf-8").read(), filename=path)
    imports, inst, allmap = {}, {}, {}
    for st in tree.body:
        if isinstance(st, ast.ImportFrom):
            for al in st.names:
                imports[al.asname or al.name] = (st.module, al.name)
        elif isinstance(st, ast.Assign) and len(st.targets) == 1 and isinstance(st.targets[0], ast.Name) \
                and isinstance(st.value, ast.Call) and isinstance(st.value.func, ast.Name) and not st.value.args and not st.value.keywords \
                and st.targets[0].id.startswith("opset"):
            inst[st.targets[0].id] = st.value.func.id
        elif isinstance(st, ast.AnnAssign) and _is_name(st.target, "all_opsets"):
            if not isinstance(st.value, ast.Dict):
                errors.append((rel, st.lineno, "all_opsets is not a dict display"))
                continue
            for k, v in zip(st.value.keys, st.value.values):
                try:
                    key = _const_expr(k)
                except _Bad as e:
                    errors.append((rel, e.line, "all_opsets key: " + e.why))
                    continue
                if not (isinstance(key, tuple) and len(key) == 2 and isinstance(key[0], str) and type(key[1]) is int and isinstance(v, ast.Name)):
                    errors.append((rel, k.lineno, "all_opsets entry is not (domain, version): name"))
                    continue
                if key in allmap:
                    errors.append((rel, k.lineno, f"all_opsets key {key} repeated"))
                allmap[key] = v.id
        elif isinstance(st, ast.Assign) and len(st.targets) == 1 and _is_name(st.targets[0], "__all__"):
            continue
        elif isinstance(st, (ast.Expr, ast.If, ast.Import)):
            continue
        else:
            errors.append((rel, getattr(st, "lineno", 0), "unrecognised statement in onnx_opset/__init__.py: " + type(st).__name__))
    exposed = []
    for name in sorted(inst):
        cls = inst[name]
        mod, orig = imports.get(cls, (None, None))
        m = re.fullmatch(r"onnxscript\.onnx_opset\._impl\.(opset\w+)", mod or "")
        if not m or orig != cls:
            errors.append((rel, 0, f"{name} = {cls}() but {cls} is not imported from a generated module"))
            continue
        keys = sorted(k for k, v in allmap.items() if v == name)
        exposed.append((name, cls, m.group(1), keys))
    for k, v in sorted(allmap.items()):
        if v not in inst:
            errors.append((rel, 0, f"all_opsets[{k}] = {v} is not an instance defined in the module"))
    return exposed, errors


def extract_classes(repo):
    impl = os.path.join(repo, "onnxscript", "onnx_opset", "_impl")
    errors, classes = [], []
    for fn in sorted(os.listdir(impl)):
        if not fn.endswith(".py") or fn == "__init__.py":
            continue
        rel = "onnxscript/onnx_opset/_impl/" + fn
        try:
            rec, errs = _class_file(os.path.join(impl, fn), rel)
        except SyntaxError as e:
            rec, errs = None, [(rel, e.lineno or 0, "syntax error")]
        errors += errs
        if rec is not None:
            rec["module"] = fn[:-3]
            classes.append(rec)
    exposed, errs = _init_file(os.path.join(repo, "onnxscript", "onnx_opset", "__init__.py"), "onnxscript/onnx_opset/__init__.py")
    errors += errs
    bymod = {c["module"]: c for c in classes}
    for c in classes:
        if c["base"] is not None:
            b = bymod.get(c["base"][0])
            if b is None or b["cls"] != c["base"][1]:
                errors.append((c["file"], 0, f"base class {c['base']} not found among the generated modules"))
    classes.sort(key=lambda c: (c["domain"], c["version"], c["cls"]))
    return classes, exposed, errors


# ----------------------------------------------------------------------------- ONNX schemas

def schema_records():
    import onnx
    import onnx.defs
    from onnx.helper import get_attribute_value
    OPT = {onnx.defs.OpSchema.FormalParameterOption.Single: "req",
           onnx.defs.OpSchema.FormalParameterOption.Optional: "opt",
           onnx.defs.OpSchema.FormalParameterOption.Variadic: "var"}
    recs = []
    for s in onnx.defs.get_all_schemas_with_history():
        attrs = []
        for a in sorted(s.attributes.values(), key=lambda a: a.name):
            if a.default_value.name:
                d = enc_default(get_attribute_value(a.default_value))
            else:
                d = ("none",)
            attrs.append((a.name, bool(a.required), d))
        recs.append(dict(domain=s.domain, name=s.name, since=int(s.since_version), deprecated=bool(s.deprecated),
                         inputs=[(i.name, OPT[i.option]) for i in s.inputs], attrs=attrs))
    recs.sort(key=lambda r: (r["domain"], r["name"], r["since"]))
    return recs


if __name__ == "__main__":
    import sys
    cl, ex, er = extract_classes(sys.argv[1] if len(sys.argv) > 1 else "/repo")
    print(len(cl), "classes", sum(len(c["methods"]) for c in cl), "methods", len(er), "errors")
    for e in er[:20]:
        print(e)
    print(ex[:3])
    print(len(schema_records()), "schemas")
