(* C07 proofs, part 3: one application at any nesting level (removing or keeping rule), passes, the node iteration,
   and the link from the replay checker of the correspondence to the soundness theorems. *)
From Coq Require Import List String ZArith Bool Arith Lia.
Require Import OV.Graph.Syntax OV.Graph.Sem OV.Graph.Names OV.Graph.SemProofs.
Require Import OV.Rewrite.Apply OV.Rewrite.ApplyProofs OV.Rewrite.KeepProofs.
Import ListNotations.
Local Open Scope list_scope.

Section Proofs.
  Variable V : Type.
  Variable sem : string -> string -> list (string * attrv) -> list (option V) -> option (list V).
  Variable truth : V -> option bool.
  Variable trip : V -> option nat.
  Variable of_nat : nat -> V.
  Variable of_bool : bool -> V.
  Variable limit : nat.

  Notation env := (list (vname * V)).
  Notation eval_node := (eval_node V sem truth trip of_nat of_bool limit).
  Notation run := (run V sem truth trip of_nat of_bool limit).
  Notation eval_body := (eval_body V sem truth trip of_nat of_bool limit).
  Notation eval_graph := (eval_graph V sem truth trip of_nat of_bool limit).
  Notation seg_equiv := (seg_equiv V sem truth trip of_nat of_bool limit).
  Notation app_sound_at := (app_sound_at V sem truth trip of_nat of_bool limit).
  Notation keep_sound_at := (keep_sound_at V sem truth trip of_nat of_bool limit).

  (* side conditions of a sound application at a node list: those of the splice theorem (removing rules, and keeping
     rules whose kept nodes commute) or those of the keeping theorem *)
  Definition site_sound (ns : list node) (outs : list vname) (a : app) (X : list vname) : Prop :=
    app_sound_at ns outs a X \/ keep_sound_at ns outs a X.

  Theorem apply_nodes_site_sound : forall a ns ns' outs X,
    apply_nodes a ns = Some ns' -> site_sound ns outs a X ->
    forall fuel outer gi gn args,
      eval_graph fuel outer (Graph gi gn ns outs) args = eval_graph fuel outer (Graph gi gn ns' outs) args.
  Proof.
    intros a ns ns' outs X HA [H|H].
    - eapply apply_nodes_sound; eauto.
    - eapply apply_nodes_keep_sound; eauto.
  Qed.

  (* ---- one application at any nesting level ------------------------------------------------------ *)
  Fixpoint ok_at (p : path) (a : app) (X : list vname) (g : graph) : Prop :=
    match p with
    | [] => site_sound (g_nodes g) (g_outs g) a X
    | (idx, key) :: p' =>
      match nth_error (g_nodes g) idx with
      | Some n => match find_sub key (n_subs n) with Some sg => ok_at p' a X sg | None => False end
      | None => False
      end
    end.

  Theorem apply_at_sound : forall p a X g g', apply_at p a g = Some g' -> ok_at p a X g ->
    forall fuel outer args, eval_graph fuel outer g args = eval_graph fuel outer g' args.
  Proof.
    induction p as [|[idx key] p IH]; intros a X [gi gn ns go] g' HA HO fuel outer args.
    - cbn in HA. destruct (apply_nodes a ns) as [ns'|] eqn:E; cbn in HA; [|discriminate].
      inversion HA; subst. cbn in HO. eapply apply_nodes_site_sound; eauto.
    - cbn [apply_at] in HA. cbn [ok_at g_nodes] in HO.
      destruct (nth_error ns idx) as [[d op ins outs at_ subs]|] eqn:N; [|discriminate].
      cbn [n_subs] in HO.
      destruct (find_sub key subs) as [sg|] eqn:F; [|discriminate].
      destruct (apply_at p a sg) as [sg'|] eqn:A; [|discriminate].
      inversion HA; subst; clear HA.
      destruct fuel as [|f]; [reflexivity|]. cbn [Sem.eval_graph].
      unfold Sem.eval_body. cbn [g_ins g_nodes g_outs].
      destruct (bind gi args outer) as [e0|]; [|reflexivity].
      erewrite run_set_nth; [reflexivity|exact N|].
      intro e. apply eval_node_congr with (sg := sg); [exact F|].
      intros o ar. eapply IH; eauto.
  Qed.

  (* ---- a pass: the composition of sound applications is sound ----------------------------------- *)
  Fixpoint pass_ok (l : list (path * app * list vname)) (g : graph) : Prop :=
    match l with
    | [] => True
    | (p, a, X) :: t => ok_at p a X g /\
                        match apply_at p a g with Some g' => pass_ok t g' | None => False end
    end.

  Theorem apply_pass_sound : forall l g g', apply_pass (map fst l) g = Some g' -> pass_ok l g ->
    forall fuel outer args, eval_graph fuel outer g args = eval_graph fuel outer g' args.
  Proof.
    induction l as [|[[p a] X] t IH]; intros g g' HP HO fuel outer args; cbn in *.
    - inversion HP; subst. reflexivity.
    - destruct HO as [H1 H2]. destruct (apply_at p a g) as [g1|] eqn:A; [|discriminate].
      rewrite (apply_at_sound p a X g g1 A H1). eapply IH; eauto.
  Qed.

  (* ---- the node iteration: whatever it fires is a pass ------------------------------------------- *)
  Lemma sweep_is_pass : forall fuel try i ns acc ns' apps,
    sweep fuel try i ns acc = Some (ns', apps) ->
    exists fired, apps = rev acc ++ fired /\
      forall gi gn go, apply_pass (map (fun a => ([], a)) fired) (Graph gi gn ns go) = Some (Graph gi gn ns' go).
  Proof.
    induction fuel as [|f IH]; intros try i ns acc ns' apps H; cbn in H; [discriminate|].
    destruct (Nat.leb (List.length ns) i).
    - inversion H; subst. exists []. rewrite app_nil_r. split; [reflexivity|]. intros; reflexivity.
    - destruct (try ns i) as [a|].
      + destruct (Nat.eqb _ _); [|discriminate].
        destruct (apply_nodes a ns) as [ns1|] eqn:A; [|discriminate].
        destruct (IH _ _ _ _ _ _ H) as [fired [E P]]. exists (a :: fired). split.
        * rewrite E. cbn. rewrite <- app_assoc. reflexivity.
        * intros gi gn go. cbn. rewrite A. cbn. apply P.
      + apply (IH _ _ _ _ _ _ H).
  Qed.

  (* every application the iteration performs satisfies the side conditions with some X *)
  Definition try_sound (try : list node -> nat -> option app) (outs : list vname) : Prop :=
    forall ns i a, try ns i = Some a -> exists X, site_sound ns outs a X.

  Theorem sweep_sound : forall fuel try i ns acc ns' apps outs,
    try_sound try outs -> sweep fuel try i ns acc = Some (ns', apps) ->
    forall fuel' outer gi gn args,
      eval_graph fuel' outer (Graph gi gn ns outs) args = eval_graph fuel' outer (Graph gi gn ns' outs) args.
  Proof.
    induction fuel as [|f IH]; intros try i ns acc ns' apps outs T H fuel' outer gi gn args; cbn in H; [discriminate|].
    destruct (Nat.leb (List.length ns) i).
    - inversion H; subst. reflexivity.
    - destruct (try ns i) as [a|] eqn:Tr.
      + destruct (Nat.eqb _ _); [|discriminate].
        destruct (apply_nodes a ns) as [ns1|] eqn:A; [|discriminate].
        destruct (T ns i a Tr) as [X HX].
        rewrite (apply_nodes_site_sound a ns ns1 outs X A HX). eapply IH; eauto.
      + eapply IH; eauto.
  Qed.

  (* first-applicable-rule-wins preserves soundness of the rules *)
  Lemma first_rule_sound rules outs : Forall (fun r => try_sound r outs) rules -> try_sound (first_rule rules) outs.
  Proof.
    induction 1 as [|r t Hr Ht IH]; intros ns i a H; cbn in H; [discriminate|].
    destruct (r ns i) as [a'|] eqn:E; [inversion H; subst; eapply Hr; eauto|eapply IH; eauto].
  Qed.

  (* ---- the replay checker of the correspondence (check_host) establishes the premises -------------- *)
  Lemma ok_at_site : forall p a X g s, site p g = Some s ->
    site_sound (g_nodes s) (g_outs s) a X -> ok_at p a X g.
  Proof.
    induction p as [|[idx key] p IH]; intros a X g s S H; cbn in *.
    - inversion S; subst. exact H.
    - destruct (nth_error (g_nodes g) idx) as [n|]; [|discriminate].
      destruct (find_sub key (n_subs n)) as [sg|]; [|discriminate]. eapply IH; eauto.
  Qed.

  Lemma check_host_mono : forall l i unc g final c k u,
    check_host_from i unc l g final = (c, k, u) -> unc <= u.
  Proof.
    induction l as [|[[p a] pouts] t IH]; intros i unc g final c k u H; cbn in H.
    - destruct (graph_eqb g final); inversion H; lia.
    - destruct (site p g) as [s|]; [|inversion H; lia].
      destruct (step_okb a s pouts || negb (a_remove a)); [|inversion H; lia].
      destruct (apply_at p a g) as [g'|]; [|inversion H; lia].
      apply IH in H. destruct (step_okb a s pouts); lia.
  Qed.

  (* what remains to be known about each replayed application: the replacement is interchangeable with the match
     (removing rule: up to the intermediates of the match and the fresh names; keeping rule: the replacement against
     the matched nodes run as a segment) *)
  Definition step_equiv (a : app) (s : graph) (pouts : list vname) : Prop :=
    let win := firstn (List.length (a_mask a)) (g_nodes s) in
    if a_remove a
    then forall f, seg_equiv (app_X a (g_nodes s) pouts) (eval_graph f) (sel (a_mask a) win)
                     (kept_sel (a_remove a) (a_dead a) (a_mask a) win ++ a_new a)
    else forall f, seg_equiv (keep_X0 a (g_nodes s) pouts) (eval_graph f) (sel (a_mask a) win) (a_new a).

  Fixpoint equiv_hyps (l : list (path * app * list vname)) (g : graph) : Prop :=
    match l with
    | [] => True
    | (p, a, pouts) :: t =>
      match site p g, apply_at p a g with
      | Some s, Some g' => step_equiv a s pouts /\ equiv_hyps t g'
      | _, _ => True
      end
    end.

  Lemma step_site_sound a s pouts : step_okb a s pouts = true -> step_equiv a s pouts ->
    exists X, site_sound (g_nodes s) (g_outs s) a X.
  Proof.
    unfold step_okb, step_equiv. destruct (a_remove a) eqn:R; intros HB HE.
    - eexists. left. apply side_okb_sound; [exact HB|]. rewrite R. exact HE.
    - eexists. right. split; [exact HB|exact HE].
  Qed.

  (* If the replay of the logged applications succeeds with every application inside the proved side conditions
     (third component 0) and each replacement is interchangeable with its match, the graph the implementation
     ended with evaluates like the graph it started from. *)
  Theorem replay_sound : forall l i g final k,
    check_host_from i 0 l g final = (0, k, 0) -> equiv_hyps l g ->
    forall fuel outer args, eval_graph fuel outer g args = eval_graph fuel outer final args.
  Proof.
    induction l as [|[[p a] pouts] t IH]; intros i g final k H E fuel outer args; cbn in H.
    - destruct (graph_eqb g final) eqn:Q; [|discriminate]. apply graph_eqb_eq in Q. subst. reflexivity.
    - cbn in E. destruct (site p g) as [s|] eqn:S; [|discriminate].
      destruct (step_okb a s pouts) eqn:F.
      + cbn [orb] in H. destruct (apply_at p a g) as [g'|] eqn:A; [|discriminate].
        destruct E as [E1 E2].
        destruct (step_site_sound a s pouts F E1) as [X HX].
        rewrite (apply_at_sound p a X g g' A); [eapply IH; eauto|].
        eapply ok_at_site; eauto.
      + cbn [orb] in H. destruct (negb (a_remove a)); [|discriminate].
        destruct (apply_at p a g) as [g'|]; [|discriminate].
        apply check_host_mono in H. lia.
  Qed.
End Proofs.
