"""C19: optimize_for_ort stage by stage on the repo's cut-out models.

The flattened stage list is the one the translator (harness/c19_pipeline.py) read from _core.py; each stage name is mapped to
the real callable; after every stage that changed the model the model is run in onnxruntime (when it contains no unregistered
intermediate op) and compared with the ORIGINAL outputs and the previous runnable stage.  At the end the result must be
node-for-node what optimize_for_ort itself produces (same operator multiset): the staged execution is the pipeline."""
from __future__ import annotations

import collections
import importlib

import numpy as np

from harness.c19_build import close, ort_run

FUSION_DOMAIN = "ai.onnxruntime._fusion"


def _callables():
    import onnx_ir.passes.common as cp
    import onnxscript.rewriter.ort_fusions._core as core
    from onnxscript.optimizer import optimize
    from onnxscript.rewriter import rewrite
    from onnxscript.rewriter.ort_fusions import shape_optimization
    from onnxscript.rewriter.rules.common import _gemm_to_matmul_add
    return core, {
        "ShapeInferencePass": lambda m, kw: cp.ShapeInferencePass()(m),
        "optimize": lambda m, kw: optimize(m),
        "shape_optimization": lambda m, kw: shape_optimization.rules.apply_to_model(m),
        "CommonSubexpressionEliminationPass": lambda m, kw: cp.CommonSubexpressionEliminationPass()(m),
        "gemm_to_matmul_add": lambda m, kw: rewrite(m, [_gemm_to_matmul_add.gemm_to_matmul_add_rule]),
        "ort_pattern_rewrite_rules": lambda m, kw: rewrite(m, core.ORT_PATTERN_REWRITE_RULES),
        "LiftConstantsToInitializersPass": lambda m, kw: cp.LiftConstantsToInitializersPass(lift_all_constants=kw["lift_all_constants"] == "True", size_limit=int(kw["size_limit"]))(m),
        "RemoveInitializersFromInputsPass": lambda m, kw: cp.RemoveInitializersFromInputsPass()(m),
    }


def flatten(info):
    fx = []
    for k, n, kw in info["fx"]:
        fx.extend(info["pre"] if (k, n) == ("Call", "_pre_optimize") else [(k, n, kw)])
    out = []
    for k, n, kw in info["ofo"]:
        out.extend(fx if (k, n) == ("Call", "fuse_xformers") else [(k, n, kw)])
    return out


def fam_pipeline_stages(st):
    import onnx_ir as ir
    ctx = st.ctx
    fam = "pipeline:stages"
    info = getattr(ctx, "pipeline_info", None)
    if info is None:
        from harness import c19_pipeline, common
        try:
            info = c19_pipeline.parse(common.REPO)
        except Exception as e:
            ctx.tie_broken("translator", c19_pipeline.SRC, str(e))
            return
    stages = flatten(info)
    core, table = _callables()
    names = [("_smollm_1", "smollm_test_1"), ("_rotary_embedding_models", "test_case_1")]
    if ctx.tier == "thorough":
        names += [("_phi2lm", "phi2lm_test"), ("_smollm_2", "smollm_test_2"), ("_whisper_encoder", "whisper_encoder_test"), ("_bart_encoder", "bart_encoder_test"),
                  ("_whisper_decoder", "whisper_decoder_test"), ("_rotary_embedding_models", "test_case_2"), ("_rotary_embedding_models", "partial_rotary_test_case")]
    np.random.seed(ctx.seed % (2 ** 31))
    per_stage = collections.Counter()
    compared = skipped_big = whole_compared = 0
    for mod, fn in names:
        try:
            t = getattr(importlib.import_module("onnxscript.rewriter.models." + mod), fn)()
            model = t.get_onnx_model()
            inputs = {k: np.asarray(v) for k, v in t.get_ort_inputs().items()}
            proto0 = ir.serde.serialize_model(model)
            # quick tier, very large model (smollm_1 is 670 MB: every onnxruntime session costs seconds): compare after the FUSION
            # stages and on the final result only; the plain optimisation stages in between are compared in the thorough tier
            # and, on the small models, in every tier
            big = ctx.tier == "quick" and proto0.ByteSize() > (64 << 20)
            feed = {k: (st.np_rng.standard_normal(v.shape).astype(v.dtype) if v.dtype.kind == "f" else v) for k, v in inputs.items()}
            base = ort_run(proto0, feed)
        except Exception as e:
            st.stat(fam, "invalid_instance")
            continue
        st.stat(fam, "instances")
        ctx.case((fam, mod, fn))
        counts = {}
        prev, prev_name = base, "original"
        whole_ok = True
        for kind, name, kw in stages:
            kwd = dict(kw)
            before_ops = collections.Counter((n.domain, n.op_type) for n in model.graph)
            try:
                if kind in ("Fuse", "Guarded") and "func" in kwd:
                    if kind == "Guarded" and not any(counts.get(g, 0) for g in kwd["guard"].split("|")):
                        counts[name] = 0
                        continue
                    extra = {k: (v == "True") for k, v in kw if k not in ("func", "guard")}
                    counts[name] = getattr(core, kwd["func"])(model, **extra)
                elif kind == "Guarded":
                    continue                                   # clear_metadata=False (the default)
                else:
                    table[name](model, kwd)
            except Exception as e:
                ctx.violation(f"C19:{fam}:{fn}:{name}:raises:{type(e).__name__}", f"{mod}.{fn}: stage {name} raised {e!r}", {"model": f"{mod}.{fn}", "stage": name})
                whole_ok = False
                break
            after_ops = collections.Counter((n.domain, n.op_type) for n in model.graph)
            if after_ops == before_ops:
                continue
            per_stage[name] += 1
            if any(d == FUSION_DOMAIN and not any(f.domain == d and f.name == o for f in model.functions.values()) for d, o in after_ops):
                continue          # an intermediate op without a body (SDPA): not executable until it is lowered
            if big and not (kind in ("Fuse", "Guarded") and "func" in kwd):
                skipped_big += 1
                continue
            proto = ir.serde.serialize_model(model)
            try:
                got = ort_run(proto, {k: v for k, v in feed.items() if k in {i.name for i in proto.graph.input}})
            except Exception as e:
                ctx.violation(f"C19:{fam}:{fn}:{name}:outputs-differ", f"{mod}.{fn}: after stage {name} the model fails in onnxruntime: {str(e)[:200]} (counts {counts})",
                              {"model": f"{mod}.{fn}", "stage": name})
                whole_ok = False
                break
            compared += 1
            ok0, why0 = close(base, got, slack=10.0)
            ok1, why1 = close(prev, got, slack=10.0)
            if not (ok0 and ok1):
                ctx.violation(f"C19:{fam}:{fn}:{name}:outputs-differ", f"{mod}.{fn}: after stage {name}: vs original {why0 or 'ok'}; vs {prev_name} {why1 or 'ok'} (counts {counts})",
                              {"model": f"{mod}.{fn}", "stage": name})
                whole_ok = False
                break
            prev, prev_name = got, name
        if not whole_ok:
            continue
        st.stat(fam, "fired" if any(counts.values()) else "not_fired")
        # the staged execution IS optimize_for_ort: same fusion counts, same operator multiset
        try:
            ref = ir.serde.deserialize_model(proto0)          # the builder's model again (round trip of the untouched proto)
            _, ref_counts = core.optimize_for_ort(ref)
            if {k: v for k, v in ref_counts.items() if v} != {k: v for k, v in counts.items() if v} or \
                    collections.Counter((n.domain, n.op_type) for n in ref.graph) != collections.Counter((n.domain, n.op_type) for n in model.graph):
                ctx.tie_broken("correspondence", f"{fam}:staged-vs-optimize_for_ort", f"{mod}.{fn}: staged counts {counts} vs {ref_counts}")
        except Exception as e:
            ctx.tie_broken("correspondence", f"{fam}:staged-vs-optimize_for_ort", f"{mod}.{fn}: {e!r}")
            continue
        # the property for optimize_for_ort as a whole, on the model it returned
        try:
            rp = ir.serde.serialize_model(ref)
            got = ort_run(rp, {k: v for k, v in feed.items() if k in {i.name for i in rp.graph.input}})
            ok0, why0 = close(base, got, slack=10.0)
            whole_compared += 1
            if not ok0:
                ctx.violation(f"C19:pipeline:repo-model:{fn}:outputs-differ", f"{mod}.{fn}: optimize_for_ort: {why0} (fusions {ref_counts})", {"model": f"{mod}.{fn}", "counts": {k: v for k, v in ref_counts.items() if v}})
        except Exception as e:
            ctx.violation(f"C19:pipeline:repo-model:{fn}:outputs-differ", f"{mod}.{fn}: model returned by optimize_for_ort fails in onnxruntime: {str(e)[:200]}", {"model": f"{mod}.{fn}"})
    ctx.cover(pipeline_stage_names=[n for _, n, _ in stages], pipeline_stages_that_changed_a_model=dict(per_stage), pipeline_stage_comparisons=compared,
              pipeline_whole_result_comparisons=whole_compared, pipeline_plain_stage_comparisons_left_to_thorough_tier_on_the_670MB_model=skipped_big)
    ctx.obligation(f"pipeline: {len(stages)} stages read from _core.py executed one by one on the repo's models, {compared} per-stage onnxruntime comparisons", compared >= 4)
