(* C19 model: ort_fusions/sdpa.py (SDPA rule) -- the scale placements.
   One query row q against the key rows K (each of length Dh) gives one row of attention scores; softmax and the
   product with V are the same function on both sides, so the content of the rule is the score row.
   Part 2 models `check`'s computation of the `scale` attribute over the rationals.  No proofs here. *)
From Coq Require Import List Bool QArith Qabs.
Require Import OV.Fusion.Field.
Import ListNotations.

Inductive scaling (A : Type) := SNone | SMul (c : A) | SDiv (c : A).
Arguments SNone {A}. Arguments SMul {A}. Arguments SDiv {A}.

Section Sem.
  Variable F : Type.
  Variable o : fops F.
  Variable softmax : list F -> list F.        (* abstract: any function of the score row *)

  Definition apply_scaling (s : scaling F) (x : F) : F :=
    match s with SNone => x | SMul c => fmul o x c | SDiv c => fdiv o x c end.
  (* get_scale_value: Mul -> value, Div -> 1.0 / value, absent -> 1.0 *)
  Definition factor (s : scaling F) : F :=
    match s with SNone => f1 o | SMul c => c | SDiv c => fdiv o (f1 o) c end.

  Fixpoint dot (a b : list F) : F :=
    match a, b with x :: a', y :: b' => fadd o (fmul o x y) (dot a' b') | _, _ => f0 o end.

  (* pattern: query' = scale(query); key' = scale(Transpose(key)); s = MatMul(query', key'); s' = scale(s); [s' + mask] *)
  Definition score_pattern (sq sk sqk : scaling F) (q : list F) (K : list (list F)) (mask : option (list F)) : list F :=
    let q' := map (apply_scaling sq) q in
    let s := map (fun k => apply_scaling sqk (dot q' (map (apply_scaling sk) k))) K in
    match mask with Some m => vadd o s m | None => s end.
  (* SDPA(query, key, value, mask, scale): softmax(scale * (q . k_j) + mask_j) *)
  Definition score_spec (scale : F) (q : list F) (K : list (list F)) (mask : option (list F)) : list F :=
    let s := map (fun k => fmul o (dot q k) scale) K in
    match mask with Some m => vadd o s m | None => s end.
  (* self._scale = query_scale_value * key_scale_value * qk_scale_value *)
  Definition sdpa_scale (sq sk sqk : scaling F) : F := fmul o (fmul o (factor sq) (factor sk)) (factor sqk).

  (* weights . V for one output row; V given by columns *)
  Definition attend (w : list F) (Vcols : list (list F)) : list F := map (dot w) Vcols.
  Definition sdpa_pattern sq sk sqk q K mask Vcols := attend (softmax (score_pattern sq sk sqk q K mask)) Vcols.
  Definition sdpa_spec scale q K mask Vcols := attend (softmax (score_spec scale q K mask)) Vcols.
End Sem.

(* ------------------------------------------------------------------------------------------------ part 2 *)
(* The scale attribute over Q (the constants of a model are dyadic rationals).  `check` drops the attribute when the
   product is math.isclose(., 1/sqrt(Dh), rel_tol=1e-5): sqrt is avoided by comparing squares, with a band of 1e-4 on
   scale^2 * Dh -- the harness only generates products that are either within 1e-6 of the default or >= 1e-3 away. *)
Definition qfactor (s : scaling Q) : Q :=
  match s with SNone => 1 | SMul c => c | SDiv c => 1 / c end.
Definition qscale (sq sk sqk : scaling Q) : Q := qfactor sq * qfactor sk * qfactor sqk.
Definition is_default (scale : Q) (dh : option positive) : bool :=
  match dh with
  | None => false                                         (* head size not static: the attribute is kept *)
  | Some d => Qle_bool (Qabs (scale * scale * (Zpos d # 1) - 1)) (1 # 10000)
  end.
(* None = attribute omitted *)
Definition sdpa_scale_attr (sq sk sqk : scaling Q) (dh : option positive) : option Q :=
  let s := qscale sq sk sqk in if is_default s dh then None else Some s.
(* observed attribute is a float32: equal up to 2^-20 relative *)
Definition qclose (a b : Q) : bool := Qle_bool (Qabs (a - b)) (Qabs a * (1 # 1048576)).
Definition sdpa_case := (scaling Q * scaling Q * scaling Q * option positive * option Q)%type.
Definition sdpa_agrees (c : sdpa_case) : bool :=
  let '(sq, sk, sqk, dh, obs) := c in
  match sdpa_scale_attr sq sk sqk dh, obs with
  | None, None => true
  | Some a, Some b => qclose a b
  | _, _ => false
  end.
Fixpoint sdpa_disagreeing (i : nat) (cs : list sdpa_case) : list nat :=
  match cs with [] => [] | c :: t => (if sdpa_agrees c then [] else [i]) ++ sdpa_disagreeing (S i) t end.
