(* C12 property theorems: statements only, each closed by `exact`, Print Assumptions beneath.
   Model: coq/Autocast/Autocast.v; proofs: coq/Autocast/AutocastProofs.v; registry: coq/Gen/Schemas.v
   (regenerated from onnx.defs on every run).

   Reading guide.  `annotate s args = OK slots` pairs every operand of a call of schema s with its
   position information (which formal it belongs to, variadic tail included).  A literal l sits at
   position `length pre` of slots = pre ++ (ALit l, p) :: post.  `spec_dtype (pre ++ post) l p d` is the
   rule of the property text: d is the element type of a sibling tensor operand sharing the type
   constraint of p, or -- when there is none -- INT64 / FLOAT / BOOL by Python type.
   Not covered by these theorems (see the evidence): values for STRING / complex / float8 / float4 /
   4-bit targets (dtype only), float literals that are not exactly representable, empty lists. *)
From Coq Require Import ZArith NArith List Bool String.
Require Import OV.Autocast.Autocast OV.Autocast.AutocastProofs.
Require OV.Gen.Schemas.
Import ListNotations.

(* -- element type: each front end follows the rule, for every schema shape that passes schema_okb -- *)
Theorem C12_static_eq_spec : forall s args slots pre post l p outs,
  schema_okb s = true ->
  annotate s args = OK slots -> slots = (pre ++ (ALit l, p) :: post)%list ->
  promote_static s args = OK outs ->
  exists o, nth_error outs (List.length pre) = Some o /\ out_literal o = Some l /\
            exists d, out_dtype o = Some d /\ spec_dtype (pre ++ post)%list l p d.
Proof. exact static_eq_spec. Qed.
Print Assumptions C12_static_eq_spec.

Theorem C12_eager_eq_spec : forall s args slots pre post l p outs,
  schema_okb s = true ->
  annotate s args = OK slots -> slots = (pre ++ (ALit l, p) :: post)%list ->
  promote_eager s args = OK outs ->
  exists o, nth_error outs (List.length pre) = Some o /\ out_literal o = Some l /\
            exists d, out_dtype o = Some d /\ spec_dtype (pre ++ post)%list l p d.
Proof. exact eager_eq_spec. Qed.
Print Assumptions C12_eager_eq_spec.

Theorem C12_builder_eq_spec : forall s args slots pre post l p outs,
  schema_okb s = true ->
  annotate s args = OK slots -> slots = (pre ++ (ALit l, p) :: post)%list ->
  promote_builder s args = OK outs ->
  exists o, nth_error outs (List.length pre) = Some o /\ out_literal o = Some l /\
            exists d, out_dtype o = Some d /\ spec_dtype (pre ++ post)%list l p d.
Proof. exact builder_eq_spec. Qed.
Print Assumptions C12_builder_eq_spec.

(* -- in a well-typed call (one element type per type constraint) the rule names exactly one type and
      the three front ends give the literal that same type -- *)
Theorem C12_frontends_agree : forall s args slots pre post l p o1 o2 o3,
  schema_okb s = true -> annotate s args = OK slots -> uniform slots ->
  slots = (pre ++ (ALit l, p) :: post)%list ->
  promote_static s args = OK o1 -> promote_eager s args = OK o2 -> promote_builder s args = OK o3 ->
  exists a b c, nth_error o1 (List.length pre) = Some a /\ nth_error o2 (List.length pre) = Some b /\
                nth_error o3 (List.length pre) = Some c /\
                out_dtype a = Some (spec_fn slots l p) /\ out_dtype b = Some (spec_fn slots l p) /\
                out_dtype c = Some (spec_fn slots l p).
Proof. exact frontends_agree. Qed.
Print Assumptions C12_frontends_agree.

(* -- first binding wins (builder) = last binding wins (autocast) when all contributions agree -- *)
Theorem C12_binding_order_irrelevant : forall (I : Type) ksel info (slots : list slot) k,
  (forall sl1 sl2 v1 v2, In sl1 slots -> In sl2 slots ->
       contrib I ksel info sl1 k v1 -> contrib I ksel info sl2 k v2 -> v1 = v2) ->
  lookup I (bindings I ksel info true slots) k = lookup I (bindings I ksel info false slots) k.
Proof. exact binding_order_irrelevant. Qed.
Print Assumptions C12_binding_order_irrelevant.

(* -- operands that are not literals are handed to the op unchanged -- *)
Theorem C12_tensors_pass_through : forall s args outs i o,
  (promote_static s args = OK outs \/ promote_eager s args = OK outs \/ promote_builder s args = OK outs) ->
  nth_error outs i = Some o ->
  exists a, nth_error args i = Some a /\
    match a with ALit l => out_literal o = Some l | _ => o = OKeep a end.
Proof. exact tensors_pass_through. Qed.
Print Assumptions C12_tensors_pass_through.

(* -- the hypothesis schema_okb holds for every schema of opsets 13..23 (finite, by computation over
      the regenerated registry) -- *)
Theorem C12_registry_well_formed : forallb schema_okb OV.Gen.Schemas.all = true.
Proof. exact registry_well_formed. Qed.
Print Assumptions C12_registry_well_formed.

(* -- value: Constant(default dtype) + CastLike = direct creation at the target dtype, whenever the
      direct creation is defined -- *)
Theorem C12_cast_paths_agree : forall l d vs v0s,
  lit_homog l -> np_cast l d = OK vs -> np_cast l (default_dtype l) = OK v0s ->
  cast_like l (default_dtype l) d = OK vs.
Proof. exact cast_paths_agree. Qed.
Print Assumptions C12_cast_paths_agree.

(* -- ... and when it is not: -3 beside a UINT8 tensor raises in eager mode / builder (NumPy 2
      OverflowError) while the converter's graph wraps to 253 (known finding) -- *)
Theorem C12_cast_paths_negative_unsigned_refuted :
  exists l d, np_cast l d = Err Overflow /\ cast_like l (default_dtype l) d = OK [VI 253%Z].
Proof. exact cast_paths_negative_unsigned_refuted. Qed.
Print Assumptions C12_cast_paths_negative_unsigned_refuted.

(* -- constant cache with the sign-aware key: whatever the history of requests, the tensor handed
      out for (l, d) is the tensor (l, d) denotes on its own -- *)
Theorem C12_cache_never_conflates : forall h l d c' t,
  get_or_create key_eq_signed (run_cache key_eq_signed [] h) l d = OK (c', t) ->
  create l (resolve l d) = OK t.
Proof. exact cache_never_conflates. Qed.
Print Assumptions C12_cache_never_conflates.

(* -- the key (value, dtype) under Python == (the code before the fix) hands the +0.0 initializer to a
      request for -0.0 -- *)
Theorem C12_cache_eq_key_conflates_refuted :
  exists h l d c' t, get_or_create py_eq (run_cache py_eq [] h) l d = OK (c', t)
                     /\ create l (resolve l d) <> OK t.
Proof. exact cache_eq_key_conflates. Qed.
Print Assumptions C12_cache_eq_key_conflates_refuted.
