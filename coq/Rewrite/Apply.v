(* C07 model: one application of a rewrite rule as a function on node lists, the way
   onnxscript/rewriter/_rewrite_rule.py::_apply_to_graph_or_function + onnx_ir's
   convenience.replace_nodes_and_values perform it, the descent into graph attributes, a sequence
   of applications (a pass) and the node iteration with continuation after a splice.

   Naming convention of the model (tokens): a value is identified by its name.  In the implementation the
   replacement's output VALUE receives the name of the matched output (`new_value.name = old_value.name`)
   and every use (also inside nested subgraphs) and every graph output is redirected to it; seen by name
   nothing changes in the users.  When the rule keeps the matched nodes (remove_nodes=False) the old value
   object survives under the same name until NameFixPass renames it; the model gives it its final, dead name
   at once (`a_dead`).

   What is modelled: single-output-node patterns, i.e. all pattern outputs are outputs of the root node (the
   node being visited, which is the last matched node of the graph).  Patterns with several output nodes are
   not modelled (the implementation itself says the insertion point is wrong for them; see the C07 finding).

   No proofs in this file. *)
From Coq Require Import List String ZArith Bool Arith.
Require Import OV.Graph.Syntax OV.Graph.Sem OV.Graph.Names.
Import ListNotations.
Local Open Scope string_scope.
Local Open Scope list_scope.

Fixpoint assoc (l : list (vname * vname)) (x : vname) : vname :=
  match l with
  | [] => x
  | (a, b) :: t => if String.eqb x a then b else assoc t x
  end.

Definition rename_outs (dead : list (vname * vname)) (n : node) : node :=
  let 'Node d o i outs a s := n in Node d o i (map (assoc dead) outs) a s.

(* a_mask: one flag per node from the start of the list up to AND INCLUDING the root (true = matched);
   a_new: replacement nodes, outputs already carrying the names of the matched outputs, intermediates fresh;
   a_remove: rule.remove_nodes;  a_dead: (remove_nodes=False only) old output name -> its dead name *)
Record app := App { a_mask : list bool; a_new : list node; a_remove : bool; a_dead : list (vname * vname) }.

Fixpoint sel (mask : list bool) (ns : list node) : list node :=
  match mask, ns with
  | b :: mt, n :: t => (if b then [n] else []) ++ sel mt t
  | _, _ => []
  end.

Fixpoint unsel (mask : list bool) (ns : list node) : list node :=
  match mask, ns with
  | b :: mt, n :: t => (if b then [] else [n]) ++ unsel mt t
  | [], _ => ns
  | _, [] => []
  end.

(* what remains of a node of the window *)
Definition keep1 (remove : bool) (dead : list (vname * vname)) (b : bool) (n : node) : list node :=
  if b then (if remove then [] else [rename_outs dead n]) else [n].

Fixpoint kept (remove : bool) (dead : list (vname * vname)) (mask : list bool) (ns : list node) : list node :=
  match mask, ns with
  | b :: mt, n :: t => keep1 remove dead b n ++ kept remove dead mt t
  | [], _ => ns
  | _, [] => []
  end.

(* the matched nodes as they remain (nothing when removed) *)
Definition kept_sel (remove : bool) (dead : list (vname * vname)) (mask : list bool) (ns : list node) : list node :=
  if remove then [] else map (rename_outs dead) (sel mask ns).

Fixpoint lastb (l : list bool) : bool :=
  match l with [] => false | [b] => b | _ :: t => lastb t end.

Definition app_wf (a : app) (ns : list node) : bool :=
  (Nat.leb (List.length (a_mask a)) (List.length ns)) && lastb (a_mask a).

(* insert_after(root, new_nodes); remove(matched nodes) *)
Definition apply_nodes (a : app) (ns : list node) : option (list node) :=
  let k := List.length (a_mask a) in
  if app_wf a ns
  then Some (kept (a_remove a) (a_dead a) (a_mask a) (firstn k ns) ++ a_new a ++ skipn k ns)
  else None.

(* ---- descent into graph attributes ----------------------------------------------------------- *)
Fixpoint set_nth {A} (i : nat) (x : A) (l : list A) : list A :=
  match l, i with
  | [], _ => []
  | _ :: t, O => x :: t
  | h :: t, S j => h :: set_nth j x t
  end.

Fixpoint set_sub (key : string) (g : graph) (subs : list (string * graph)) : list (string * graph) :=
  match subs with
  | [] => []
  | (k, h) :: t => if String.eqb k key then (k, g) :: t else (k, h) :: set_sub key g t
  end.

(* a path designates the graph in which the match sits: (index of the node, name of its graph attribute)* *)
Definition path := list (nat * string).

Fixpoint apply_at (p : path) (a : app) (g : graph) : option graph :=
  let 'Graph gi gn ns go := g in
  match p with
  | [] => option_map (fun ns' => Graph gi gn ns' go) (apply_nodes a ns)
  | (idx, key) :: p' =>
    match nth_error ns idx with
    | Some (Node d op ins outs at_ subs) =>
      match find_sub key subs with
      | Some sg =>
        match apply_at p' a sg with
        | Some sg' => Some (Graph gi gn (set_nth idx (Node d op ins outs at_ (set_sub key sg' subs)) ns) go)
        | None => None
        end
      | None => None
      end
    | None => None
    end
  end.

(* the graph a path leads to *)
Fixpoint site (p : path) (g : graph) : option graph :=
  match p with
  | [] => Some g
  | (idx, key) :: p' =>
    match nth_error (g_nodes g) idx with
    | Some n => match find_sub key (n_subs n) with Some sg => site p' sg | None => None end
    | None => None
    end
  end.

(* ---- a pass: applications one after the other ------------------------------------------------ *)
Fixpoint apply_pass (l : list (path * app)) (g : graph) : option graph :=
  match l with
  | [] => Some g
  | (p, a) :: t => match apply_at p a g with Some g' => apply_pass t g' | None => None end
  end.

(* ---- the node iteration of _apply_to_graph_or_function on one node list ----------------------- *)
(* `try ns i` = the first rule of the rule list that applies at node i of the current list (None: no rule
   applies).  After a fire at root i the replacement nodes sit right after the surviving nodes of the window
   and the iteration continues with the first of them (DoublyLinkedSet iteration follows `next` of the erased
   box).  Fuel bounds the number of visits: the implementation itself need not terminate (a rule whose
   replacement is matched again fires forever). *)
Definition next_cursor (a : app) (ns : list node) : nat :=
  List.length (kept (a_remove a) (a_dead a) (a_mask a) (firstn (List.length (a_mask a)) ns)).

Fixpoint sweep (fuel : nat) (try : list node -> nat -> option app) (i : nat) (ns : list node) (acc : list app)
  : option (list node * list app) :=
  match fuel with
  | O => None
  | S f =>
    if Nat.leb (List.length ns) i then Some (ns, rev acc) else
    match try ns i with
    | Some a =>
      if Nat.eqb (List.length (a_mask a)) (S i) then
        match apply_nodes a ns with
        | Some ns' => sweep f try (next_cursor a ns) ns' (a :: acc)
        | None => None
        end
      else None
    | None => sweep f try (S i) ns acc
    end
  end.

Fixpoint first_rule (rules : list (list node -> nat -> option app)) (ns : list node) (i : nat) : option app :=
  match rules with
  | [] => None
  | r :: t => match r ns i with Some a => Some a | None => first_rule t ns i end
  end.

(* ---- executable side conditions (evaluated on the real matches by the harness) ---------------- *)
Definition disjointb (a b : list vname) : bool := forallb (fun x => negb (mem x b)) a.

(* m may be moved past u (either way): neither mentions what the other defines *)
Definition indepb (m u : node) : bool :=
  disjointb (n_outs m) (names_node u) && disjointb (n_outs u) (names_node m).

(* every matched node of the window is independent of every LATER unmatched node of the window *)
Fixpoint movableb (mask : list bool) (ns : list node) : bool :=
  match mask, ns with
  | b :: mt, n :: t => (if b then forallb (indepb n) (unsel mt t) else true) && movableb mt t
  | _, _ => true
  end.

(* the window with the matched nodes as they remain when the rule keeps them *)
Fixpoint renamed (dead : list (vname * vname)) (mask : list bool) (ns : list node) : list node :=
  match mask, ns with
  | b :: mt, n :: t => (if b then rename_outs dead n else n) :: renamed dead mt t
  | [], _ => ns
  | _, [] => []
  end.

(* outputs of the matched nodes other than the given pattern outputs, and the fresh intermediates of the
   replacement: the names on which the two sides of a splice may differ *)
Definition removed_names (a : app) (ns : list node) (pattern_outs : list vname) : list vname :=
  filter (fun x => negb (mem x pattern_outs)) (defs_nodes (sel (a_mask a) ns) ++ defs_nodes (a_new a)).

(* removability + freshness as the matcher / NameFixPass establish them, as a checker:
   X mentions neither the rest of the graph, nor the graph outputs, nor the unmatched nodes of the window *)
Definition side_okb (a : app) (ns : list node) (outs X : list vname) : bool :=
  let k := List.length (a_mask a) in
  app_wf a ns &&
  movableb (a_mask a) (firstn k ns) &&
  (a_remove a || movableb (a_mask a) (renamed (a_dead a) (a_mask a) (firstn k ns))) &&
  disjointb X (names_nodes (skipn k ns)) && disjointb X outs.


(* ---- executable side conditions of a KEEPING application (remove_nodes=False) ------------------- *)
(* what a node reads: its present inputs and every name occurring in its subgraphs *)
Definition uses (n : node) : list vname := present (n_ins n) ++ names_subs (n_subs n).
Definition uses_nodes (l : list node) : list vname := flat_map uses l.

(* the matched nodes of the window can be re-executed after the window and reproduce their values: a matched node
   reads nothing that it or a later node of the window defines, and its outputs are not redefined later
   (holds in any single-assignment graph; evaluated on the real matches) *)
Fixpoint rerunnableb (mask : list bool) (ns : list node) : bool :=
  match mask, ns with
  | b :: mt, n :: t =>
    (if b then disjointb (n_outs n ++ defs_nodes t) (uses n) && disjointb (n_outs n) (defs_nodes t) else true)
    && rerunnableb mt t
  | _, _ => true
  end.

(* names on which the graph may differ after a keeping application: what the replacement defines besides the
   pattern outputs, and the dead names *)
Definition keep_X (root : node) (dead : list (vname * vname)) (new : list node) : list vname :=
  filter (fun x => negb (mem x (n_outs root))) (defs_nodes new) ++ n_outs (rename_outs dead root).

Definition dummy_node : node := Node "" "" [] [] [] [].

(* X0: the names on which the replacement may differ from the matched nodes run as a segment.
   Every output of the root is a pattern output (renamed dead, redefined by the replacement). *)
Definition keep_okb (a : app) (ns : list node) (outs X0 : list vname) : bool :=
  let k := List.length (a_mask a) in
  let win := firstn k ns in
  let W0 := removelast win in
  let root := last win dummy_node in
  app_wf a ns && negb (a_remove a) &&
  rerunnableb (a_mask a) win &&
  disjointb (map fst (a_dead a)) (defs_nodes W0) &&
  disjointb X0 (n_outs root) && subset (n_outs root) (defs_nodes (a_new a)) &&
  disjointb (n_outs root ++ n_outs (rename_outs (a_dead a) root)) (uses_nodes (a_new a)) &&
  disjointb (keep_X root (a_dead a) (a_new a)) (names_nodes (skipn k ns)) &&
  disjointb (keep_X root (a_dead a) (a_new a)) outs.

(* intermediates of the match and fresh names of the replacement *)
Definition keep_X0 (a : app) (ns : list node) (pattern_outs : list vname) : list vname :=
  removed_names a (firstn (List.length (a_mask a)) ns) pattern_outs.

(* ---- replaying what the implementation did (correspondence) ------------------------------------ *)
(* the names on which the two sides of a splice may differ: intermediates of the removed match (or the dead
   names of the kept match) and everything the replacement defines, except the pattern outputs themselves *)
Definition app_X (a : app) (ns : list node) (pattern_outs : list vname) : list vname :=
  let k := List.length (a_mask a) in
  filter (fun x => negb (mem x pattern_outs))
         ((if a_remove a then defs_nodes (sel (a_mask a) (firstn k ns)) else map snd (a_dead a))
          ++ defs_nodes (a_new a)).

Fixpoint list_eqb {A} (eqb : A -> A -> bool) (l1 l2 : list A) : bool :=
  match l1, l2 with
  | [], [] => true
  | x :: t, y :: u => eqb x y && list_eqb eqb t u
  | _, _ => false
  end.

Definition opt_eqb {A} (eqb : A -> A -> bool) (a b : option A) : bool :=
  match a, b with Some x, Some y => eqb x y | None, None => true | _, _ => false end.

Definition attrv_eqb (a b : attrv) : bool :=
  match a, b with
  | AInt x, AInt y => Z.eqb x y
  | AInts x, AInts y => list_eqb Z.eqb x y
  | AStr x, AStr y => String.eqb x y
  | AStrs x, AStrs y => list_eqb String.eqb x y
  | AFloat x, AFloat y => Z.eqb x y
  | AFloats x, AFloats y => list_eqb Z.eqb x y
  | ATensor d s p, ATensor d' s' p' => Z.eqb d d' && list_eqb Z.eqb s s' && list_eqb Z.eqb p p'
  | ARef x, ARef y => String.eqb x y
  | AOther x, AOther y => String.eqb x y
  | _, _ => false
  end.

Fixpoint node_eqb (a b : node) {struct a} : bool :=
  let 'Node d o i ou at_ s := a in
  let 'Node d' o' i' ou' at_' s' := b in
  String.eqb d d' && String.eqb o o' && list_eqb (opt_eqb String.eqb) i i' && list_eqb String.eqb ou ou' &&
  list_eqb (fun x y => String.eqb (fst x) (fst y) && attrv_eqb (snd x) (snd y)) at_ at_' &&
  (fix subs_eqb (l : list (string * graph)) (l' : list (string * graph)) {struct l} : bool :=
     match l, l' with
     | [], [] => true
     | (k, g) :: t, (k', g') :: t' => String.eqb k k' && graph_eqb g g' && subs_eqb t t'
     | _, _ => false
     end) s s'
with graph_eqb (g h : graph) {struct g} : bool :=
  let 'Graph gi gn ns go := g in
  let 'Graph hi hn ms ho := h in
  list_eqb String.eqb gi hi && list_eqb String.eqb gn hn && list_eqb String.eqb go ho &&
  (fix nodes_eqb (l : list node) (l' : list node) {struct l} : bool :=
     match l, l' with
     | [], [] => true
     | n :: t, n' :: t' => node_eqb n n' && nodes_eqb t t'
     | _, _ => false
     end) ns ms.

(* 0: the replay of the logged applications reproduces the observed final graph and every application satisfies the
      executable side conditions of its soundness theorem (removing rule: side_okb with X = app_X; keeping rule:
      keep_okb with X0 = keep_X0);
   1: a path leads nowhere; 2: side conditions of a removing application fail; 3: ill-formed application;
   4: final graph differs.  Second component: index of the offending application.  Third: number of keeping
   applications outside the proved side conditions (counted, not rejected: e.g. a pattern output that is not
   redefined by the replacement). *)
Definition step_okb (a : app) (s : graph) (pouts : list vname) : bool :=
  if a_remove a then side_okb a (g_nodes s) (g_outs s) (app_X a (g_nodes s) pouts)
  else keep_okb a (g_nodes s) (g_outs s) (keep_X0 a (g_nodes s) pouts).

Fixpoint check_host_from (i unc : nat) (l : list (path * app * list vname)) (g final : graph) : nat * nat * nat :=
  match l with
  | [] => if graph_eqb g final then (0, i, unc) else (4, i, unc)
  | (p, a, pouts) :: t =>
    match site p g with
    | None => (1, i, unc)
    | Some s =>
      let ok := step_okb a s pouts in
      if ok || negb (a_remove a) then
        match apply_at p a g with
        | Some g' => check_host_from (S i) (if ok then unc else S unc) t g' final
        | None => (3, i, unc)
        end
      else (2, i, unc)
    end
  end.

Definition check_host := check_host_from 0 0.
