From Coq Require Import ZArith List Bool Lia.
Require Import OV.Rules.SliceCollapse.
Import ListNotations.
Local Open Scope Z_scope.

(* --- one list ------------------------------------------------------------------------------- *)
Lemma slice1_full : forall (A : Type) (l : list A) e, Z.of_nat (length l) <= e -> slice1 0 e l = l.
Proof.
  intros A l e H. unfold slice1, clamp. cbn zeta.
  set (n := Z.of_nat (length l)) in *. assert (0 <= n) by (unfold n; lia).
  replace (0 <? 0) with false by reflexivity.
  destruct (e <? 0) eqn:E; [apply Z.ltb_lt in E; lia|].
  replace (Z.max 0 (Z.min n 0)) with 0 by lia. replace (Z.max 0 (Z.min n e)) with n by lia.
  cbn [Z.to_nat skipn]. rewrite Z.sub_0_r. unfold n. rewrite Nat2Z.id. apply firstn_all.
Qed.

Lemma slice1_length : forall (A : Type) (l : list A) s e,
  Z.of_nat (length (slice1 s e l)) = slice_len s e (Z.of_nat (length l)).
Proof.
  intros A l s e. unfold slice1, slice_len. cbn zeta. set (n := Z.of_nat (length l)).
  assert (Hn : 0 <= n) by (unfold n; lia).
  assert (Hs : 0 <= clamp n s <= n) by (unfold clamp; lia).
  assert (He : 0 <= clamp n e <= n) by (unfold clamp; lia).
  rewrite firstn_length, skipn_length. lia.
Qed.

(* a step-1 slice that keeps the length keeps the list, whatever start and end are (also non-constant ones) *)
Lemma slice1_same_length : forall (A : Type) (l : list A) s e,
  slice_len s e (Z.of_nat (length l)) = Z.of_nat (length l) -> slice1 s e l = l.
Proof.
  intros A l s e H. unfold slice_len in H. unfold slice1. cbn zeta. set (n := Z.of_nat (length l)) in *.
  assert (Hn : 0 <= n) by (unfold n; lia).
  assert (Hs : 0 <= clamp n s <= n) by (unfold clamp; lia).
  assert (He : 0 <= clamp n e <= n) by (unfold clamp; lia).
  destruct (Z.eq_dec n 0) as [Hz|Hz].
  - assert (l = []) by (destruct l; [reflexivity|unfold n in Hz; cbn in Hz; lia]). subst l.
    now rewrite skipn_nil, firstn_nil.
  - assert (clamp n s = 0) as -> by lia. assert (clamp n e = n) as -> by lia.
    cbn [Z.to_nat skipn]. rewrite Z.sub_0_r. unfold n. rewrite Nat2Z.id. apply firstn_all.
Qed.

(* --- along an axis of a well-shaped tensor ---------------------------------------------------- *)
Lemma along_id : forall a (f : list tensor -> list tensor) sh t,
  has_shape sh t = true -> (a < length sh)%nat ->
  (forall l, Z.of_nat (length l) = nth a sh 0 -> f l = l) ->
  along a f t = t.
Proof.
  induction a as [|a IH]; intros f sh t Hs Ha Hf.
  - destruct sh as [|d sh]; [cbn in Ha; lia|]. destruct t as [v|l]; [discriminate|].
    cbn in Hs. apply andb_true_iff in Hs as [Hl _]. apply Z.eqb_eq in Hl. cbn. f_equal. apply Hf. exact Hl.
  - destruct sh as [|d sh]; [cbn in Ha; lia|]. destruct t as [v|l]; [discriminate|].
    cbn in Hs. apply andb_true_iff in Hs as [_ Hall]. cbn [along]. f_equal.
    rewrite forallb_forall in Hall. rewrite <- (map_id l) at 2. apply map_ext_in. intros x Hx.
    apply (IH f sh x); auto. cbn in Ha. lia.
Qed.

(* collapse_slice_rule: start 0, step 1, end >= dim (or INT64_MAX) => Slice is the identity, for every rank, axis, dims *)
Theorem collapse_slice_sound : forall sh t ds s e a st k,
  check1 (Some ds) s e a st = true ->
  has_shape sh t = true ->
  length ds = length sh ->                                         (* the declared rank is the real rank *)
  (forall i d, nth i ds None = Some d -> nth i sh 0 = d) ->        (* static dims of the annotation are truthful *)
  (forall i, nth i sh 0 <= INT64_MAX) ->
  norm_axis (length sh) a = Some k ->
  along k (slice1 s e) t = t.
Proof.
  intros sh t ds s e a st k Hc Hs Hr Htr Hmax Hk.
  unfold check1 in Hc.
  destruct (st =? 1) eqn:E1; [|discriminate]. destruct (s =? 0) eqn:E2; [|discriminate]. cbn [negb] in Hc.
  apply Z.eqb_eq in E2. subst s.
  assert (Hklt : (k < length sh)%nat).
  { unfold norm_axis in Hk. destruct ((0 <=? (if a <? 0 then a + Z.of_nat (length sh) else a)) && ((if a <? 0 then a + Z.of_nat (length sh) else a) <? Z.of_nat (length sh))) eqn:E; [|discriminate].
    inversion Hk. apply andb_true_iff in E as [Ea Eb]. apply Z.leb_le in Ea. apply Z.ltb_lt in Eb. lia. }
  apply (along_id k _ sh t Hs Hklt). intros l Hl. apply slice1_full.
  destruct (e =? INT64_MAX) eqn:E3.
  - apply Z.eqb_eq in E3. subst e. rewrite Hl. apply Hmax.
  - rewrite Hr, Hk in Hc. destruct (nth k ds None) as [d|] eqn:Ed; [|discriminate].
    apply negb_true_iff in Hc. apply Z.ltb_ge in Hc. rewrite Hl. rewrite (Htr k d Ed). exact Hc.
Qed.

(* collapse_slice2_rule, one axis: all steps 1 and the (truthful) output shape equals the input shape => identity,
   for arbitrary -- also non-constant -- starts and ends *)
Theorem collapse_slice2_sound_1axis : forall sh t s e k,
  has_shape sh t = true -> (k < length sh)%nat ->
  slice_len s e (nth k sh 0) = nth k sh 0 ->          (* declared output dim = input dim on the sliced axis *)
  along k (slice1 s e) t = t.
Proof.
  intros sh t s e k Hs Hk Hlen. apply (along_id k _ sh t Hs Hk). intros l Hl.
  apply slice1_same_length. rewrite Hl. exact Hlen.
Qed.

(* each near miss of check1 has a witness where the Slice is not the identity *)
Theorem collapse_near_misses : 
  slice1 1 9 [1; 2; 3] <> [1; 2; 3] /\ slice1 0 2 [1; 2; 3] <> [1; 2; 3] /\ slice1 0 (-1) [1; 2; 3] <> [1; 2; 3].
Proof. repeat split; vm_compute; discriminate. Qed.

(* SlicesSplit: on an even last dimension the two slices are the two outputs of Split(num_outputs=2) ... *)
Theorem slices_split_sound : forall (A : Type) (l : list A) b0 e0 b1 e1,
  let d := Z.of_nat (length l) in
  split_check d b0 e0 b1 e1 = true -> Z.even d = true ->
  (slice1 b0 e0 l, slice1 b1 e1 l) = split2 l.
Proof.
  intros A l b0 e0 b1 e1 d Hc Hev. unfold split_check in Hc.
  apply andb_true_iff in Hc as [Hc H4]. apply andb_true_iff in Hc as [Hc H3]. apply andb_true_iff in Hc as [H1 H2].
  apply Z.eqb_eq in H1, H2, H3, H4. subst b0 e0 e1.
  assert (Hd : 0 <= d) by (unfold d; lia).
  apply Zeven_bool_iff in Hev. destruct (Zeven_ex d Hev) as [h Hh].
  assert (Hb : b1 = h) by (rewrite <- H4, Hh; rewrite Z.mul_comm; apply Z.div_mul; lia).
  unfold split2. fold d. replace ((d + 1) / 2) with h.
  2:{ rewrite Hh. symmetry. replace (2 * h + 1) with (1 + h * 2) by lia. rewrite Z.div_add by lia. reflexivity. }
  unfold slice1. cbn zeta. fold d. unfold clamp.
  replace (0 <? 0) with false by reflexivity.
  assert (Hh0 : 0 <= h <= d) by lia.
  destruct (b1 <? 0) eqn:Eb; [apply Z.ltb_lt in Eb; lia|].
  destruct (d <? 0) eqn:Ed; [apply Z.ltb_lt in Ed; lia|].
  replace (Z.max 0 (Z.min d 0)) with 0 by lia. replace (Z.max 0 (Z.min d b1)) with h by lia.
  replace (Z.max 0 (Z.min d d)) with d by lia.
  cbn [Z.to_nat skipn]. rewrite Z.sub_0_r. f_equal.
  rewrite firstn_all2; [reflexivity|]. rewrite skipn_length. unfold d. lia.
Qed.

(* ... on an odd one they are not (check accepts d // 2, Split puts the larger chunk first): latent, see the harness note *)
Theorem slices_split_odd_refuted : exists (l : list Z) b0 e0 b1 e1,
  split_check (Z.of_nat (length l)) b0 e0 b1 e1 = true /\ (slice1 b0 e0 l, slice1 b1 e1 l) <> split2 l.
Proof. exists [1; 2; 3; 4; 5], 0, 2, 2, 5. split; [reflexivity|]. vm_compute. discriminate. Qed.

Example collapse_example :
  check1 (Some [Some 2; None; Some 4]) 0 4 (-1) 1 = true /\ check1 (Some [Some 2; None; Some 4]) 0 4 1 1 = false
  /\ along 1 (slice1 0 5) (Dim [Dim [Sc 1; Sc 2]; Dim [Sc 3; Sc 4]]) = Dim [Dim [Sc 1; Sc 2]; Dim [Sc 3; Sc 4]].
Proof. repeat split; reflexivity. Qed.

(* --- collapse_slice2_rule, any number of sliced axes ------------------------------------------- *)
Lemma set_dim_length : forall l k v, length (set_dim k v l) = length l.
Proof. induction l as [|x l IH]; intros [|k] v; cbn; auto. Qed.
Lemma set_dim_nth_same : forall l k v, (k < length l)%nat -> nth k (set_dim k v l) 0 = v.
Proof. induction l as [|x l IH]; intros [|k] v H; cbn in *; try lia; auto. apply IH. lia. Qed.
Lemma set_dim_nth_other : forall l k v j, j <> k -> nth j (set_dim k v l) 0 = nth j l 0.
Proof. induction l as [|x l IH]; intros [|k] v [|j] H; cbn; auto; try congruence. Qed.
Lemma set_dim_out_of_range : forall l k v, (length l <= k)%nat -> set_dim k v l = l.
Proof. induction l as [|x l IH]; intros [|k] v H; cbn in *; auto; try lia. f_equal. apply IH. lia. Qed.

Lemma slice_len_le : forall s e n, 0 <= n -> 0 <= slice_len s e n <= n.
Proof. intros s e n Hn. unfold slice_len, clamp. lia. Qed.

Definition nonneg (sh : list Z) : Prop := forall i, 0 <= nth i sh 0.

Lemma step_shape_le : forall sh sp, nonneg sh ->
  length (step_shape sh sp) = length sh /\ nonneg (step_shape sh sp) /\ forall i, nth i (step_shape sh sp) 0 <= nth i sh 0.
Proof.
  intros sh [[k s] e] Hn. unfold step_shape. split; [apply set_dim_length|].
  destruct (Nat.lt_ge_cases k (length sh)) as [Hk|Hk].
  - pose proof (slice_len_le s e (nth k sh 0) (Hn k)) as Hl. split; intro i.
    + destruct (Nat.eq_dec i k) as [->|Hne]; [rewrite set_dim_nth_same by exact Hk; lia|rewrite set_dim_nth_other by exact Hne; apply Hn].
    + destruct (Nat.eq_dec i k) as [->|Hne]; [rewrite set_dim_nth_same by exact Hk; lia|rewrite set_dim_nth_other by exact Hne; lia].
  - rewrite set_dim_out_of_range by exact Hk. split; [exact Hn|intro; lia].
Qed.

Lemma mshape_le : forall specs sh, nonneg sh ->
  length (mshape specs sh) = length sh /\ forall i, nth i (mshape specs sh) 0 <= nth i sh 0.
Proof.
  induction specs as [|sp r IH]; intros sh Hn; cbn [mshape]; [split; [reflexivity|intro; lia]|].
  destruct (step_shape_le sh sp Hn) as (Hl & Hn' & Hle). destruct (IH _ Hn') as [Hl2 Hle2].
  split; [congruence|]. intro i. specialize (Hle i). specialize (Hle2 i). lia.
Qed.

(* all steps 1 and the (truthful) output shape equals the input shape => the Slice is the identity, for every number of
   sliced axes, arbitrary -- also non-constant -- axes, starts and ends *)
Theorem collapse_slice2_sound : forall specs sh t,
  has_shape sh t = true -> nonneg sh ->
  (forall k s e, In (k, s, e) specs -> (k < length sh)%nat) ->
  mshape specs sh = sh ->
  mslice specs t = t.
Proof.
  induction specs as [|[[k s] e] r IH]; intros sh t Hs Hn Hax Hm; [reflexivity|].
  cbn [mshape mslice] in *.
  destruct (step_shape_le sh (k, s, e) Hn) as (Hl & Hn' & Hle). destruct (mshape_le r _ Hn') as [Hl2 Hle2].
  assert (Hst : step_shape sh (k, s, e) = sh).
  { apply (nth_ext _ _ 0 0 Hl). intros i _. specialize (Hle i). specialize (Hle2 i). rewrite Hm in Hle2. lia. }
  assert (Hk : (k < length sh)%nat) by (apply (Hax k s e); left; reflexivity).
  assert (Hlen : slice_len s e (nth k sh 0) = nth k sh 0).
  { rewrite <- Hst at 2. unfold step_shape. now rewrite set_dim_nth_same. }
  rewrite (collapse_slice2_sound_1axis sh t s e k Hs Hk Hlen).
  rewrite Hst in Hm. apply (IH sh t Hs Hn); auto. intros k' s' e' Hin. apply (Hax k' s' e'). right. exact Hin.
Qed.

(* check2 accepts => any two runtime shapes the declarations denote (same binding of the symbol names) are equal *)
Lemma sshape_eqb_denotes : forall val ds os sh sh',
  sshape_eqb ds os = true -> denotes val ds sh -> denotes val os sh' ->
  (forall d, In d ds -> d <> DUn) -> sh = sh'.
Proof.
  induction ds as [|d ds IH]; intros [|o os] sh sh' He Hd Ho Hun; cbn in He; try discriminate.
  - destruct sh; [|contradiction]. destruct sh'; [reflexivity|contradiction].
  - apply andb_true_iff in He as [H1 H2].
    assert (Hun' : forall d', In d' ds -> d' <> DUn) by (intros; apply Hun; right; assumption).
    destruct d as [x|n|], o as [y|m|]; cbn in H1; try discriminate.
    + destruct sh as [|a sh]; [contradiction|]. destruct sh' as [|b sh']; [contradiction|].
      cbn in Hd, Ho. destruct Hd as [-> Hd], Ho as [-> Ho]. apply Z.eqb_eq in H1. subst. f_equal. eapply IH; eauto.
    + destruct sh as [|a sh]; [contradiction|]. destruct sh' as [|b sh']; [contradiction|].
      cbn in Hd, Ho. destruct Hd as [-> Hd], Ho as [-> Ho]. apply Nat.eqb_eq in H1. subst. f_equal. eapply IH; eauto.
Qed.
Lemma sshape_eqb_no_unknown : forall ds os, sshape_eqb ds os = true -> forall d, In d ds -> d <> DUn.
Proof.
  induction ds as [|d ds IH]; intros [|o os] He x Hin; cbn in *; try discriminate; [contradiction|].
  apply andb_true_iff in He as [H1 H2]. destruct Hin as [<-|Hin]; [destruct d, o; cbn in H1; discriminate|eauto].
Qed.

(* the rule-level statement: `_same_shape` accepted, the declarations are truthful for the input and for the output that
   ONNX Slice produces => the Slice is the identity *)
Theorem collapse_slice2_rule_sound : forall val ds os st specs sh t,
  check2 (Some ds) (Some os) (Some st) = true ->
  has_shape sh t = true -> nonneg sh ->
  (forall k s e, In (k, s, e) specs -> (k < length sh)%nat) ->
  denotes val ds sh -> denotes val os (mshape specs sh) ->
  mslice specs t = t.
Proof.
  intros val ds os st specs sh t Hc Hs Hn Hax Hd Ho. unfold check2 in Hc. apply andb_true_iff in Hc as [_ He].
  apply (collapse_slice2_sound specs sh t Hs Hn Hax). symmetry.
  eapply sshape_eqb_denotes; eauto. eapply sshape_eqb_no_unknown; eauto.
Qed.

(* two unknown dims are not known to be equal: `==` on unnamed dims would let a real slice through *)
Theorem collapse_slice2_unknown_dim_near_miss :
  mslice [(0%nat, 1, INT64_MAX)] (Dim [Sc 1; Sc 2; Sc 3]) <> Dim [Sc 1; Sc 2; Sc 3] /\
  check2 (Some [DUn]) (Some [DUn]) (Some [1]) = false /\ check2 (Some [DSy 0]) (Some [DSy 1]) (Some [1]) = false /\
  check2 (Some [DSt 3]) (Some [DSt 3]) (Some [2]) = false /\ check2 (Some [DSt 3]) (Some [DSt 3]) None = false.
Proof. repeat split; vm_compute; try reflexivity; discriminate. Qed.

Example collapse2_example :
  check2 (Some [DSt 2; DSy 0; DSt 2]) (Some [DSt 2; DSy 0; DSt 2]) (Some [1; 1]) = true /\
  mshape [(2%nat, -9, 9); (0%nat, 0, 9)] [2; 3; 2] = [2; 3; 2] /\
  mslice [(1%nat, 0, 5); (0%nat, -2, INT64_MAX)] (Dim [Dim [Sc 1; Sc 2]; Dim [Sc 3; Sc 4]]) = Dim [Dim [Sc 1; Sc 2]; Dim [Sc 3; Sc 4]].
Proof. repeat split; reflexivity. Qed.
