(* C11 -- correspondence helpers for mixed basic + advanced indexing (AdvSpec.v).  No proofs here.
   A case carries the inputs and what NumPy / the converted graph on onnxruntime / eager evaluation returned, the
   ops the converter emitted and the op calls eager mode made (Gather index operands flattened, their shapes listed
   separately in emission order). *)
From Coq Require Import ZArith List Bool.
Import ListNotations.
Require Import OV.Index.NumpySpec OV.Index.OnnxSlice OV.Index.ConverterIdx OV.Index.EagerIdx OV.Index.Corr
               OV.Index.AdvSpec.
Open Scope Z_scope.

Definition outcome_of_nest (shape : list Z) (r : option nest) : outcome :=
  match r with None => OErr | Some n => OOk (fst n) (nest_data shape n) end.

Record acase := mkacase {
  a_shape : list Z;
  a_idx : list acomp;
  a_np : option outcome;
  a_graph : option outcome;
  a_eager : option outcome;
  a_skel : option (option (list op));
  a_gsh : option (list (list Z));
  a_eskel : option (list op);
  a_egsh : option (list (list Z))
}.

Definition a_wf (c : acase) : bool := forallb wf_acomp (a_idx c).

Definition anp_agrees (c : acase) : bool :=
  a_wf c && chk (a_np c) (fun o => outcome_eqb o (outcome_of_nest (a_shape c) (np_nest (a_shape c) (a_idx c)))).
Definition agraph_agrees (c : acase) : bool :=
  chk (a_graph c) (fun o => outcome_eqb o (outcome_of_nest (a_shape c) (conv_nest (a_shape c) (a_idx c)))).
Definition aeager_agrees (c : acase) : bool :=
  chk (a_eager c) (fun o => outcome_eqb o (outcome_of_nest (a_shape c) (eager_nest (a_shape c) (a_idx c)))).
Definition askel_agrees (c : acase) : bool :=
  chk (a_skel c) (fun s => oops_eqb s (conv_ops true (map flat (a_idx c)))) &&
  chk (a_gsh c) (fun g => list_eqb zlist_eqb g (conv_gshapes (a_idx c))).
Definition aeskel_agrees (c : acase) : bool :=
  chk (a_eskel c) (fun s =>
    match eager_ops true (a_shape c) (map flat (a_idx c)) with
    | None => match s with [] => true | _ => false end
    | Some ops =>
        let ops' := filter not_squeeze ops in
        match a_eager c with
        | Some (OOk _ _) => list_eqb op_eqb s ops' && chk (a_egsh c) (fun g => list_eqb zlist_eqb g (eager_gshapes (a_idx c)))
        | _ => is_prefix op_eqb s ops' && chk (a_egsh c) (fun g => is_prefix zlist_eqb g (eager_gshapes (a_idx c)))
        end
    end).

(* the model's own verdict: is the emitted result NumPy's?  (printed next to the observation by the harness) *)
Definition model_conv_equal (c : acase) : bool :=
  outcome_eqb (outcome_of_nest (a_shape c) (conv_nest (a_shape c) (a_idx c)))
              (outcome_of_nest (a_shape c) (np_nest (a_shape c) (a_idx c))).
Definition a_good (c : acase) : bool := good_form (map akind (a_idx c)).

Fixpoint afailing (f : acase -> bool) (i : nat) (cs : list acase) : list nat :=
  match cs with [] => [] | c :: t => (if f c then [] else [i]) ++ afailing f (S i) t end.
