(* Property-level packaging of Opt/FoldProofs.v for Props/C03.v and Props/C04.v: the kernel oracles as one bundle,
   the theorems restated over it, the composition lemma for the optimize pipeline, and concrete instances showing
   that the hypotheses are satisfiable. *)
From Coq Require Import List String ZArith Bool Lia.
Require Import OV.Graph.Syntax OV.Graph.Sem OV.Graph.Names OV.Graph.SemProofs OV.Gen.FoldTables OV.Opt.Fold OV.Opt.SemLemmas OV.Opt.FoldProofs OV.Opt.FoldNested.
Import ListNotations.
Local Open Scope list_scope.
Local Open Scope string_scope.

Section T.
  Variable V : Type.
  Variable sem : string -> string -> list (string * attrv) -> list (option V) -> option (list V).
  Variable truth : V -> option bool.
  Variable trip : V -> option nat.
  Variable of_nat : nat -> V.
  Variable of_bool : bool -> V.
  Variable limit : nat.
  Variable ref_eval : string -> string -> list (string * attrv) -> list (option V) -> option (list V).
  Variable const_val : list (string * attrv) -> option V.
  Variable attr_of_val : V -> attrv.
  Variable v_dtype : V -> Z.
  Variable v_dims : V -> list Z.
  Variable v_ints : V -> option (list Z).
  Variable v_tensor : V -> bool.

  (* What is assumed of the outside world (DESIGN 6: oracles are hypotheses, measured by the harness):
     - the reference evaluator used for folding agrees with the runtime kernel (`ref_agrees`);
     - a Constant node yields the tensor of its attribute, and the attribute built for a folded value denotes it;
     - Identity returns its input;
     - the truth value of a one-element boolean tensor is what the folder reads from it. *)
  Definition oracles : Prop :=
    (forall dom op attrs xs ys, ref_eval dom op attrs xs = Some ys -> sem dom op attrs xs = Some ys) /\
    (forall attrs c vs, const_val attrs = Some c -> sem "" "Constant" attrs vs = Some [c]) /\
    (forall v, const_val [("value", attr_of_val v)] = Some v) /\
    (forall attrs v, sem "" "Identity" attrs [Some v] = Some [v]) /\
    (forall v b, v_ints v = Some [b] -> v_dtype v = DT_BOOL -> truth v = Some (negb (Z.eqb b 0))).

  Notation eval_graph := (eval_graph V sem truth trip of_nat of_bool limit).
  Notation eval_node := (eval_node V sem truth trip of_nat of_bool limit).
  Notation run := (run V sem truth trip of_nat of_bool limit).
  Notation pe_ok := (pe_ok V sem truth trip of_nat of_bool limit).
  Notation subs_spec := (fun cfg => subs_spec V sem truth trip of_nat of_bool limit cfg).

  Theorem fold_pass_sound_b : oracles -> forall pe cfg, pe_ok pe -> forall visit_subs, subs_spec cfg visit_subs ->
    forall fuel bound st gi inits nodes outs st' ns' inits' news defd tr,
      visit_nodes V ref_eval const_val attr_of_val v_dtype v_dims v_ints v_tensor pe true cfg visit_subs fuel false (gi ++ bound) st inits nodes
        = OK (st', ns', inits', news, defd, tr) ->
      incl (s_guard V st) (c_graph_inputs cfg) ->
      forall F outer args r,
        (forall e0, bind gi args outer = Some e0 -> inv V st e0 /\ dom_ok V e0 (gi ++ bound)) ->
        eval_graph (S F) outer (Graph gi inits nodes outs) args = Some r ->
        eval_graph (S F) outer (Graph gi inits' ns' outs) args = Some r.
  Proof. intros (A & B & C & D & E). apply (fold_pass_sound V sem truth trip of_nat of_bool limit); assumption. Qed.

  Theorem visit_nodes_sound_b : oracles -> forall pe cfg, pe_ok pe -> forall visit_subs, subs_spec cfg visit_subs ->
    forall fuel isf bound st inits work st' ns' inits' news defd tr,
      visit_nodes V ref_eval const_val attr_of_val v_dtype v_dims v_ints v_tensor pe true cfg visit_subs fuel isf bound st inits work
        = OK (st', ns', inits', news, defd, tr) ->
      ext V st st' defd /\
      forall F e e1, inv V st e -> dom_ok V e bound -> incl (s_guard V st) (c_graph_inputs cfg) -> run (eval_graph F) e work = Some e1 ->
        exists e1', run (eval_graph F) e ns' = Some e1' /\ sub_env V e1 e1' /\ inv V st' e1' /\ dom_ok V e1' (defd ++ bound).
  Proof. intros (A & B & C & D & E). apply (visit_nodes_sound V sem truth trip of_nat of_bool limit); assumption. Qed.

  Theorem if_inline_sound_b : oracles -> forall F st bound n st2 R moved e a,
    pe_if V v_dtype v_dims v_ints st n = PInline V st2 R moved -> n_op n = "If" -> n_dom n = "" ->
    inline_ok V v_dtype v_dims v_ints st bound n = true -> inv V st e -> dom_ok V e bound ->
    eval_node (eval_graph F) e n = Some a ->
    facts_eq V st st2 /\ exists b, run (eval_graph F) e R = Some b /\ sub_env V a b.
  Proof. intros (A & B & C & D & E). apply (if_inline_sound V sem truth trip of_nat of_bool limit); assumption. Qed.

  (* visit_graph of the model (traversal with the real recursion through nested graphs, then the replacement of graph
     outputs with its renaming): only the op-specific partial evaluators remain as a hypothesis *)
  Theorem fold_graph_sound_b : oracles -> forall pe cfg, pe_ok pe ->
    forall depth fuel bound st g st' g' news tr,
      fold_graph V ref_eval const_val attr_of_val v_dtype v_dims v_ints v_tensor pe true cfg depth fuel bound st g = OK (st', g', news, tr) ->
      incl (s_guard V st) (c_graph_inputs cfg) ->
      forall F outer args r,
        (forall e0, bind (g_ins g) args outer = Some e0 -> inv V st e0 /\ dom_ok V e0 (g_ins g ++ bound)) ->
        eval_graph (S F) outer g args = Some r -> eval_graph (S F) outer g' args = Some r.
  Proof. intros (A & B & C & D & E) pe cfg Hpe. apply (fold_graph_sound V sem truth trip of_nat of_bool limit); assumption. Qed.

  Theorem visit_subs_d_spec_b : oracles -> forall pe cfg, pe_ok pe -> forall depth fuel,
    subs_spec cfg (visit_subs_d V ref_eval const_val attr_of_val v_dtype v_dims v_ints v_tensor pe true cfg depth fuel).
  Proof. intros (A & B & C & D & E) pe cfg Hpe. apply (visit_subs_d_spec V sem truth trip of_nat of_bool limit); assumption. Qed.

  (* ---- the optimize pipeline as a composition of stages *)
  Definition refines (g g' : graph) : Prop :=
    forall F outer args r, eval_graph (S F) outer g args = Some r -> eval_graph (S F) outer g' args = Some r.
  Definition stage := graph -> option graph.
  Definition stage_sound (s : stage) : Prop := forall g g', s g = Some g' -> refines g g'.

  Fixpoint run_stages (l : list stage) (g : graph) : option graph :=
    match l with
    | [] => Some g
    | s :: t => match s g with Some g' => run_stages t g' | None => None end
    end.
  Fixpoint iterate (n : nat) (body : list stage) (g : graph) : option graph :=
    match n with
    | O => Some g
    | S k => match run_stages body g with Some g' => iterate k body g' | None => None end
    end.

  Lemma refines_refl g : refines g g.
  Proof. intros F outer args r H; exact H. Qed.
  Lemma refines_trans a b c : refines a b -> refines b c -> refines a c.
  Proof. intros A B F outer args r H. apply B, A, H. Qed.

  Lemma run_stages_sound l : Forall stage_sound l -> forall g g', run_stages l g = Some g' -> refines g g'.
  Proof.
    induction l as [|s t IH]; intros Hl g g'; cbn.
    - intro H; inversion H; subst. apply refines_refl.
    - inversion Hl; subst. destruct (s g) as [g1|] eqn:E; [|discriminate]. intro H.
      apply (refines_trans g g1 g'); [apply H1; exact E|apply IH; assumption].
  Qed.
  Lemma iterate_sound n body : Forall stage_sound body -> forall g g', iterate n body g = Some g' -> refines g g'.
  Proof.
    intro Hb. induction n as [|k IH]; intros g g'; cbn.
    - intro H; inversion H; subst. apply refines_refl.
    - destruct (run_stages body g) as [g1|] eqn:E; [|discriminate]. intro H.
      apply (refines_trans g g1 g'); [exact (run_stages_sound body Hb g g1 E)|apply IH; exact H].
  Qed.

  (* optimize_ir: [Inline] ; ([Fold; Rewrite; DCE; unused functions; unused opsets])^n ; DCE ; lift constants ;
     lift subgraph initializers ; dedup initializers ; CSE ; OutputFix ; NameFix.  If each stage refines, so does the
     whole pipeline, for every number of iterations and with or without the leading Inline. *)
  Theorem optimize_pipeline_sound : forall (pre loop post : list stage) (n : nat),
    Forall stage_sound pre -> Forall stage_sound loop -> Forall stage_sound post ->
    forall g g1 g2 g3, run_stages pre g = Some g1 -> iterate n loop g1 = Some g2 -> run_stages post g2 = Some g3 -> refines g g3.
  Proof.
    intros pre loop post n Hp Hl Hq g g1 g2 g3 A B C.
    apply (refines_trans g g1 g3); [exact (run_stages_sound pre Hp g g1 A)|].
    apply (refines_trans g1 g2 g3); [exact (iterate_sound n loop Hl g1 g2 B)|exact (run_stages_sound post Hq g2 g3 C)].
  Qed.

  (* dead-node elimination as a stage *)
  Theorem dce_refines : forall gi gn pre M suf outs,
    disjoint (defs_nodes M) (names_nodes suf) -> disjoint (defs_nodes M) outs ->
    refines (Graph gi gn (pre ++ M ++ suf) outs) (Graph gi gn (pre ++ suf) outs).
  Proof. intros gi gn pre M suf outs D1 D2 F outer args r. apply (dce_sound V sem truth trip of_nat of_bool limit); assumption. Qed.
End T.

(* ---------------------------------------------------------------- satisfiability of the hypotheses *)
(* integers as values: Add is addition, Constant reads an integer attribute, Identity is the identity *)
Definition z_sem (dom op : string) (attrs : list (string * attrv)) (xs : list (option Z)) : option (list Z) :=
  if String.eqb op "Add" then match xs with [Some a; Some b] => Some [(a + b)%Z] | _ => None end
  else if String.eqb op "Identity" then match xs with [Some a] => Some [a] | _ => None end
  else if String.eqb op "Constant" then match attrs with [(_, AInt z)] => Some [z] | _ => None end
  else if String.eqb op "Neg" then match xs with [Some a] => Some [(- a)%Z] | _ => None end
  else None.
Definition z_ref (dom op : string) (attrs : list (string * attrv)) (xs : list (option Z)) : option (list Z) :=
  if String.eqb op "Add" || String.eqb op "Neg" || String.eqb op "Identity" then z_sem dom op attrs xs else None.
Definition z_const (attrs : list (string * attrv)) : option Z := match attrs with [(_, AInt z)] => Some z | _ => None end.
Definition z_truth (z : Z) : option bool := Some (negb (Z.eqb z 0)).

Example oracles_satisfiable :
  oracles Z z_sem z_truth z_ref z_const AInt (fun _ => DT_BOOL) (fun z => Some [z]).
Proof.
  repeat split.
  - intros dom op attrs xs ys. unfold z_ref. destruct (_ || _); [auto|discriminate].
  - intros attrs c vs. unfold z_const, z_sem. destruct attrs as [|[k [z| | | | | | | |]] [|? ?]]; try discriminate.
    intro H; inversion H; subst. reflexivity.
  - intros v b H _. inversion H; subst. reflexivity.
Qed.

Example pe_none_ok : pe_ok Z z_sem z_truth (fun _ => None) (fun n => Z.of_nat n) (fun b => if b then 1%Z else 0%Z) 0 (pe_none Z).
Proof. intros st n. cbn. apply facts_eq_refl. Qed.

Example subs_id_ok : forall cfg, subs_spec Z z_sem z_truth (fun _ => None) (fun n => Z.of_nat n) (fun b => if b then 1%Z else 0%Z) 0 cfg (subs_id Z).
Proof. intro cfg. apply subs_id_spec. Qed.

(* a non-trivial run: c1 + c2 is folded (its node becomes a Constant), the Identity is kept and recorded,
   the consumer of the Identity is redirected, Neg of a graph input stays *)
Definition ex_cfg : config := mkConfig [("", 18%Z)] 8192 262144 [] ["x"] ["z"; "w"].
Definition ex_state : state Z :=
  mkState Z [("c1", 2%Z); ("c2", 3%Z)] [] [] [] [] 0 ["c1"; "c2"] [].
Definition ex_nodes : list node :=
  [Node "" "Add" [Some "c1"; Some "c2"] ["y"] [] [];
   Node "" "Identity" [Some "x"] ["i"] [] [];
   Node "" "Add" [Some "i"; Some "y"] ["z"] [] [];
   Node "" "Neg" [Some "x"] ["w"] [] []].
Definition ex_run :=
  visit_nodes Z z_ref z_const AInt (fun _ => DT_BOOL) (fun _ => []) (fun z => Some [z]) (fun _ => true)
              (pe_none Z) true ex_cfg (subs_id Z) 20 false (["x"] ++ ["c1"; "c2"]) ex_state ["c1"; "c2"] ex_nodes.
Example ex_run_result :
  match ex_run with
  | OK (_, ns, inits, news, _, _) =>
    ns = [Node "" "Constant" [] ["y"] [("value", AInt 5)] [];
          Node "" "Identity" [Some "x"] ["i"] [] [];
          Node "" "Add" [Some "x"; Some "y"] ["z"] [] [];
          Node "" "Neg" [Some "x"] ["w"] [] []]
    /\ inits = ["c1"; "c2"; "y"] /\ news = ["y"]
  | _ => False
  end.
Proof. vm_compute. repeat split. Qed.

(* the whole visit_graph on a graph with an If on a constant condition and an Identity feeding the graph output:
   the branch is inlined (t renamed to y), the output z is replaced by y (renamed to z, the old z becomes z~dup) *)
Definition ex2_cfg : config := mkConfig [("", 18%Z)] 8192 262144 [] ["x"] ["z"; "t"; "e"].
Definition ex2_state : state Z := mkState Z [("c", 1%Z); ("k", 7%Z)] [] [] [] [] 0 ["c"; "k"] [].
Definition ex2_graph : graph :=
  Graph ["x"] ["c"; "k"]
        [Node "" "If" [Some "c"] ["y"] []
              [("then_branch", Graph [] [] [Node "" "Add" [Some "x"; Some "k"] ["t"] [] []] ["t"]);
               ("else_branch", Graph [] [] [Node "" "Neg" [Some "x"] ["e"] [] []] ["e"])];
         Node "" "Identity" [Some "y"] ["z"] [] []]
        ["z"].
Definition ex2_run :=
  fold_graph Z z_ref z_const AInt (fun _ => DT_BOOL) (fun _ => []) (fun z => Some [z]) (fun _ => true)
             (pe_none Z) true ex2_cfg 3 20 ["c"; "k"] ex2_state ex2_graph.
Example ex2_run_result :
  match ex2_run with
  | OK (_, g, _, _) =>
    g = Graph ["x"] ["c"; "k"]
              [Node "" "Add" [Some "x"; Some "k"] ["z"] [] [];
               Node "" "Identity" [Some "z"] ["z~dup"] [] []]
              ["z"]
  | _ => False
  end.
Proof. vm_compute. reflexivity. Qed.

(* ---- Concat with a zero-length operand: the two variants of the evaluator (before / after fix 37f3956).
   x : [N, 0], y : [M, 2], axis 1: as read, x is dropped although Concat would have checked N = M (the replacement accepts
   bindings the original rejects: Shape/ExtraProofs.v concat_drop_accepts_exactly_refuted); repaired, nothing is dropped.
   With x : [N, 0] and y : [N, 2] the repaired evaluator drops x and returns Identity(y). *)
Definition cc_state (dx dy : dim) : state Z :=
  mkState Z [] [] [] [("x", [dx; DInt 0]); ("y", [dy; DInt 2])] [] 0 [] [].
Definition cc_node : node := Node "" "Concat" [Some "x"; Some "y"] ["z"] [("axis", AInt 1)] [].
Example concat_as_read_drops_unchecked_operand :
  match pe_concat_variant Z (fun _ => DT_INT64) (fun _ => []) (fun z => Some [z]) false (cc_state (DSym "N") (DSym "M")) cc_node with
  | PRepl _ _ [Node "" "Concat" [Some "y"] ["z"] [("axis", AInt 1)] []] => True
  | _ => False
  end.
Proof. vm_compute. exact I. Qed.
Example concat_repaired_keeps_unchecked_operand :
  match pe_concat_variant Z (fun _ => DT_INT64) (fun _ => []) (fun z => Some [z]) true (cc_state (DSym "N") (DSym "M")) cc_node with
  | PNone _ _ => True
  | _ => False
  end.
Proof. vm_compute. exact I. Qed.
Example concat_repaired_drops_checked_operand :
  match pe_concat_variant Z (fun _ => DT_INT64) (fun _ => []) (fun z => Some [z]) true (cc_state (DSym "N") (DSym "N")) cc_node with
  | PRepl _ _ [Node "" "Identity" [Some "y"] ["z"] [] []] => True
  | _ => False
  end.
Proof. vm_compute. exact I. Qed.

(* ---- attributes given by reference (function bodies): as read the node is folded as if the attribute were absent,
   repaired (fix "constant folding keeps nodes with reference attributes") it is kept *)
Definition ref_node : node := Node "" "Neg" [Some "c1"] ["y"] [("k", ARef "a")] [].
Example reference_attribute_as_read_folded :
  match decide_variant Z z_ref (fun _ => DT_BOOL) (fun _ => []) (fun z => Some [z]) (fun _ => true) (pe_none Z) ex_cfg false false ex_state ref_node with
  | DFoldInit _ _ "y" v => v = (-2)%Z
  | _ => False
  end.
Proof. vm_compute. reflexivity. Qed.
Example reference_attribute_repaired_kept :
  match decide_variant Z z_ref (fun _ => DT_BOOL) (fun _ => []) (fun z => Some [z]) (fun _ => true) (pe_none Z) ex_cfg true false ex_state ref_node with
  | DKeep _ RRefAttr _ => True
  | _ => False
  end.
Proof. vm_compute. exact I. Qed.
Lemma decide_variant_keeps_reference_attributes : forall V ref_eval v_dtype v_dims v_ints v_tensor pe cfg isf (st : state V) n,
  has_ref_attr n = true -> decide_variant V ref_eval v_dtype v_dims v_ints v_tensor pe cfg true isf st n = DKeep V RRefAttr st.
Proof. intros. unfold decide_variant. rewrite H. reflexivity. Qed.
