(* C10 -- Schema.v instantiated with the tables regenerated from the live code: the adapter registry
   (Gen/VersionTables.v) and the operator schemas of the installed onnx (Gen/VersionSchemas.v).
   No proofs in this file. *)
From Coq Require Import ZArith List Bool String.
Import ListNotations.
Require Import OV.Gen.VersionTables OV.Gen.VersionSchemas OV.Gen.VersionDocSteps OV.Version.Model OV.Version.Adapters OV.Version.Schema OV.Version.Std.
Local Open Scope Z_scope.
Local Open Scope string_scope.

(* the steps (op, new version) of the supported range that have neither an adapter nor an upward compatible
   schema.  Hand-maintained: SchemaStdProofs.exceptions_exact proves that this is exactly what the regenerated
   tables give, so a new exception (newer onnx, removed adapter) or a vanished one breaks the proof.
   Each entry is a finding, replayed on the real code by harness/c10.py (EXCEPTION_WITNESSES). *)
Definition schema_exceptions : list (string * Z) := [("QuantizeLinear", 19)].

(* the version steps documented as BEHAVIOURAL (Gen/VersionDocSteps.v) that have no adapter.  Hand-maintained; proved exact.
   AveragePool/MaxPool 22: with ceil_mode a window starting in the right padding is dropped -- replayed: finding
   (the output shape ONNX infers below 22 is rejected at 22); Cast 24: saturating cast of +-Inf to the FNUZ float8 types --
   onnx.reference and onnxruntime implement one behaviour for all opsets, observed equal before/after. *)
Definition doc_behavioural_exceptions : list (string * Z) := [("AveragePool", 22); ("Cast", 24); ("MaxPool", 22)].

(* operators for which no adapter is registered at any version: the conversion loop only re-stamps them *)
Definition q_std : string -> bool := no_adapter registry_keys.
(* ... and operators with no adapter at any version >= lo: a node already past its adapter version (DFT at 20, ...) *)
Definition q_from (lo : Z) : string -> bool := no_adapter_from registry_keys lo.

(* QuantizeLinear(x : int32, y_scale : float, y_zero_point : uint8) -> uint8: opset 13..18 lets x and y_scale differ
   (T1 / tensor(float)); opset 19..22 binds both to T1; opset 23 separates them again *)
Definition ql_int32 : vnode :=
  VNode [Some "tensor(int32)"; Some "tensor(float)"; Some "tensor(uint8)"] [Some "tensor(uint8)"] [].

(* non-vacuity instances: a Cast node (saturate appears at 19, round_mode at 24) and an If node *)
Definition cast_node := Node "Cast" true None false [("to", AInt 1)] [true] [] [].
Definition cast_info := NInfo ["tensor(int32)"] [Some "tensor(float)"] [].
Definition if_node := Node "If" true None false [] [true] [] [cast_node].
Definition if_info := NInfo ["tensor(bool)"] [Some "tensor(float)"] [("then_branch", 5); ("else_branch", 5)].
Definition ex_quiet_model : model := Model (Some 18) None [cast_node; if_node] [Func (Some 18) None [cast_node]].

(* ---------------------------------------------------------------- typing of the nodes the adapters build *)
Definition i64 : string := "tensor(int64)".
(* the type set of input position i of op under the schema in force at opset v *)
Definition in_types (op : string) (v : Z) (i : nat) : list string :=
  match hist_of schema_table op with
  | Some h => match sch_at h v with
              | Some sc => match nth_error (sc_ins sc) i with Some f => fm_types f | None => [] end
              | None => [] end
  | None => []
  end.
(* every node of the list, typed by the corresponding info, is valid under the schema in force at opset v *)
Definition valid_list (v : Z) (ns : list node) (infos : list ninfo) : bool :=
  Nat.eqb (List.length ns) (List.length infos) &&
  forallb (fun p => valid_at schema_table (n_op (fst p)) v (vnode_of (fst p) (snd p))) (combine ns infos).
Definition const_info := NInfo [] [Some i64] [].
(* DFT 19 -> 20: [Constant(value_int) -> int64 scalar; DFT(x : t0, dft_length : t1 (if present), axis : int64) : t0] *)
Definition dft_infos (t0 t1 : string) : list ninfo := [const_info; NInfo [t0; t1; i64] [Some t0] []].
(* GridSample 19 -> 20: same inputs and output, mode renamed *)
Definition gs_infos (tx tg : string) : list ninfo := [NInfo [tx; tg] [Some tx] []].
(* GroupNormalization 20 -> 21 (static channel dimension): three int64 Constants, Reshape/Expand/Reshape of scale and of
   bias (type T, shape operand int64), GroupNormalization(x, scale', bias') *)
Definition gn_infos (T : string) : list ninfo :=
  let sh := NInfo [T; i64] [Some T] [] in
  [const_info; const_info; const_info; sh; sh; sh; sh; sh; sh; NInfo [T; T; T] [Some T] []].
Definition ops_quiet_clear (v t : Z) (ns : list node) : bool :=
  forallb (fun m => q_from v (n_op m) && clear_of schema_exceptions (n_op m) v t) ns.

(* a function written for opset 19 (DFT with the axis attribute) inside an opset-20 model *)
Definition dft_info := NInfo ["tensor(float)"] [Some "tensor(float)"] [].
Definition w_func_opset : model := Model (Some 20) None [relu] [Func (Some 19) None [dft_axis1]].

(* ---------------------------------------------------------------- correspondence with the real checker *)
(* cases: operator, view of a node, and for some opsets the verdict of onnx.checker on the real model;
   result: (case index, opset) where valid_at disagrees *)
Fixpoint view_mismatches (i : nat) (cs : list (string * vnode * list (Z * bool))) : list (nat * Z) :=
  match cs with
  | [] => []
  | (op, x, vs) :: r =>
    flat_map (fun p => if Bool.eqb (valid_at schema_table op (fst p) x) (snd p) then [] else [(i, fst p)]) vs
    ++ view_mismatches (S i) r
  end.
