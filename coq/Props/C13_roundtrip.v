(* C13, the composed round trip the property states: ONNX --proto2python--> source --exec + to_model_proto--> ONNX.
   Statements only.

   C13_export_nested_sound_partial (Props/C13_nested.v): calling the exported function = evaluating the graph.
   C01_graph_eq_python_nested_partial (Props/C01.v): the graph the converter builds from a script function of its class
   computes what the function computes.  Composed: for a graph g in the class of the first theorem (nested_okb: plain
   nodes, If, the three Loop forms, nested to any depth, initializers) whose exported function f lies in the class of
   the second (pre_ok: decidable side conditions of the converter's liveness / exposed-uses analyses at every loop of
   f, evaluated on f itself), if the converter model accepts f (translate f = Some g') then g' computes on every input
   what g computes -- for every kernel semantics satisfying the kernel laws both theorems use.

   Exactly which hypotheses make `export g` land in C01's class is not a syntactic property of g alone: they are
   conditions on the sets the generated analysis computes for f (loop state = assigned /\ (exposed uses \/ live-out)
   must be live at the end of the body; what the body reads and is not state must come from outside unchanged; the
   loop variable is not used after the loop; ...).  They are boolean, and the harness evaluates them with
   Export/RoundTripClass.v `rt_class` on every exported function of the nested correspondence and reports how many
   satisfy every hypothesis of this theorem.
   PARTIAL: one direction, as C01's theorem (the original evaluates to vs -> the regenerated graph evaluates to vs; the
   converse needs the converse of C01's theorem); options off; the converter is C01's Gallina model `translate`
   (tied to the real converter by C01's own correspondence check), with no module constants / constant `if` conditions
   left to the caller; graph interface (same inputs) is f_tparams f = map prename (g_ins g) by construction, same
   number of outputs follows from the equal results. *)
From Coq Require Import List String ZArith Bool.
Import ListNotations.
Require Import OV.Gen.ExportTables OV.Export.Cleanup OV.Graph.Syntax OV.Graph.Sem OV.Script.Syntax OV.Script.Translate OV.Script.PySem
               OV.Script.TranslateProofs OV.Script.TranslateNestDefs OV.Export.Emit OV.Export.EmitCF OV.Export.EmitCFProofs
               OV.Export.RoundTripClass OV.Export.RoundTrip.
Local Open Scope string_scope.

(* the full statement: both directions, every exported function the converter accepts *)
Definition C13_roundtrip_sound_full : Prop :=
  forall (V : Type) sem truth trip of_nat of_bool limit globals kw prename rename infun fname ivals g f sk cic afuel orders g',
    export_cf kw prename rename infun None None false fname ivals g = Some (f, sk) ->
    translate false globals cic afuel orders f = Some g' ->
    exists fuel0, forall fg k xs, fuel0 <= fg -> fuel0 <= k ->
      eval_graph V sem truth trip of_nat of_bool limit k [] g' xs =
      match init_env V sem ivals with
      | Some outer => eval_graph V sem truth trip of_nat of_bool limit fg outer g xs
      | None => None
      end.

Theorem C13_roundtrip_sound_partial :
  forall (V : Type) sem truth trip of_nat of_bool limit globals,
    (forall v : V, sem "" "Identity" [] [Some v] = Some [v]) ->
    (forall b, truth (of_bool b) = Some b) ->
    (forall v b, truth v = Some b -> exists r, sem "" "Not" [] [Some v] = Some [r] /\ truth r = Some (negb b)) ->
    (forall a b x y, truth a = Some x -> truth b = Some y ->
       exists r, sem "" "And" [] [Some a; Some b] = Some [r] /\ truth r = Some (x && y)) ->
    (forall z c, const_val V sem (LInt z) = Some c -> trip c = Some (Z.to_nat z)) ->
    forall kw prename rename infun brk fname ivals g f sk wb cic afuel orders g' xs vs fg k pre es,
      export_cf kw prename rename infun None None false fname ivals g = Some (f, sk) ->
      nested_okb kw prename rename infun brk ivals g = true ->
      (brk = true -> forall v, exists b, truth v = Some b) ->
      (wb = true -> forall v, exists b, truth v = Some b) ->
      (forall c b pe v, cic c = Some b -> eval_expr V sem globals pe c = Some v -> ptruth V truth v = Some b) ->
      f_body f = (pre ++ [SReturn es])%list -> pre_ok globals cic afuel wb 11 pre [SReturn es] [] = true -> forallb expr_ok es = true ->
      NoDup (f_tparams f) ->
      translate false globals cic afuel orders f = Some g' ->
      depth_graph g <= S fg -> stmt_depth_fuel <= k ->
      match init_env V sem ivals with
      | Some outer => eval_graph V sem truth trip of_nat of_bool limit (S (S fg)) outer g xs = Some vs
      | None => False
      end ->
      eval_graph V sem truth trip of_nat of_bool limit (S k) [] g' xs = Some vs.
Proof. exact roundtrip_sound. Qed.
Print Assumptions C13_roundtrip_sound_partial.

(* session 6: the same composed statement with use_operators on or off (the converter model reads `a <op> b` through its
   operator table); the instance use_ops = None is the theorem above *)
Theorem C13_roundtrip_ops_sound_partial :
  forall (V : Type) sem truth trip of_nat of_bool limit globals,
    (forall v : V, sem "" "Identity" [] [Some v] = Some [v]) ->
    (forall b, truth (of_bool b) = Some b) ->
    (forall v b, truth v = Some b -> exists r, sem "" "Not" [] [Some v] = Some [r] /\ truth r = Some (negb b)) ->
    (forall a b x y, truth a = Some x -> truth b = Some y ->
       exists r, sem "" "And" [] [Some a; Some b] = Some [r] /\ truth r = Some (x && y)) ->
    (forall z c, const_val V sem (LInt z) = Some c -> trip c = Some (Z.to_nat z)) ->
    forall kw prename rename infun brk use_ops fname ivals g f sk wb cic afuel orders g' xs vs fg k pre es,
      export_cf kw prename rename infun use_ops None false fname ivals g = Some (f, sk) ->
      nested_ops_okb kw prename rename infun brk use_ops ivals g = true ->
      (brk = true -> forall v, exists b, truth v = Some b) ->
      (wb = true -> forall v, exists b, truth v = Some b) ->
      (forall c b pe v, cic c = Some b -> eval_expr V sem globals pe c = Some v -> ptruth V truth v = Some b) ->
      f_body f = (pre ++ [SReturn es])%list -> pre_ok globals cic afuel wb 11 pre [SReturn es] [] = true -> forallb expr_ok es = true ->
      NoDup (f_tparams f) ->
      translate false globals cic afuel orders f = Some g' ->
      depth_graph g <= S fg -> stmt_depth_fuel <= k ->
      match init_env V sem ivals with
      | Some outer => eval_graph V sem truth trip of_nat of_bool limit (S (S fg)) outer g xs = Some vs
      | None => False
      end ->
      eval_graph V sem truth trip of_nat of_bool limit (S k) [] g' xs = Some vs.
Proof. exact roundtrip_ops_sound. Qed.
Print Assumptions C13_roundtrip_ops_sound_partial.

Theorem C13_roundtrip_ops_example :
  nested_ops_okb kwlist (cleanup kwlist) (cleanup kwlist) false false (Some true) iv_nested g_nested = true /\
  exists f, export_cf kwlist (cleanup kwlist) (cleanup kwlist) false (Some true) None false "g" iv_nested g_nested = Some (f, []) /\
    rt_class (Some (f, [])) = (true, true, true) /\
    exists g', back f = Some g' /\ zgraph_rt g' [(-3)%Z] = Some [94%Z] /\ zgraph_rt g' [5%Z] = Some [(-10)%Z].
Proof. exact roundtrip_ops_example. Qed.
Print Assumptions C13_roundtrip_ops_example.

(* non-vacuity: the nested example of Props/C13_nested.v (If whose else branch holds a while loop, an initializer,
   names needing the clean-up): every boolean hypothesis holds, the converter model accepts the exported function, and
   the graph it builds computes 94 on -3 and -10 on 5, as the original *)
Theorem C13_roundtrip_example :
  nested_okb kwlist (cleanup kwlist) (cleanup kwlist) false false iv_nested g_nested = true /\
  export_cf kwlist (cleanup kwlist) (cleanup kwlist) false None None false "g" iv_nested g_nested = Some (f_nested, []) /\
  rt_class (Some (f_nested, [])) = (true, true, true) /\
  exists g', back f_nested = Some g' /\
             zgraph_rt g' [(-3)%Z] = Some [94%Z] /\ zgraph_rt g' [5%Z] = Some [(-10)%Z] /\
             option_map (fun outer => zgraph2 outer g_nested [(-3)%Z]) (init_env Z zsem2 iv_nested) = Some (Some [94%Z]) /\
             option_map (fun outer => zgraph2 outer g_nested [5%Z]) (init_env Z zsem2 iv_nested) = Some (Some [(-10)%Z]).
Proof. exact roundtrip_example. Qed.
Print Assumptions C13_roundtrip_example.
