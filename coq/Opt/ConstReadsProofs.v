(* C04: proofs about coq/Opt/ConstReads.v.  all_const_reads_guarded is a computation over the FINITE list of read sites regenerated
   from the current source on every run (coq/Gen/ConstReads.v): a new read of `.const_value` that is behind none of the recognised
   guards breaks it, whether or not a generated model reaches it. *)
From Coq Require Import List String ZArith Bool Lia.
Require Import OV.Graph.Syntax OV.Opt.Fold OV.Gen.ConstReads OV.Opt.ConstReads.
Import ListNotations.
Local Open Scope string_scope.

Lemma all_const_reads_guarded : all_const_reads_guarded_b = true.
Proof. vm_compute. reflexivity. Qed.

Lemma every_site_guarded_or_reasoned : forall s, In s const_read_sites -> site_guarded s = true \/ site_reason s <> "".
Proof.
  intros s Hs. pose proof all_const_reads_guarded as A. unfold all_const_reads_guarded_b in A.
  apply andb_true_iff in A. destruct A as [_ A]. rewrite forallb_forall in A. specialize (A s Hs).
  unfold site_ok in A. apply orb_true_iff in A. destruct A as [A|A]; [left; exact A|right].
  intro E. rewrite E in A. discriminate.
Qed.

(* the _do_inference site exists in the enumeration, reads through _get_numpy_value, and all of its reads are guarded *)
Lemma do_inference_site_guarded :
  do_inference_reads_through_numpy_value = true /\ sites_of do_inference_fn <> [] /\
  forallb site_guarded (sites_of do_inference_fn) = true.
Proof. vm_compute. repeat split; discriminate. Qed.

Section P.
  Variable V : Type.
  Variable v_dtype : V -> Z.
  Variable v_dims : V -> list Z.

  (* guarded: the default of an initializer-input is never handed to ONNX shape inference as input data *)
  Lemma infer_data_guarded_invisible : forall st x, mem x (s_guard V st) = true -> infer_data V v_dtype v_dims st x = None.
  Proof. intros st x G. unfold infer_data, numpy_value. rewrite G. reflexivity. Qed.

  Lemma infer_data_src_guarded_invisible : forall st x, mem x (s_guard V st) = true -> infer_data_src V v_dtype v_dims st x = None.
  Proof.
    intros st x G. unfold infer_data_src.
    replace do_inference_reads_through_numpy_value with true by (symmetry; exact (proj1 do_inference_site_guarded)).
    apply infer_data_guarded_invisible; exact G.
  Qed.

  (* where it is not guarded both variants agree: the guard is the only difference *)
  Lemma infer_data_variants_agree : forall st x, mem x (s_guard V st) = false ->
    infer_data V v_dtype v_dims st x = infer_data_unguarded V v_dims st x.
  Proof.
    intros st x G. unfold infer_data, infer_data_unguarded, numpy_value. rewrite G.
    destruct (get_const V st (Some x)); reflexivity.
  Qed.

  (* unguarded: a small default of a guarded value IS handed over (for every value type with such a tensor) *)
  Lemma infer_data_unguarded_reads_default : forall (v : V), Z.leb (v_size V v_dims v) (Z.of_nat do_inference_size_limit) = true ->
    exists st x, mem x (s_guard V st) = true /\ infer_data_unguarded V v_dims st x = Some v.
  Proof.
    intros v Hs. exists (mkState V [("shp", v)] [] [] [] [] 0 ["shp"] ["shp"]), "shp". split; [reflexivity|].
    unfold infer_data_unguarded. remember (Z.of_nat do_inference_size_limit) as lim eqn:El. clear El. cbn.
    apply Z.leb_le in Hs.
    destruct (Z.ltb_spec lim (v_size V v_dims v)) as [L|L]; [exfalso; lia|reflexivity].
  Qed.
End P.
