(* C18, "all value and node names are unique", node names: with the node counter shared by the builder tree
   (the current code: probed on every run), the names of ALL nodes the build creates -- root graph and every
   If / Loop / Scan body at any depth, the CastLike nodes inserted next to literals included -- are pairwise distinct,
   for every trace, every scope stack and every operator / function name (no "plain name" hypothesis: a node name
   ends in _node_<counter> and determines its counter).  Value names: C18_names_unique_across_subgraphs_fixed
   (Props/C18.v).  The model's node names are compared with the real GraphBuilder's on every generated trace
   (tagrees), and the harness asserts the distinctness on the real graphs of all call-mode traces.
   Not covered by a theorem: the names of nodes and values spliced in by call_inline (CRaw: observed; prefix +
   counter discipline and disjointness of two inline sites are C18_inline_* in Props/C18_inline.v), in particular
   functions that contain subgraphs inlined into functions that are inlined. *)
From Coq Require Import String List Bool Arith.
Require Import OV.Builder.Strings OV.Builder.Naming OV.Builder.Trace OV.Builder.TraceCF OV.Builder.TraceCFX OV.Builder.NodeNamesProofs.
Import ListNotations.

Theorem C18_node_names_unique_across_subgraphs_fixed : forall ins tr,
  cfx_trace tr = true -> NoDup (build_node_names bcfg_fixed ins tr).
Proof. exact node_names_unique_across_subgraphs_fixed. Qed.
Print Assumptions C18_node_names_unique_across_subgraphs_fixed.

Theorem C18_node_names_one_per_node : forall ins tr,
  cfx_trace tr = true ->
  List.length (build_node_names bcfg_fixed ins tr) = b_total (fst (build_state bcfg_fixed ins tr)).
Proof. exact node_names_count. Qed.
Print Assumptions C18_node_names_one_per_node.
