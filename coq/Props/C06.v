(* C06 property theorems: statements only, each closed by `exact`, Print Assumptions beneath.

   Model of the matcher: Match/Matcher.v (`run`, `run_commute`, parameterised by `flags` = which of the three
   defects found in the pinned source are repaired; `flags_as_pinned` is the pinned behaviour, the
   correspondence check determines on every run which setting the implementation exhibits).
   Declarative meaning: Match/Spec.v (`instanceb g p cand sigma`, `removable`).

   Not proved (kept visible):
   * completeness for patterns with OrValue: false for the algorithm as designed -- an OR alternative that
     matches locally is committed (documented in docs/tutorial/rewriter/node_value_checkers.md); the harness counts
     those cases separately;
   * with several output nodes completeness is proved up to "no earlier candidate tuple makes the matcher raise";
   * that the variants of commute() mean the pattern with swapped operands is by construction of `variant`
     (Match/CommuteProofs.v); a separate declarative characterisation of `variant` is not given. *)
From Coq Require Import List ZArith String Bool.
Require Import OV.Match.Pattern OV.Match.Matcher OV.Match.Spec OV.Match.SoundProofs OV.Match.CompleteProofs
  OV.Match.CommuteProofs OV.Match.Witness OV.Match.WitnessProofs.
Import ListNotations.

(* soundness, all pattern features (OR alternatives, several output nodes, optional inputs, attributes, ...):
   what is reported is an instance, the node list is the image of sigma, the outputs are sigma(outputs),
   and with the removability check the matched nodes are removable *)
Theorem C06_match_sound : forall fl g p,
  repaired fl = true ->
  forall root rm m,
  run fl p g root rm = Ok m ->
  exists cand, hd_error cand = Some root /\
    instanceb g p cand (sigma_of m) = true /\
    m_nodes m = rev (image (sigma_of m)) /\
    spec_outputs (gp_nodes p) (sigma_of m) (gp_outs p) = Some (m_outs m) /\
    (rm = true -> removable g (m_nodes m) (m_outs m)).
Proof. exact run_sound. Qed.
Print Assumptions C06_match_sound.

Example C06_match_sound_satisfiable :
  repaired flags_fixed = true /\ exists m, run flags_fixed p_or g_one_relu 2 true = Ok m /\ m_nodes m = [2; 1; 0].
Proof. exact sound_example. Qed.

(* completeness for OR-free patterns with one output node: every instance is found, and what is returned
   agrees with the instance on every pattern node and variable it binds *)
Theorem C06_match_complete_orfree_partial : forall fl p g root r s,
  repaired fl = true -> or_free p = true -> topo p = true ->
  output_nodes p = [r] -> outs_reachable p r ->
  instanceb g p [root] s = true ->
  exists m, run fl p g root false = Ok m /\
    (forall q n, assoc Nat.eqb q (m_nb m) = Some n -> node_is s q n = true) /\
    (forall x b, assoc String.eqb x (m_b m) = Some b -> var_is s x b = true \/ (b = BNone /\ In x (gp_inputs p))).
Proof. exact run_complete_orfree. Qed.
Print Assumptions C06_match_complete_orfree_partial.

(* the full statement (any pattern) is false for the algorithm: an OR alternative that matches locally is kept *)
Definition C06_match_complete_full : Prop := forall fl p g root r s,
  repaired fl = true -> topo p = true -> output_nodes p = [r] -> outs_reachable p r ->
  instanceb g p [root] s = true -> exists m, run fl p g root false = Ok m.

Theorem C06_or_committed_choice_refuted :
  topo p_choice = true /\ output_nodes p_choice = [3] /\
  instanceb g_choice p_choice [2] s_choice = true /\
  run flags_fixed p_choice g_choice 2 false = Fail /\ run flags_as_pinned p_choice g_choice 2 false = Fail.
Proof. exact or_committed_choice_witness. Qed.
Print Assumptions C06_or_committed_choice_refuted.

(* several output nodes: when some candidate tuple (first component = the root) carries an instance, a match is
   reported -- for the first such tuple in candidate order -- provided no earlier tuple makes the matcher raise *)
Theorem C06_match_complete_orfree_multi_partial : forall fl g p s,
  repaired fl = true -> or_free p = true -> topo p = true ->
  forall root cand,
  outs_reachable_multi p ->
  In cand (candidates fl p g root) ->
  instanceb g p cand s = true ->
  (forall c, In c (candidates fl p g root) -> try_candidate fl g p false c <> Err) ->
  exists m, run fl p g root false = Ok m.
Proof. exact run_complete_orfree_multi_closed. Qed.
Print Assumptions C06_match_complete_orfree_multi_partial.

Example C06_match_complete_multi_satisfiable :
  or_free p_two_roots = true /\ topo p_two_roots = true /\ outs_reachable_multi p_two_roots /\
  candidates flags_fixed p_two_roots g_two_roots 0 = [[0; 1]; [0; 2]] /\
  instanceb g_two_roots p_two_roots [0; 2] s_two_roots = true /\
  (forall c, In c (candidates flags_fixed p_two_roots g_two_roots 0) -> try_candidate flags_fixed g_two_roots p_two_roots false c <> Err) /\
  exists m, run flags_fixed p_two_roots g_two_roots 0 false = Ok m /\ m_nodes m = [0; 2].
Proof. exact multi_example. Qed.

(* hence the instance at a root is unique on what the matcher binds *)
Theorem C06_instance_unique_orfree : forall fl p g root r s1 s2,
  repaired fl = true -> or_free p = true -> topo p = true ->
  output_nodes p = [r] -> outs_reachable p r ->
  instanceb g p [root] s1 = true -> instanceb g p [root] s2 = true ->
  exists m, run fl p g root false = Ok m /\
    (forall q n, assoc Nat.eqb q (m_nb m) = Some n -> node_is s1 q n = true /\ node_is s2 q n = true).
Proof. exact instance_unique_orfree. Qed.
Print Assumptions C06_instance_unique_orfree.

Example C06_match_complete_satisfiable :
  or_free p_plain = true /\ topo p_plain = true /\ output_nodes p_plain = [2] /\ outs_reachable p_plain 2 /\
  instanceb g_plain p_plain [2] s_plain = true /\
  exists m, run flags_fixed p_plain g_plain 2 false = Ok m /\ m_nb m = [(0, 0); (1, 1); (2, 2)].
Proof. exact complete_example. Qed.

(* removability: the executable check is the declarative condition, and (one output node) matching with the
   check = matching without it + the matched nodes are removable *)
Theorem C06_valid_to_replace_iff : forall g matched outs,
  valid_to_replace g matched outs = true <-> removable g matched outs.
Proof. exact valid_to_replace_iff. Qed.
Print Assumptions C06_valid_to_replace_iff.

Theorem C06_removable_iff : forall fl p g root r m,
  out_fail fl = true -> output_nodes p = [r] ->
  (run fl p g root true = Ok m <-> run fl p g root false = Ok m /\ removable g (m_nodes m) (m_outs m)).
Proof. exact removable_iff. Qed.
Print Assumptions C06_removable_iff.

Example C06_removable_satisfiable :
  (exists m, run flags_fixed p_plain g_plain_used 2 false = Ok m) /\ run flags_fixed p_plain g_plain_used 2 true = Fail.
Proof. exact removable_example. Qed.

(* commute: the rules of the commuted rule set are exactly the variants of the admissible swap choices (any
   subset of the commutative binary nodes), a match of the rule set is a match of one of them, and no match is
   reported exactly when none of them matches *)
Theorem C06_commute_variants : forall p ps, commute p = Ok ps ->
  forall v, In v ps <-> exists sw, admissible (gp_nodes p) sw /\ variant p sw = Some v.
Proof. exact commute_variants. Qed.
Print Assumptions C06_commute_variants.

(* the copies keep every value pattern (a Constant with its value, rel_tol and abs_tol) and only reverse the operands *)
Theorem C06_commute_swap_keeps_patterns : forall np np', swap_node np = Some np' ->
  np_ins np' = rev (np_ins np) /\ np_op np' = np_op np /\ np_dom np' = np_dom np /\ np_attrs np' = np_attrs np /\
  np_other_attrs np' = np_other_attrs np /\ np_other_ins np' = np_other_ins np /\ np_outs np' = np_outs np.
Proof. exact swap_node_keeps. Qed.
Print Assumptions C06_commute_swap_keeps_patterns.

Theorem C06_commute_closure : forall fl p g root rm,
  (forall i m, run_commute fl p g root rm = Ok (i, m) ->
     exists sw v, admissible (gp_nodes p) sw /\ variant p sw = Some v /\ run fl v g root rm = Ok m) /\
  (run_commute fl p g root rm = Fail <->
     forall sw v, admissible (gp_nodes p) sw -> variant p sw = Some v -> run fl v g root rm = Fail).
Proof. exact commute_closure. Qed.
Print Assumptions C06_commute_closure.

Example C06_commute_satisfiable :
  run flags_fixed p_plain g_plain_swapped 2 true = Fail /\
  exists m, run_commute flags_fixed p_plain g_plain_swapped 2 true = Ok (1, m).
Proof. exact commute_example. Qed.

(* the pinned behaviour violates soundness in two ways (findings; replayed on the real matcher by the harness:
   corpus/C06/f16_merge.json, corpus/C06/outputs.json) *)
Theorem C06_merge_loses_bindings_refuted :
  exists m, run flags_as_pinned p_or g_two_relus 3 true = Ok m /\
            m_nodes m = [3; 2; 0; 1] /\
            (forall s, instanceb g_two_relus p_or [3] s = false) /\
            run flags_fixed p_or g_two_relus 3 true = Fail.
Proof. exact merge_loses_bindings_witness. Qed.
Print Assumptions C06_merge_loses_bindings_refuted.

Theorem C06_output_count_refuted :
  exists m, run flags_as_pinned p_two_outs g_one_out 1 true = Ok m /\
            m_outs m = [] /\ gp_outs p_two_outs <> [] /\
            (forall s, instanceb g_one_out p_two_outs [1] s = false) /\
            run flags_fixed p_two_outs g_one_out 1 true = Fail.
Proof. exact output_count_witness. Qed.
Print Assumptions C06_output_count_refuted.
