#!/venv/bin/python
"""Print a markdown table of seeded changes and whether the registered check caught them (from seeded/*/meta.json)."""
import glob, json, os
rows = []
for d in sorted(glob.glob("/verif/seeded/*/")):
    sid = os.path.basename(d.rstrip("/"))
    m = json.load(open(d + "meta.json")) if os.path.exists(d + "meta.json") else {}
    cr = (m.get("check_result") or {})
    res = cr.get("quick") or cr.get("thorough") or {}
    conf = m.get("confirmation", {})
    full = conf.get("baseline_with_patch")
    keys = [l.strip()[1:].split(":")[0:4] for l in res.get("lines", []) if l.startswith("  (")]
    first = ":".join(keys[0]) if keys else ""
    rows.append((sid, m.get("summary", "")[:110].replace("|", "/"), ", ".join(m.get("files_changed", []))[:60],
                 "yes" if conf.get("confirmed") else "no", "full suite" if full else "demo only",
                 ("DETECTED" + (" (input)" if res.get("with_input") else " (no-failing-input-found)")) if res.get("detected") else ("MISSED" if res else "not run"),
                 first[:70]))
print("| seed | change | file | confirmed | tests | check result | first reported key |")
print("|---|---|---|---|---|---|---|")
for r in rows:
    print("| " + " | ".join(r) + " |")
