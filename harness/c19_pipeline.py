"""Translator (Python ast, fail-closed) of onnxscript/rewriter/ort_fusions/_core.py -- _pre_optimize, fuse_xformers,
optimize_for_ort, ORT_PATTERN_REWRITE_RULES -- into coq/Gen/C19Pipeline.v: which stages run, in which order, with which
keyword arguments, under which guard.  coq/Fusion/PipelineShape.v proves (vm_compute) that the list read from the source
has the shape the composition argument needs (Fusion/Pipeline.v: pipeline_ok); Props/C19_pipeline.v composes.
Every statement of the three functions must be one of the recognised forms; anything else breaks the tie."""
from __future__ import annotations

import ast
import os

from harness import common
from harness.common import clist, cstr

SRC = os.path.join("onnxscript", "rewriter", "ort_fusions", "_core.py")


class Unrecognised(Exception):
    pass


def _kw(call, skip=0):
    kws = []
    for i, a in enumerate(call.args[skip:]):
        if isinstance(a, ast.Starred):
            raise Unrecognised("starred argument: " + ast.unparse(call)[:80])
        kws.append((f"#{i}", ast.unparse(a)))
    for k in call.keywords:
        if k.arg is None:
            raise Unrecognised("**kwargs: " + ast.unparse(call)[:80])
        kws.append((k.arg, ast.unparse(k.value)))
    return kws


def _body(fn):
    body = list(fn.body)
    if body and isinstance(body[0], ast.Expr) and isinstance(body[0].value, ast.Constant) and isinstance(body[0].value.value, str):
        body = body[1:]
    return body


def _pass_call(e):
    """common_passes.XPass(kw...)(model)  ->  ('Pass', 'XPass', kwargs)"""
    if (isinstance(e, ast.Call) and len(e.args) == 1 and isinstance(e.args[0], ast.Name) and e.args[0].id == "model" and not e.keywords
            and isinstance(e.func, ast.Call) and isinstance(e.func.func, ast.Attribute) and ast.unparse(e.func.func.value) == "common_passes"):
        return ("Pass", e.func.func.attr, _kw(e.func))
    return None


def _simple_stage(e):
    """statement-level expressions of the pipeline functions"""
    p = _pass_call(e)
    if p:
        return p
    src = ast.unparse(e)
    if src == "optimize(model)":
        return ("Call", "optimize", [])
    if src == "shape_optimization.rules.apply_to_model(model)":
        return ("Call", "shape_optimization", [])
    raise Unrecognised("statement: " + src[:100])


def _fuse_assign(s):
    """fusion_count['k'] = fuse(fuse_x, **kw)  |  fusion_count['k'] = 0"""
    if not (isinstance(s, ast.Assign) and len(s.targets) == 1 and isinstance(s.targets[0], ast.Subscript)
            and ast.unparse(s.targets[0].value) == "fusion_count" and isinstance(s.targets[0].slice, ast.Constant)):
        return None
    key = s.targets[0].slice.value
    v = s.value
    if isinstance(v, ast.Constant) and v.value == 0:
        return ("Zero", key, [])
    if isinstance(v, ast.Call) and isinstance(v.func, ast.Name) and v.func.id == "fuse" and v.args and isinstance(v.args[0], ast.Name):
        return ("Fuse", key, [("func", v.args[0].id)] + _kw(v, skip=1))
    raise Unrecognised("fusion_count assignment: " + ast.unparse(s)[:100])


def parse(repo):
    tree = ast.parse(open(os.path.join(repo, SRC)).read())
    fns = {n.name: n for n in tree.body if isinstance(n, ast.FunctionDef)}
    for need in ("_pre_optimize", "fuse_xformers", "optimize_for_ort"):
        if need not in fns:
            raise Unrecognised(need + " not found")
    # ---- ORT_PATTERN_REWRITE_RULES
    rules = None
    for n in tree.body:
        if isinstance(n, ast.Assign) and ast.unparse(n.targets[0]) == "ORT_PATTERN_REWRITE_RULES":
            if not isinstance(n.value, ast.List) or not all(isinstance(e, ast.Starred) for e in n.value.elts):
                raise Unrecognised("ORT_PATTERN_REWRITE_RULES is not a list of starred rule sets")
            rules = [ast.unparse(e.value) for e in n.value.elts]
    if rules is None:
        raise Unrecognised("ORT_PATTERN_REWRITE_RULES not found")
    # ---- _pre_optimize
    pre = []
    for s in _body(fns["_pre_optimize"]):
        if isinstance(s, ast.Return):
            if ast.unparse(s.value) != "model":
                raise Unrecognised("_pre_optimize returns " + ast.unparse(s.value))
            continue
        if not isinstance(s, ast.Expr):
            raise Unrecognised("_pre_optimize: " + ast.unparse(s)[:100])
        pre.append(_simple_stage(s.value))
    # ---- fuse_xformers
    fx = []
    seen_fuse_def = False
    for s in _body(fns["fuse_xformers"]):
        src = ast.unparse(s)
        if src == "fusion_count = dict()":
            continue
        if src == "model = _pre_optimize(model)":
            fx.append(("Call", "_pre_optimize", []))
            continue
        if isinstance(s, ast.FunctionDef) and s.name == "fuse":
            if ast.unparse(s).replace("\n", " ") != "def fuse(func, **kwargs):     return func(model, debug=debug, **kwargs)":
                raise Unrecognised("the helper `fuse` is not `func(model, debug=debug, **kwargs)`: " + ast.unparse(s)[:120])
            seen_fuse_def = True
            continue
        if isinstance(s, ast.Return):
            if src not in ("return (model, fusion_count)", "return model, fusion_count"):
                raise Unrecognised("fuse_xformers returns " + src)
            continue
        fa = _fuse_assign(s)
        if fa:
            fx.append(fa)
            continue
        if isinstance(s, ast.If):
            # if (fusion_count[a] == 0) and (fusion_count[b] == 0): <Zero...> else: <Fuse...>
            t = s.test
            if not (isinstance(t, ast.BoolOp) and isinstance(t.op, ast.And)
                    and all(isinstance(c, ast.Compare) and len(c.ops) == 1 and isinstance(c.ops[0], ast.Eq) and ast.unparse(c.comparators[0]) == "0"
                            and isinstance(c.left, ast.Subscript) and ast.unparse(c.left.value) == "fusion_count" for c in t.values)):
                raise Unrecognised("guard: " + ast.unparse(t)[:100])
            guard = [c.left.slice.value for c in t.values]
            zeros = [_fuse_assign(x) for x in s.body]
            fuses = [_fuse_assign(x) for x in s.orelse]
            if any(z is None or z[0] != "Zero" for z in zeros) or any(f is None or f[0] != "Fuse" for f in fuses) \
                    or [z[1] for z in zeros] != [f[1] for f in fuses]:
                raise Unrecognised("the guarded branch is not `count = 0 ... else count = fuse(...)` over the same keys")
            for f in fuses:
                fx.append(("Guarded", f[1], [("guard", "|".join(guard))] + f[2]))
            continue
        if isinstance(s, ast.Expr):
            fx.append(_simple_stage(s.value))
            continue
        raise Unrecognised("fuse_xformers: " + src[:100])
    if not seen_fuse_def:
        raise Unrecognised("helper `fuse` not found")
    # ---- optimize_for_ort
    ofo = []
    for s in _body(fns["optimize_for_ort"]):
        src = ast.unparse(s)
        if src == "rewrite(model, [_gemm_to_matmul_add.gemm_to_matmul_add_rule])":
            ofo.append(("Call", "gemm_to_matmul_add", []))
        elif src in ("(model, fusion_count) = fuse_xformers(model, debug=debug)", "model, fusion_count = fuse_xformers(model, debug=debug)"):
            ofo.append(("Call", "fuse_xformers", []))
        elif src == "rewrite(model, ORT_PATTERN_REWRITE_RULES)":
            ofo.append(("Call", "ort_pattern_rewrite_rules", []))
        elif isinstance(s, ast.Assign) and ast.unparse(s.targets[0]) == "passes":
            v = s.value
            if not (isinstance(v, ast.Call) and ast.unparse(v.func) == "ir.passes.Sequential" and not v.keywords):
                raise Unrecognised("passes = " + ast.unparse(v)[:80])
            for e in v.args:
                if not (isinstance(e, ast.Call) and isinstance(e.func, ast.Attribute) and ast.unparse(e.func.value) == "common_passes"):
                    raise Unrecognised("pass constructor: " + ast.unparse(e)[:80])
                ofo.append(("Pass", e.func.attr, _kw(e)))
        elif src in ("assert passes.in_place", "result = passes(model)", "assert result.model is model", "return (model, fusion_count)", "return model, fusion_count"):
            continue
        elif src == "if clear_metadata:\n    common_passes.ClearMetadataAndDocStringPass()(model)":
            ofo.append(("Guarded", "ClearMetadataAndDocStringPass", [("guard", "clear_metadata")]))
        else:
            raise Unrecognised("optimize_for_ort: " + src[:100])
    return {"pre": pre, "fx": fx, "ofo": ofo, "rules": rules}


def _slist(l):
    return clist([f"mkStage {k} {cstr(n)} {clist([f'({cstr(a)}, {cstr(b)})' for a, b in kw])}" for k, n, kw in l])


def regenerate(ctx):
    try:
        info = parse(common.REPO)
    except Unrecognised as e:
        ctx.tie_broken("translator", SRC, str(e))
        return None
    except Exception as e:  # fail-closed
        ctx.tie_broken("translator", SRC, f"{type(e).__name__}: {e}")
        return None
    text = ("(* GENERATED by harness/c19_pipeline.py from onnxscript/rewriter/ort_fusions/_core.py - do not edit *)\n"
            "From Coq Require Import List String.\nRequire Import OV.Fusion.Pipeline.\nImport ListNotations.\nLocal Open Scope string_scope.\n\n"
            f"Definition src_pre_optimize : list stage := {_slist(info['pre'])}.\n"
            f"Definition src_fuse_xformers : list stage := {_slist(info['fx'])}.\n"
            f"Definition src_optimize_for_ort : list stage := {_slist(info['ofo'])}.\n"
            f"Definition src_ort_rules : list string := {clist([cstr(r) for r in info['rules']])}.\n")
    ctx.gen("C19Pipeline", text)
    return info
