(* Model of TransposeIdentity / TransposeTranspose (_basic_rules.py) (C05).
   A tensor of rank n is (shape, element function on index lists of length n).
   ONNX Transpose(perm): out.shape[k] = in.shape[perm[k]] and out[i_0..i_{n-1}] = in[j] with j[perm[k]] = i[k].
   No proofs in this file. *)
From Coq Require Import List Arith Bool.
Import ListNotations.

Definition permute {A} (d : A) (p : list nat) (l : list A) : list A := map (fun k => nth k l d) p.

Fixpoint index_of (a : nat) (p : list nat) : nat :=
  match p with [] => 0 | b :: t => if Nat.eqb a b then 0 else S (index_of a t) end.

(* the source index of output index ix:  j[a] = ix[perm^-1 a] *)
Definition unpermute (p : list nat) (ix : list nat) : list nat :=
  map (fun a => nth (index_of a p) ix 0) (seq 0 (length p)).

Fixpoint nodupb (l : list nat) : bool :=
  match l with [] => true | a :: t => negb (existsb (Nat.eqb a) t) && nodupb t end.
Definition is_perm (p : list nat) : bool := forallb (fun k => Nat.ltb k (length p)) p && nodupb p.

Definition tensor (V : Type) := (list nat * (list nat -> V))%type.
Definition transpose {V} (p : list nat) (t : tensor V) : tensor V :=
  (permute 0 p (fst t), fun ix => snd t (unpermute p ix)).

(* TransposeTranspose._apply_transpose / _apply_transposes, transcribed:
     res[i] = on[perm[i]];  start from on = range(n), apply perm1 then perm2 *)
Definition apply_transpose (perm on : list nat) : list nat := permute 0 perm on.
Definition apply_transposes (perms : list (list nat)) (on : list nat) : list nat :=
  fold_left (fun o p => apply_transpose p o) perms on.
Definition composed (p1 p2 : list nat) : list nat := apply_transposes [p1; p2] (seq 0 (length p1)).

Definition list_eqb (a b : list nat) : bool :=
  Nat.eqb (length a) (length b) && forallb (fun q => Nat.eqb (fst q) (snd q)) (combine a b).

(* rewrite of TransposeTranspose: Identity when the composed permutation is range(n), else Transpose(perm=composed) *)
Definition tt_rewrite (p1 p2 : list nat) : option (list nat) :=
  let last := composed p1 p2 in if list_eqb (seq 0 (length p1)) last then None else Some last.
(* check of TransposeIdentity *)
Definition ti_check (p : list nat) : bool := list_eqb p (seq 0 (length p)).

(* correspondence *)
Definition olist_eqb (a b : option (list nat)) : bool :=
  match a, b with None, None => true | Some x, Some y => list_eqb x y | _, _ => false end.
Definition tt_case := (list nat * list nat * option (list nat))%type.
Definition tt_agrees (c : tt_case) : bool := let '(p1, p2, o) := c in olist_eqb (tt_rewrite p1 p2) o.
Definition ti_case := (list nat * bool)%type.
(* correspondence is one-directional, as the property is: what the implementation did must be permitted by the model;
   not firing is always permitted (a stricter check is never a C05 violation) *)
Definition ti_agrees (c : ti_case) : bool := implb (snd c) (ti_check (fst c)).
Fixpoint disagreeing {A} (f : A -> bool) (i : nat) (l : list A) : list nat :=
  match l with [] => [] | c :: t => (if f c then [] else [i]) ++ disagreeing f (S i) t end.
