(* C17 -- inheritance of generated methods, on the classes AS EXTRACTED (class name, base class, own methods from
   the Python ast of onnxscript/onnx_opset/_impl/*.py): which class along the method resolution order supplies
   `opsetN.Op`, and the computable test that it is the class of the version get_schema(Op, N, domain) selects.
   No proofs in this file. *)
From Coq Require Import List String ZArith Bool.
Import ListNotations.
Require Import OV.Registry.OpsetMethod.
Local Open Scope string_scope.
Local Open Scope list_scope.

(* Python attribute lookup along a resolution order: the first class whose own namespace has the name *)
Fixpoint defining (l : list cls) (op : string) : option (cls * method) :=
  match l with
  | [] => None
  | c :: t => match lookup_in (c_methods c) op with
              | Some m => Some (c, m)
              | None => defining t op
              end
  end.

Definition mro_of (cs : list cls) (c : cls) : option (list cls) := mro (List.length cs) cs c.

(* one (class, operator): the supplying class is the class of the since_version get_schema selects at the class's
   version, in the same domain, and its method names that version; no supplying class where there is no schema *)
Definition inherit_pair_ok (reg : list schema) (l : list cls) (c : cls) (op : string) : bool :=
  match dyn_getitem reg c op, defining l op with
  | None, None => true
  | Some s, Some (d, m) =>
    String.eqb (c_domain d) (c_domain c) && Z.eqb (c_version d) (s_since s) &&
    Z.eqb (m_since m) (s_since s) && String.eqb (m_op m) op && String.eqb (m_domain m) (c_domain c)
  | Some _, None => negb (covered c)
  | None, Some _ => false
  end.

Definition inherit_class_ok (reg : list schema) (cs : list cls) (c : cls) : bool :=
  match mro_of cs c with
  | None => false
  | Some l => forallb (inherit_pair_ok reg l c) (class_ops reg (List.concat (map c_methods l)) c)
  end.

Definition inherit_ok (reg : list schema) (cs : list cls) : bool := forallb (inherit_class_ok reg cs) cs.

(* failure report: (class, operator, supplying class or "", its version or 0, since_version of the schema or 0) *)
Definition inherit_failures (reg : list schema) (cs : list cls) : list (string * string * string * Z * Z) :=
  List.concat (map (fun c =>
    match mro_of cs c with
    | None => [(c_name c, "", "broken-base-chain", 0%Z, 0%Z)]
    | Some l =>
      List.concat (map (fun op =>
        if inherit_pair_ok reg l c op then [] else
        [(c_name c, op,
          match defining l op with Some (d, _) => c_name d | None => "" end,
          match defining l op with Some (d, _) => c_version d | None => 0%Z end,
          match dyn_getitem reg c op with Some s => s_since s | None => 0%Z end)])
        (class_ops reg (List.concat (map c_methods l)) c))
    end) cs).

(* the shape the generator gives every chain: same domain, versions N, N-1, ..., 1 *)
Definition chain_shape_ok (c : cls) (l : list cls) : bool :=
  forallb (fun k => String.eqb (c_domain k) (c_domain c)) l &&
  list_eqb Z.eqb (map c_version l) (map (fun i => (c_version c - Z.of_nat i)%Z) (seq 0 (List.length l))) &&
  Z.eqb (c_version c) (Z.of_nat (List.length l)).
Definition chains_shape_ok (cs : list cls) : bool :=
  forallb (fun c => match mro_of cs c with Some l => chain_shape_ok c l | None => false end) cs.

(* observed on the imported classes: (class, names of the generated classes along type(opsetN).__mro__,
   names defined in the class's own namespace in definition order) *)
Definition mro_case := (string * list string * list string)%type.
Definition mro_agrees (cs : list cls) (x : mro_case) : bool :=
  let '(cn, names, own) := x in
  match find_class cs cn with
  | Some c =>
    match mro_of cs c with
    | Some l => list_eqb String.eqb (map c_name l) names && list_eqb String.eqb (map m_name (c_methods c)) own
    | None => false
    end
  | None => false
  end.
