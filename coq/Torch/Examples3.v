(* C08 (third group of families) -- non-vacuity: every implication proved in ReduceProofs / ScatterConvProofs has its
   hypotheses satisfied on a non-trivial instance, and the two sides are evaluated on it. *)
From Coq Require Import ZArith List Bool QArith.
Require Import OV.Torch.Onnx OV.Torch.Onnx2 OV.Torch.Onnx3 OV.Torch.Spec OV.Torch.Spec2 OV.Torch.Spec3 OV.Torch.Aten OV.Torch.Aten2 OV.Torch.Aten3.
Import ListNotations.
Local Open Scope Z_scope.

Example ex_all_fiber : torch_all_fiber [3; 0; 1] = false /\ aten_all_fiber [3; 0; 1] = false /\ aten_all_fiber [] = true /\ aten_any_fiber [0; -2] = true
  /\ aten_any_fiber_fixed [] = false.
Proof. repeat split; reflexivity. Qed.
Example ex_allany_dim : torch_allany_shape [2; 3; 4] (Some [-2]) true = Some [2; 1; 4] /\ aten_allany_dim_shape [2; 3; 4] (-2) true = Some [2; 1; 4].
Proof. split; reflexivity. Qed.
Example ex_allany_dims : torch_allany_shape [2; 3; 4] (Some [-1; 0]) false = Some [3] /\ aten_allany_dims_shape [2; 3; 4] (Some [-1; 0]) false = Some [3]
  /\ torch_allany_shape [2; 3] None true = Some [1; 1] /\ aten_allany_dims_shape [2; 3] None true = Some [1; 1]
  /\ torch_allany_shape [2; 3] (Some []) false = Some [2; 3].
Proof. repeat split; reflexivity. Qed.
Example ex_argmax : torch_argmax_shape [2; 3; 2] (Some (-3)) true = Some [1; 3; 2] /\ aten_argmax_shape [2; 3; 2] (Some (-3)) true = Some [1; 3; 2]
  /\ torch_argmax_shape [] (Some (-1)) true = Some [] /\ aten_argmax_shape [] (Some (-1)) true = Some []
  /\ torch_argmax_shape [2; 3] None false = Some [] /\ aten_argmax_shape [2; 3] None false = Some []
  /\ torch_argmax_shape [4] None true = Some [1] /\ aten_argmax_shape [4] None true = Some [1].
Proof. repeat split; reflexivity. Qed.
Example ex_prod : torch_reduce1_shape [2; 3] (-1) true = Some [2; 1] /\ aten_prod_dim_shape [2; 3] (-1) true = Some [2; 1]
  /\ aten_prod_dim_dtype 1 None = Some (torch_prod_dtype 1 None) /\ aten_prod_dtype 6 None = Some 7 /\ torch_prod_dtype 6 None = 7.
Proof. repeat split; reflexivity. Qed.
Example ex_logsumexp : torch_logsumexp_shape [2; 3] [-1; 0] true = Some [1; 1] /\ aten_logsumexp_shape [2; 3] [-1; 0] true = Some [1; 1]
  /\ torch_logsumexp_shape [] [0] false = Some [] /\ aten_logsumexp_shape [] [0] false = Some [].
Proof. repeat split; reflexivity. Qed.
Example ex_var : torch_reduce_shape [2; 3; 2] (Some [2; 0]) true = Some [1; 3; 1] /\ aten_var_shape [2; 3; 2] (Some [2; 0]) true = Some [1; 3; 1]
  /\ torch_var_count [2; 3; 2] (Some [2; -3]) = Some 4 /\ aten_var_count [2; 3; 2] (Some [2; -3]) = Some 4
  /\ torch_var_val 6 3 1 = Fin (6 / 2)%Q /\ torch_var_val 6 3 3 = Inf false /\ torch_var_val 0 3 3 = NaN.
Proof. repeat split; reflexivity. Qed.
Example ex_var_val : aten_var_val 6 3 3 1 = Fin ((6 / 3) * 3 / (3 - 1))%Q /\ aten_var_val 6 3 3 3 = Inf false /\ aten_var_val 6 3 3 0 = Fin (6 / 3)%Q.
Proof. repeat split; reflexivity. Qed.
Example ex_scatter : torch_scatter_shape [3; 4] (-1) [3; 2] (Some [3; 2]) = Some [3; 4] /\ aten_scatter_src_shape [3; 4] (-1) [3; 2] [3; 2] = Some [3; 4]
  /\ aten_scatter_add_shape [3; 4] (-1) [3; 2] [3; 2] = Some [3; 4] /\ aten_scatter_reduce_shape [3; 4] (-1) [3; 2] [3; 2] false = Some [3; 4]
  /\ torch_scatter_shape [5] 0 [] None = Some [5] /\ aten_scatter_value_shape [5] 0 [] = Some [5]
  /\ torch_scatter_shape [] 0 [] (Some []) = Some [] /\ aten_scatter_reduce_shape [] 0 [] [] false = Some [].
Proof. repeat split; reflexivity. Qed.
Example ex_conv : torch_conv_params 2 [2] [1] [1; 2] [0] = Some ([2; 2], [1; 1], [1; 2], [0; 0])
  /\ aten_convolution_attrs 2 [2] [1] [1; 2] false [0] = Some ([2; 2], [1; 1; 1; 1], [1; 2], [0])
  /\ aten_convolution_attrs 2 [2; 3] [0; 1] [1; 1] true [1; 2] = Some ([2; 3], [0; 1; 0; 1], [1; 1], [1; 2])
  /\ aten_convnd_attrs 2 [2; 1] [1; 0] [1; 1] false = Some ([2; 1], [1; 0; 1; 0], [1; 1], [])
  /\ conv_out 5 2 2 1 1 1 = 3 /\ torch_conv_out 5 2 2 1 1 = 3 /\ convT_out 4 2 2 0 0 1 1 = 9 /\ torch_convT_out 4 2 2 0 1 1 = 9.
Proof. repeat split; reflexivity. Qed.

Example ex_allany_dims_fixed : aten_allany_dims_shape_fixed [2; 3] (Some []) false = Some [2; 3] /\ aten_allany_dims_shape_fixed [] (Some [0]) false = Some []
  /\ aten_allany_dims_shape_fixed [2; 3; 4] (Some [-1; 0]) false = Some [3].
Proof. repeat split; reflexivity. Qed.
Example ex_argmax_fixed : torch_argmax_shape [2; 3] None true = Some [1; 1] /\ aten_argmax_shape_fixed [2; 3] None true = Some [1; 1].
Proof. split; reflexivity. Qed.
Example ex_prims_var : torch_prims_var_shape [2; 3; 2] [2; 0] = Some [3] /\ prims_var_shape [2; 3; 2] [2; 0] = Some [3]
  /\ torch_prims_var_count [2; 3; 2] [2; 0] = Some 4 /\ prims_var_count false [2; 3; 2] [2; 0] = Some 4
  /\ torch_prims_var_count [2; 3] [] = Some 6 /\ prims_var_count true [2; 3] [] = Some 6
  /\ prims_var_val false 6 3 3 (-1) = Fin ((6 / 3) * 3 / (3 - -1))%Q /\ torch_var_val 6 3 (-1) = Fin (6 / (3 - -1))%Q
  /\ prims_var_val true 1 1 1 2 = Inf false.
Proof. repeat split; reflexivity. Qed.
