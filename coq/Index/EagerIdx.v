(* C11 -- model of Tensor.__getitem__ (onnxscript/tensor.py), the eager twin of the converter.
   No proofs in this file.

   Python ints are promoted to rank-0 tensors first, so CInt and CT0 are treated alike ("scalar");
   a rank-1 tensor is "non-scalar".  Slices get explicit bounds from the actual dimension:
   (start or 0, stop or shape, step or 1) for positive and (start or shape-1, stop or -(shape+1),
   step) for negative steps.  One scalar and no slice: Gather.  Otherwise one Slice op (slices
   first, then every scalar s as [s, s+1]) followed by numpy.squeeze of the scalar axes (same rule
   as ONNX Squeeze: a squeezed axis must have length 1), then a Gather per non-scalar index.

   fx = false: Gather uses the original axis number (pinned commit);
   fx = true:  proposed fix -- last axis first, axis number reduced by the removed axes before it. *)
From Coq Require Import ZArith List Bool.
Import ListNotations.
Require Import OV.Index.NumpySpec OV.Index.OnnxSlice OV.Index.ConverterIdx.
Open Scope Z_scope.

Definition eager_bounds (d : Z) (a b s : bound) : Z * Z * Z :=
  let pos := match bval s with None => true | Some st => 0 <? st end in
  if pos then (dflt 0 a, dflt d b, dflt 1 s)
  else (dflt (d - 1) a, dflt (- (d + 1)) b, dflt 1 s).

Definition eager_slice (d : Z) (a b s : bound) : option (list Z) :=
  let '(x, y, st) := eager_bounds d a b s in onnx_slice d x y st.

Definition is_escalar (c : comp) : bool := match c with CInt _ => true | CT0 _ => true | _ => false end.

(* index positions with the dimension they meet: (axis, (dim, component)) *)
Definition e_axis {A} (p : nat * A) : nat := fst p.
Definition e_dim (p : nat * (Z * comp)) : Z := fst (snd p).
Definition e_comp (p : nat * (Z * comp)) : comp := snd (snd p).

Definition eslice_spec (p : nat * (Z * comp)) : spec :=
  match e_comp p with
  | CSlice a b s => let '(x, y, st) := eager_bounds (e_dim p) a b s in (x, y, e_axis p, st)
  | _ => (0, 0, e_axis p, 1)
  end.
Definition escalar_spec (p : nat * (Z * comp)) : spec :=
  match e_comp p with
  | CInt i => (i, i + 1, e_axis p, 1)
  | CT0 i => (i, i + 1, e_axis p, 1)
  | _ => (0, 0, e_axis p, 1)
  end.

Definition egathers (fx : bool) (sq : list nat) (l : list (nat * (Z * comp))) : list op :=
  if fx then map (fun p => OGather (e_axis p - count_below (e_axis p) sq) (gix (e_comp p))) (rev l)
  else map (fun p => OGather (e_axis p) (gix (e_comp p))) l.

Definition eager_ops (fx : bool) (shape : list Z) (idx : list comp) : option (list op) :=
  if Nat.ltb (length shape) (length idx) then None          (* ValueError: more indices than rank *)
  else
    let en := enum_from 0 (combine shape idx) in
    let sliced := filter (fun p => is_sliced (e_comp p)) en in
    let scalars := filter (fun p => is_escalar (e_comp p)) en in
    let tens := filter (fun p => is_t1 (e_comp p)) en in
    let sq := map e_axis scalars in
    match sliced, scalars, tens with
    | [], [], [] => Some [OIdentity]
    | [], [p], _ => Some (OGather (e_axis p) (gix (e_comp p)) :: egathers fx sq tens)
    | [], [], _ => Some (egathers fx [] tens)
    | _, _, _ =>
        Some (OSlice (map eslice_spec sliced ++ map escalar_spec scalars)
              :: (match sq with [] => [] | _ => [OSqueeze sq] end)
              ++ egathers fx sq tens)
    end.

Definition run_eager (fx : bool) (shape : list Z) (idx : list comp) : option view :=
  match eager_ops fx shape idx with
  | None => None
  | Some ops => run_ops ops (full shape)
  end.
