"""C19 builders: GELU variants, BiasGelu, softmax upcast, FusedMatMul, rotary embedding, SDPA."""
from __future__ import annotations

import math

import numpy as np

from harness.c19_build import G, MS, TPT

SQRT2 = math.sqrt(2.0)
S2PI = math.sqrt(2.0 / math.pi)


# ------------------------------------------------------------------------------------------- GELU
def gelu_model(p):
    """variant: 'tanh' | 'erf' (gelu.py)  | 'erf1' | 'erf2' (erfgelu.py).  k: dict of constants overriding the defaults
    (near misses).  order: operand order flips of the commutative nodes (a near miss for these non-commuted rules)."""
    g = G(opset=p.get("opset", 18))
    dt = p["dtype"]
    shape = list(p["shape"])
    x = g.inp("x", dt, shape)
    k = dict(half=0.5, one=1.0, c=0.044715, s2pi=S2PI, sqrt2=SQRT2, three=3.0)
    k.update(p.get("k", {}))
    C = lambda v: g.const(v, dt, as_node=p.get("const_node", False))  # noqa: E731
    flip = p.get("flip", False)
    v = p["variant"]
    if v == "tanh":
        t1 = g.op("Pow", [x, C(k["three"])])
        t2 = g.op("Mul", [C(k["c"]), t1])
        t3 = g.op("Add", [x, t2])
        t4 = g.op("Mul", [C(k["s2pi"]), t3])
        t5 = g.op("Tanh", [t4])
        t6 = g.op("Add", [t5, C(k["one"])])
        t7 = g.op("Mul", [C(k["half"]), t6])
        y = g.op("Mul", [t7, x] if flip else [x, t7])
    elif v == "erf":
        t1 = g.op("Div", [x, C(k["sqrt2"])])
        t2 = g.op("Erf", [t1])
        t3 = g.op("Add", [t2, C(k["one"])])
        t4 = g.op("Mul", [t3, x] if flip else [x, t3])
        y = g.op("Mul", [t4, C(k["half"])])
    elif v == "erf1":     # 0.5 * (x * (erf(x / sqrt2) + 1.0))
        e = g.op("Erf", [g.op("Div", [x, C(k["sqrt2"])])])
        a = g.op("Add", [e, C(k["one"])])
        m = g.op("Mul", [a, x] if flip else [x, a])
        y = g.op("Mul", [C(k["half"]), m])
    elif v == "erf2":     # x * (0.5 * (erf(x / sqrt2) + 1.0))
        e = g.op("Erf", [g.op("Div", [x, C(k["sqrt2"])])])
        a = g.op("Add", [e, C(k["one"])])
        m = g.op("Mul", [C(k["half"]), a])
        y = g.op("Mul", [m, x] if flip else [x, m])
    else:
        raise ValueError(v)
    g.op("Identity", [y], out="y")
    g.out("y", dt, shape)
    return g


def bias_gelu_model(p):
    """Gelu(Add(input, bias)); gelu: 'onnx' (opset 20 Gelu) | 'contrib'; approximate: None|'none'|'tanh'."""
    g = G(opset=20)
    dt = p["dtype"]
    x = g.inp("input", dt, list(p["input_shape"]))
    if p.get("bias_const"):
        b = g.const(np.linspace(-1, 1, int(np.prod(p["bias_shape"]) or 1)).reshape(p["bias_shape"]), dt)
    else:
        b = g.inp("bias", dt, list(p["bias_shape"]))
    a = g.op("Add", [x, b] if p.get("order", 0) == 0 else [b, x])
    attrs = {}
    if p.get("approximate") is not None:
        attrs["approximate"] = p["approximate"]
    if p["gelu"] == "onnx":
        y = g.op("Gelu", [a], **attrs)
    else:
        y = g.op("Gelu", [a], domain=MS)
    g.op("Identity", [y], out="y")
    g.out("y", dt, list(p["out_shape"]))
    return g


def softmax_model(p):
    """Cast(f16->f32) -> Softmax(axis?) -> Cast(->f16)."""
    g = G(opset=p.get("opset", 18))
    shape = list(p["shape"])
    x = g.inp("x", p.get("in_dtype", "float16"), shape)
    up = g.op("Cast", [x], to=TPT[p.get("up", "float32")])
    attrs = {} if p.get("axis") is None else {"axis": p["axis"]}
    s = g.op("Softmax", [up], **attrs)
    y = g.op("Cast", [s], to=TPT[p.get("down", "float16")])
    g.op("Identity", [y], out="y")
    g.out("y", p.get("down", "float16"), shape)
    return g


# ------------------------------------------------------------------------------------------- FusedMatMul
def _mm(g, kind, a, b, attrs):
    if kind == "MatMul":
        return g.op("MatMul", [a, b])
    return g.op("FusedMatMul", [a, b], domain=MS, **attrs)


def matmul_div_model(p):
    """Div(MatMul|FusedMatMul(x, y), c)."""
    g = G(opset=18)
    dt = p["dtype"]
    x = g.inp("x", dt, list(p["xshape"]))
    y = g.inp("y", dt, list(p["yshape"]))
    t = _mm(g, p["mm"], x, y, p.get("attrs", {}))
    if p.get("c_kind", "const") == "input":
        c = g.inp("c", dt, list(p["cshape"]))
    else:
        c = g.const(np.full(p["cshape"], p["c"]), dt, as_node=p.get("const_node", False))
    z = g.op("Div", [t, c])
    g.op("Identity", [z], out="z")
    g.out("z", dt, None)
    return g


def transpose_matmul_model(p):
    """pos: 1 -> mm(Transpose(x), y); 2 -> mm(x, Transpose(y)); 0 -> Transpose(mm(x, y)). perm None = default."""
    g = G(opset=18)
    dt = p["dtype"]
    x = g.inp("x", dt, list(p["xshape"]))
    y = g.inp("y", dt, list(p["yshape"]))
    tattrs = {} if p["perm"] is None else {"perm": list(p["perm"])}
    attrs = p.get("attrs", {})
    if p["pos"] == 1:
        z = _mm(g, p["mm"], g.op("Transpose", [x], **tattrs), y, attrs)
    elif p["pos"] == 2:
        z = _mm(g, p["mm"], x, g.op("Transpose", [y], **tattrs), attrs)
    else:
        z = g.op("Transpose", [_mm(g, p["mm"], x, y, attrs)], **tattrs)
    g.op("Identity", [z], out="z")
    g.out("z", dt, None)
    return g


# ------------------------------------------------------------------------------------------- rotary
def _rotate_half(g, x, s1, e1, s2, e2, axis=3, concat_axis=-1):
    ax = g.const([axis], "int64")
    one = g.const([1], "int64")
    x1 = g.op("Slice", [x, g.const([s1], "int64"), g.const([e1], "int64"), ax, one])
    x2 = g.op("Slice", [x, g.const([s2], "int64"), g.const([e2], "int64"), ax, one])
    return g.op("Concat", [g.op("Neg", [x2]), x1], axis=concat_axis)


def rotary_model(p):
    """x*cos + rotate_half(x)*sin with free cos/sin inputs (ort_fusions/rotary_embedding.py)."""
    g = G(opset=18)
    dt = p["dtype"]
    xs = list(p["xshape"])
    x = g.inp("x", dt, p.get("decl_xshape", xs), xs)
    cs = list(p["cshape"])
    cos = g.inp("cos", dt, cs)
    sin = g.inp("sin", dt, cs)
    D = xs[-1]
    h = D // 2
    s1, e1, s2, e2 = p.get("slices", (0, h, h, 2 ** 63 - 1))
    rot = _rotate_half(g, x, s1, e1, s2, e2, axis=p.get("slice_axis", 3))
    y = g.op("Add", [g.op("Mul", [x, cos]), g.op("Mul", [rot, sin])])
    g.op("Identity", [y], out="y")
    g.out("y", dt, xs)
    return g


def rotary23_model(p):
    """rules/fusion/_rotary_embedding.py: cos/sin = Unsqueeze(Cos|Sin(Concat(freqs, freqs)), [1])."""
    g = G(opset=23)
    dt = p["dtype"]
    xs = list(p["xshape"])
    x = g.inp("x", dt, list(p.get("decl_xshape", xs)), xs)
    fs = list(p["fshape"])
    f = g.inp("freqs", dt, list(p.get("decl_fshape", fs)), fs)
    ff = g.op("Concat", [f, f], axis=-1)
    cos = g.op("Unsqueeze", [g.op("Cos", [ff]), g.const([p.get("unsq", 1)], "int64")])
    sin = g.op("Unsqueeze", [g.op("Sin", [ff]), g.const([p.get("unsq", 1)], "int64")])
    D = xs[-1]
    h = D // 2
    s1, e1, s2, e2 = p.get("slices", (0, h, h, 2 ** 63 - 1))
    rot = _rotate_half(g, x, s1, e1, s2, e2)
    y = g.op("Add", [g.op("Mul", [x, cos]), g.op("Mul", [rot, sin])])
    g.op("Identity", [y], out="y")
    g.out("y", dt, list(p.get("decl_xshape", xs)))
    return g


def partial_rotary_model(p):
    """Concat(RotaryEmbedding(x[..., :r]), x[..., r:]); domain 'ms' (position_ids, cos, sin caches) | '' (opset 23)."""
    ms = p["domain"] == "ms"
    g = G(opset=23)
    dt = p["dtype"]
    B, H, S, D, r = p["B"], p["H"], p["S"], p["D"], p["r"]
    x = g.inp("x", dt, [B, H, S, D])
    ax = g.const([3], "int64")
    one = g.const([1], "int64")
    end1 = p.get("end1", r)
    start2 = p.get("start2", r)
    x1 = g.op("Slice", [x, g.const([0], "int64"), g.const([end1], "int64"), ax, one])
    x2 = g.op("Slice", [x, g.const([start2], "int64"), g.const([2 ** 63 - 1], "int64"), ax, one])
    attrs = dict(p.get("attrs", {}))
    if ms:
        pos = g.inp("pos", "int64", [B, S])
        M = p.get("max_pos", 4)
        cos = g.inp("cos", dt, [M, r // 2])
        sin = g.inp("sin", dt, [M, r // 2])
        nh = {} if p.get("num_heads_absent") else {"num_heads": H}      # optional for 4-D input
        rope = g.op("RotaryEmbedding", [x1, pos, cos, sin], domain=MS, **nh, **attrs)
    else:
        cos = g.inp("cos", dt, [B, S, r // 2])
        sin = g.inp("sin", dt, [B, S, r // 2])
        nh = {} if p.get("num_heads_absent") else {"num_heads": H}
        rope = g.op("RotaryEmbedding", [x1, cos, sin], **nh, **attrs)
    y = g.op("Concat", [rope, x2], axis=-1)
    g.op("Identity", [y], out="y")
    g.out("y", dt, [B, H, S, D])
    return g


# ------------------------------------------------------------------------------------------- SDPA
def sdpa_model(p):
    """Scaled dot-product attention in the variants sdpa.py accepts.
    key_kind: 'BHSd-T' (Transpose perm 0,1,3,2) | 'BHSd-3d' (Reshape/Transpose/Reshape) | 'BSHd' (perm 0,2,3,1)
    q_scale / k_scale / qk_scale: None | ('Mul'|'Div', value);  mask: None | shape;  nan_guard: bool."""
    g = G(opset=18)
    dt = p["dtype"]
    B, H, S, Skv, Dh, Dv = p["B"], p["H"], p["S"], p["Skv"], p["Dh"], p["Dv"]
    q = g.inp("query", dt, p.get("qshape", [B, H, S, Dh]))
    if p["key_kind"] == "BSHd":
        k = g.inp("key", dt, p.get("kshape", [B, Skv, H, Dh]))
        kt = g.op("Transpose", [k], perm=[0, 2, 3, 1])
    elif p["key_kind"] == "BHSd-T":
        k = g.inp("key", dt, p.get("kshape", [B, H, Skv, Dh]))
        kt = g.op("Transpose", [k], perm=list(p.get("kperm", [0, 1, 3, 2])))
    else:
        k = g.inp("key", dt, p.get("kshape", [B, H, Skv, Dh]))
        k3 = g.op("Reshape", [k, g.const([B * H, Skv, Dh], "int64")])
        k3t = g.op("Transpose", [k3], perm=[0, 2, 1])
        kt = g.op("Reshape", [k3t, g.const([B, H, Dh, Skv], "int64")])
    v = g.inp("value", dt, p.get("vshape", [B, H, Skv, Dv]))

    def scaled(val, sc):
        if sc is None:
            return val
        kind, c = sc[0], sc[1]
        shape = sc[2] if len(sc) > 2 else []
        return g.op(kind, [val, g.const(np.full(shape, c), dt)])

    qs = scaled(q, p.get("q_scale"))
    ks = scaled(kt, p.get("k_scale"))
    score = scaled(g.op("MatMul", [qs, ks]), p.get("qk_scale"))
    if p.get("mask") is not None:
        m = g.inp("mask", dt, list(p["mask"]))
        score = g.op("Add", [score, m])
    sa = p.get("softmax_axis", -1)
    w = g.op("Softmax", [score], **({} if sa is None else {"axis": sa}))      # None: attribute absent (default -1 from opset 13)
    if p.get("nan_guard"):
        w = g.op("Where", [g.op("IsNaN", [w]), g.const(0.0, dt), w])
    y = g.op("MatMul", [w, v])
    g.op("Identity", [y], out="y")
    g.out("y", dt, [B, H, S, Dv])
    return g


# ------------------------------------------------------------------------------------------- instance -> group norm
def group_norm_model(p):
    """Reshape(x,[0,g,-1]) -> InstanceNormalization(ones, zeros) -> Reshape(x.shape) -> Mul(weight_full) -> Add(bias_full)."""
    g = G(opset=17)
    dt = p["dtype"]
    N, C, H, W, groups = p["N"], p["C"], p["H"], p["W"], p["groups"]
    x = g.inp("x", dt, [N, C, H, W])
    rs = np.random.RandomState(p.get("wseed", 0))
    wn = g.const(np.full([groups], p.get("norm_weight", 1.0)), dt, name="weight_for_norm")
    bn = g.const(np.full([groups], p.get("norm_bias", 0.0)), dt, name="bias_for_norm")
    wshape = p.get("wshape", [C, 1, 1])
    wf = g.const(rs.standard_normal(wshape), dt, name="weight_full")
    bf = g.const(rs.standard_normal(p.get("bshape", wshape)), dt, name="bias_full")
    a = g.op("Reshape", [x, g.const(p.get("adjusted", [0, groups, -1]), "int64", as_node=True)])
    inorm = g.op("InstanceNormalization", [a, wn, bn], epsilon=p.get("epsilon", 1e-5))
    r = g.op("Reshape", [inorm, g.const(p.get("orig_shape", [N, C, H, W]), "int64", as_node=True)])
    y = g.op("Add", [g.op("Mul", [r, wf]), bf])
    g.op("Identity", [y], out="y")
    g.out("y", dt, [N, C, H, W])
    return g


def group_norm_reference(x, gamma, beta, groups, epsilon, channels_last=1, activation=0):
    """com.microsoft.GroupNorm as documented (NHWC): statistics per (n, group) over H, W and the group's channels."""
    assert channels_last == 1 and activation == 0
    x32 = x.astype(np.float32)
    N, H, W, C = x32.shape
    xg = x32.reshape(N, H * W, groups, C // groups)
    mean = xg.mean(axis=(1, 3), keepdims=True)
    var = xg.var(axis=(1, 3), keepdims=True)
    y = ((xg - mean) / np.sqrt(var + epsilon)).reshape(N, H, W, C)
    y = y * gamma.reshape(1, 1, 1, C) + beta.reshape(1, 1, 1, C)
    return y.astype(x.dtype)
