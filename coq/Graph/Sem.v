(* Evaluation of graphs over an abstract kernel semantics (Section variables), with ONNX If and
   Loop interpreted structurally (outer-scope capture).  Fuel = nesting depth; Loop recurses on
   its trip count.  The evaluator is factored through `ev`, the evaluator of subgraphs one level
   down, so that lemmas can be stated for an arbitrary `ev`.  No proofs in this file. *)
From Coq Require Import List String ZArith Bool.
Require Import OV.Graph.Syntax.
Import ListNotations.
Local Open Scope string_scope.

Section Sem.
  Variable V : Type.                                  (* runtime values (tensors, sequences, ...) *)
  (* kernel of an ordinary operator: domain, op, attributes, optional inputs -> outputs *)
  Variable sem : string -> string -> list (string * attrv) -> list (option V) -> option (list V).
  Variable truth : V -> option bool.                  (* scalar bool tensor -> bool (If / Loop cond) *)
  Variable trip : V -> option nat.                    (* scalar int64 tensor -> trip count *)
  Variable of_nat : nat -> V.                         (* iteration counter as a tensor *)
  Variable of_bool : bool -> V.
  Variable unbounded_loop_limit : nat.                (* loops without trip count: fail beyond this many iterations *)

  Definition env := list (vname * V).

  Fixpoint lookup (e : env) (x : vname) : option V :=
    match e with
    | [] => None
    | (y, v) :: t => if String.eqb x y then Some v else lookup t x
    end.

  Fixpoint lookups (e : env) (xs : list vname) : option (list V) :=
    match xs with
    | [] => Some []
    | x :: t => match lookup e x, lookups e t with
                | Some v, Some vs => Some (v :: vs)
                | _, _ => None
                end
    end.

  (* optional inputs: an omitted input is passed as None; a named one must be bound *)
  Fixpoint lookup_opts (e : env) (xs : list (option vname)) : option (list (option V)) :=
    match xs with
    | [] => Some []
    | None :: t => option_map (cons None) (lookup_opts e t)
    | Some x :: t => match lookup e x, lookup_opts e t with
                     | Some v, Some vs => Some (Some v :: vs)
                     | _, _ => None
                     end
    end.

  Fixpoint bind (xs : list vname) (vs : list V) (e : env) : option env :=
    match xs, vs with
    | [], [] => Some e
    | x :: xt, v :: vt => option_map (cons (x, v)) (bind xt vt e)
    | _, _ => None
    end.

  Fixpoint find_sub (name : string) (subs : list (string * graph)) : option graph :=
    match subs with
    | [] => None
    | (k, g) :: t => if String.eqb k name then Some g else find_sub name t
    end.

  Definition is_if (dom op : string) : bool := String.eqb dom "" && String.eqb op "If".
  Definition is_loop (dom op : string) : bool := String.eqb dom "" && String.eqb op "Loop".

  Section WithSub.
    (* evaluator of a subgraph in a given outer environment *)
    Variable ev : env -> graph -> list V -> option (list V).

    (* Loop body (iter, cond_in, carried...) -> (cond_out, carried...); scan outputs are not
       modelled: a body returning a different number of values makes evaluation fail. *)
    Fixpoint loop_iter (e : env) (body : graph) (bounded : bool) (k i : nat) (c : bool) (st : list V)
      : option (list V) :=
      if negb c then Some st else
      match k with
      | O => if bounded then Some st else None
      | S k' =>
        match ev e body (of_nat i :: of_bool c :: st) with
        | Some (cv' :: st') =>
          if Nat.eqb (List.length st') (List.length st) then
            match truth cv' with
            | Some c' => loop_iter e body bounded k' (S i) c' st'
            | None => None
            end
          else None
        | _ => None
        end
      end.

    Definition eval_node (e : env) (n : node) : option env :=
      let 'Node dom op ins outs attrs subs := n in
      if is_if dom op then
        match lookup_opts e ins with
        | Some [Some c] =>
          match truth c with
          | Some b =>
            match find_sub (if b then "then_branch" else "else_branch") subs with
            | Some sg => match ev e sg [] with
                         | Some vs => bind outs vs e
                         | None => None
                         end
            | None => None
            end
          | None => None
          end
        | _ => None
        end
      else if is_loop dom op then
        match ins, find_sub "body" subs with
        | m :: c :: carried, Some body =>
          match lookup_opts e [m; c], lookups e (present carried) with
          | Some [mv; cv], Some st0 =>
            let max_trip := match mv with Some v => option_map Some (trip v) | None => Some None end in
            let cond0 := match cv with Some v => truth v | None => Some true end in
            match max_trip, cond0 with
            | Some mt, Some c0 =>
              let r := match mt with
                       | Some k => loop_iter e body true k 0 c0 st0
                       | None => loop_iter e body false unbounded_loop_limit 0 c0 st0
                       end in
              match r with
              | Some stf => bind outs stf e
              | None => None
              end
            | _, _ => None
            end
          | _, _ => None
          end
        | _, _ => None
        end
      else
        match lookup_opts e ins with
        | Some vs => match sem dom op attrs vs with
                     | Some rs => bind outs rs e
                     | None => None
                     end
        | None => None
        end.

    Fixpoint run (e : env) (ns : list node) : option env :=
      match ns with
      | [] => Some e
      | n :: t => match eval_node e n with Some e' => run e' t | None => None end
      end.

    (* bind inputs over the outer environment, run the nodes, read the outputs.  Initializers are
       ordinary named values expected in `outer` (or passed as arguments) by the caller. *)
    Definition eval_body (outer : env) (g : graph) (args : list V) : option (list V) :=
      match bind (g_ins g) args outer with
      | None => None
      | Some e0 => match run e0 (g_nodes g) with
                   | Some e => lookups e (g_outs g)
                   | None => None
                   end
      end.
  End WithSub.

  Fixpoint eval_graph (fuel : nat) (outer : env) (g : graph) (args : list V) {struct fuel} : option (list V) :=
    match fuel with
    | O => None
    | S f => eval_body (eval_graph f) outer g args
    end.
End Sem.

Arguments lookup {V}.
Arguments lookups {V}.
Arguments lookup_opts {V}.
Arguments bind {V}.
