"""C03 -- optimize() never changes what a model computes (DESIGN.md section 5, C03).

Model: coq/Opt/Fold.v (FoldConstantsPass: decision procedure of process_node, traversal, If inlining, output
replacement); theorems: coq/Props/C03.v; tie: (i) translator harness/c03_tables.py -> coq/Gen/FoldTables.v (tables, order
of the tests of process_node, guards), (ii) decision-trace + resulting-graph correspondence harness/c03_trace.py
(real pass wrapped in-process vs the Gallina model evaluated in Coq), (iii) direct oracle: original vs optimized model
on onnxruntime (ORT_DISABLE_ALL) and onnx.reference for every entry point and sampled option tuples.
"""
from __future__ import annotations

import collections

from harness import c03_check as K
from harness import c03_gen as G
from harness import c03_passes as P
from harness import c03_pipeline
from harness import c03_tables
from harness import c03_wiring

PROPERTY = "C03"
LEVEL = "proof"


def regenerate(ctx):
    ctx.pipeline_info = c03_pipeline.regenerate(ctx)
    ctx.wiring_info = c03_wiring.regenerate(ctx)
    return c03_tables.regenerate(ctx)


def replay(doc):
    return K.replay(doc)


def run(ctx):
    ctx.assume("kernel semantics is abstract in every theorem (Section variables); `ref_agrees` (onnx.reference used for folding = runtime "
               "kernel), Constant / Identity kernels and the truth value of a boolean scalar are hypotheses (coq/Opt/FoldTheorems.v: oracles), "
               "measured by running original and optimized models on onnxruntime and onnx.reference")
    ctx.assume("op-specific partial evaluators (Cast/CastLike/Reshape/Expand/Abs -> Identity, Shape/Size/Gather -> Constant, Concat, Dropout, "
               "sequence ops) enter the pass theorems through the hypothesis pe_ok (locally sound replacement) - the only hypothesis about the "
               "pass left in C03_fold_graph_sound_partial; their soundness needs truthful type/shape annotations and is covered by the "
               "correspondence + differential oracle only; the theorems hold for models passing the freshness side conditions of the strict "
               "model (evaluated on every compared model; the class that fails them - an If branch returning its own initializer - is counted)")
    ctx.assume("Opt/Fold.v models the pass with onnx_shape_inference=False (node-level ONNX shape inference is not modelled); names stand for "
               "ir.Value objects, faithful on models whose value names are unique across graphs/functions (generated so; others are skipped "
               "by the correspondence and still covered by the differential oracle)")
    ctx.assume("onnx_ir stages: RemoveUnusedNodesPass and CommonSubexpressionEliminationPass have Gallina models (Opt/Dce.v, Opt/Cse.v) compared "
               "with the real passes on every observed (before, after) pair; the DCE theorem is unconditional, the CSE theorem covers merges "
               "satisfying merge_guard (same attribute list, not a graph output, no use in nested graphs, SSA side conditions); trimming of "
               "trailing omitted inputs / unused optional outputs by DCE is not modelled")
    ctx.assume("hypotheses of C03_optimize_ir_sound (all stages but Inline are models linked to C03 / C07 theorems), with what measures each: "
               "(1) const_oracle - the Constant kernel returns the tensor its attribute denotes: lifted values compared bitwise with the Constant "
               "evaluated by onnx.reference on every LiftConstants pair; (2) oracles - reference evaluator used for folding = runtime kernel, "
               "Identity returns its input, truth value of a boolean scalar: original vs optimized models on onnxruntime and onnx.reference; "
               "(3) pe_ok - op-specific partial evaluators replace a node by an equivalent segment: decision-trace correspondence + per-pass "
               "before/after oracle on FoldConstantsPass; (4) rule_sound for every default rewrite rule - matched segment interchangeable with "
               "its replacement in every environment: proved from the C05 theorems for three families (Relu.Relu, Dropout in inference mode, "
               "x*1 with the constant produced inside the match: Opt/RuleBridge.v), for the others it is what C05 states per family in its own "
               "element semantics and what the per-pass before/after oracle on RewritePass observes; rules whose side condition is a fact about "
               "values produced outside the match (initializer equal to 1, declared element type or shape) do not fit this interface (they need "
               "an environment invariant); (5) InlinePass: NO hypothesis left in C03_optimize_ir_with_functions_sound (Props/C03_inline.v): Gallina model "
               "Opt/InlineFn.v, the names chosen by the real pass are the model's oracle and are checked by its side conditions; the model "
               "refuses functions returning a formal or one value twice (the real pass then renames a value of the caller: C04 known finding) "
               "and ignores overloads; a call means the evaluation of the callee's body (fsem), call chains of any bounded depth")
    ctx.assume("RemoveUnusedFunctions is proved meaning-preserving over the semantics in which a call evaluates the callee's body "
               "(C03_remove_unused_functions_sound); the evaluator does not read the opset table; after inlining no call is left, so both are "
               "the identity on the meaning; with inline=False the stages are proved for an arbitrary kernel, which covers calls as kernels; OutputFixPass is modelled for duplicated outputs of the main graph only (a graph input "
               "listed as output is renamed by the real pass: not modelled); NameFixPass = C07's namefix under namefix_okb; float outputs are "
               "compared up to round-off (tight for integer-valued data flows), NaN / infinities must coincide, ints / bools / strings bit-equal")
    ctx.trust("translator harness/c03_pipeline.py (Python ast, fail-closed) -> coq/Gen/OptPipeline.v; the shape predicate pipeline_ok "
              "(coq/Opt/Pipeline.v) states what the soundness argument needs of the pass list")
    info = regenerate(ctx)
    ctx.check_props()
    ctx.build(["Opt/FoldInst.vo"])          # the executable instance used by the correspondence
    rng = ctx.rng
    quick = ctx.tier == "quick"

    # (ii) decision-trace correspondence of fold_constants
    n_trace = 60 if quick else 400
    import itertools as _it
    tstats = K.trace_stream(ctx, rng, _it.chain(K.fold_family_stream(rng), K.dag_stream(rng, n_trace, overridable_every=0)), "C03")
    agree = tstats["agree"] + tstats["agree(outside-theorem-side-conditions)"]
    ctx.obligation("correspondence fold_constants: per-node decisions and resulting graph of the real pass = Opt/Fold.v on every compared model",
                   tstats["disagree"] == 0 and agree > 0, f"{dict(tstats)}")
    if agree < n_trace // 3:
        ctx.tie_broken("correspondence", "fold-trace:generator-degenerate", f"only {agree} of {n_trace} cases compared: {dict(tstats)}")

    pinfo = getattr(ctx, "pipeline_info", None)
    ctx.obligation("translator: pass list of optimize_ir read from the source (constructor names, arguments, order, PassManager wiring, inline prefix)",
                   pinfo is not None, str(pinfo)[:600] if pinfo else "not recognised")
    winfo = getattr(ctx, "wiring_info", None)
    ctx.obligation("translator: how every option of optimize / optimize_ir / fold_constants reaches FoldConstantsPass / PassManager (call sites, keywords, defaults)",
                   winfo is not None, str(winfo))
    pc = P.PassChecker(ctx, "C03")
    from harness import c03_inline
    itie = c03_inline.InlineTie(ctx, "C03")
    for label, hm, hfeeds in c03_inline.function_hosts(rng, quick):
        itie.add_model(label, hm, hfeeds)
        try:
            itie.add_pass_records(label, P.observe(hm, (2, True, False, True, 8192, 512 * 512)))      # inline=False: the tables survive
        except Exception:
            pass
    n_pass_dag = 25 if quick else 150

    # (iii) direct oracle
    stats = collections.Counter()
    discards = collections.Counter()
    feats = collections.Counter()
    n_dag = 90 if quick else 700
    import itertools
    import random as _random
    from harness import c03_fuse, c04_ifinits, c04_shapeov
    # hand-built families shared with C04 (own generator derived from the seed: the random DAG stream keeps its sequence): constant-condition
    # Ifs whose taken branches own initializers with clashing names; shape-like overridable initializer-inputs (feeds with override values)
    fam_rng = _random.Random(f"{ctx.seed}:C03:families")
    fuse_rng = _random.Random(f"{ctx.seed}:C03:fuse")
    fuse_cases = c03_fuse.fuse_cases(fuse_rng, quick)
    cast_cases = c03_fuse.cast_unknown_cases(fuse_rng, quick)
    FAM = ("if-inits", "shape-ov", "fuse2", "cast-unknown")
    # CastLike / Cast with operands of unknown element type in the decision-trace correspondence (own call: the main stream keeps its sequence)
    cstats = K.trace_stream(ctx, _random.Random(f"{ctx.seed}:C03:cast-trace"), cast_cases, "C03")
    cagree = cstats["agree"] + cstats["agree(outside-theorem-side-conditions)"]
    ctx.obligation("correspondence fold_constants on CastLike / Cast with operands of unknown element type (no value_info, shape inference off): decisions "
                   "keep (target unknown) / Identity (known equal) / Cast (known different) of the real pass = Opt/Fold.v pe_castlike",
                   cstats["disagree"] == 0 and cagree >= len(cast_cases) * 2 // 3, f"{dict(cstats)}")
    for c in itertools.chain(K.corpus_stream(rng, "C03"), K.alias_stream(rng, 15 if quick else 60),
                             K.pass_family_stream(rng, 15 if quick else 60),
                             c04_shapeov.cases(fam_rng), c04_ifinits.cases(fam_rng, quick), fuse_cases, cast_cases,
                             K.dag_stream(rng, n_dag, overridable_every=9, start=1000)):
        if not isinstance(c, G.Case):
            discards["generator-error: " + c[1][:60]] += 1
            continue
        base, reason = K.validity(c)
        if base is None:
            discards[(c.kind + ": " if c.kind in FAM else "") + reason.split(":")[0].split("(")[0].strip()] += 1
            continue
        if c.kind in FAM:
            stats["family:" + c.kind + ":valid-models"] += 1
            feats[c.features[0]] += 1
            ctx.case((c.kind, tuple(c.features[:4])))
            K.differential(ctx, c, base, c.plan, stats)
            continue
        stats["valid-dag-models"] += 1
        for f in c.features:
            feats[f] += 1
        ctx.case(("dag", tuple(f for f in c.features if not f.startswith("value_info"))[:12]))
        K.differential(ctx, c, base, K.run_plan(rng, ctx.tier, c), stats)
        if c.model.functions:
            itie.add_model(f"{c.kind}:{c.ident}", c.model, c.feeds)
            try:
                itie.add_pass_records(f"{c.kind}:{c.ident}", P.observe(c.model, (1, True, False, True, 8192, 512 * 512)))
            except Exception:
                pass
        if not c.kind.startswith("dag") or stats["per-pass-dag-models"] < n_pass_dag:
            # every individual pass of the real pipeline: before/after oracle + model correspondence (DCE, CSE)
            stats["per-pass-dag-models"] += int(c.kind.startswith("dag"))
            pc.check_case(c, base, None if rng.random() < 0.6 else K.R.option_tuples(rng, 2)[1])
        if stats["valid-dag-models"] == 3:
            ctx.sample({"ident": c.ident, "features": c.features, "nodes": len(c.model.graph.node), "feeds": len(c.feeds)})
    n_lift = 70 if quick else None
    for c in K.lifted_stream(rng, n_lift or 0, thorough=not quick):
        base, reason = K.validity(c, need_deterministic=True)
        if base is None:
            discards["lifted: " + reason.split(":")[0].split("(")[0].strip()] += 1
            continue
        stats["valid-lifted-models"] += 1
        ctx.case(("lifted", c.kind, c.features[-1] if c.features else ""))
        plan = [("optimize", None, False), ("fold_constants", None, rng.random() < 0.5)]
        if not quick:
            plan += [("optimize", K.R.option_tuples(rng, 2)[1], True), ("rewrite", None, False)]
        K.differential(ctx, c, base, plan, stats)
    if stats["family:fuse2:valid-models"] < len(fuse_cases) * 2 // 3 or stats["family:cast-unknown:valid-models"] < len(cast_cases) * 2 // 3:
        ctx.tie_broken("harness", "fuse2/cast-unknown:generator-degenerate",
                       f"valid: fuse2 {stats['family:fuse2:valid-models']} of {len(fuse_cases)}, cast-unknown {stats['family:cast-unknown:valid-models']} of "
                       f"{len(cast_cases)}: {dict(discards)}")
    pstats = pc.finish() or pc.stats
    istats = itie.finish()
    zero_sign_witness(ctx, stats)
    if stats["valid-dag-models"] < n_dag // 2:
        ctx.tie_broken("harness", "generator-degenerate", f"only {stats['valid-dag-models']} valid DAG models of {n_dag}: {dict(discards)}")
    ctx.obligation("direct oracle: every entry point / option tuple leaves the outputs of every valid generated model unchanged "
                   "(known findings excepted)", stats["violations"] == 0 or not ctx.violations, f"{dict(stats)}")
    ctx.cover(inline_tie=dict(istats))
    ctx.cover(cast_unknown_trace=dict(cstats))
    ctx.cover(trace=dict(tstats), oracle=dict(stats), per_pass=dict(pstats), pipeline=pinfo, discarded=dict(discards),
              feature_histogram=dict(sorted(feats.items())),
              translator={"registry": len(info["registry"]) if info else None, "guards_graph_inputs": info.get("guard") if info else None,
                          "concat_drop_checks_other_dims": info.get("concat_fixed") if info else None},
              generator="typed random DAGs (profiles mixed/fold/control/rules/seq): constants as initializers / Constant attrs, shape chains, "
                        "Cast/CastLike chains, If/Loop capturing outer values and owning initializers, sequence ops, Dropout variants, zero-size "
                        "tensors, model-local functions with attribute references, overridable initializer-inputs; ONNX node tests lifted "
                        "(inputs -> initializers / Constant nodes, wrapped in If, chained)")
    if ctx.tier == "thorough":
        ctx.coqchk(["Props.C03"])


def zero_sign_witness(ctx, stats):
    """Props/C03.v: C03_cse_python_key_refuted on the real code: LeakyRelu<alpha=0.0>(x) and LeakyRelu<alpha=-0.0>(x) have keys that are
    equal in Python; 1 / (.) tells the two results apart for x < 0 (onnxruntime; onnx.reference computes LeakyRelu differently
    and is not used here)."""
    import numpy as np
    c = G.gen_pass_case(ctx.rng, 0, "attr-zero-sign")
    try:
        m2 = K.R.apply_entry("optimize", c.model)
    except Exception:
        return
    s0, o0 = K.R.run_ort(c.model, c.feeds)
    s2, o2 = K.R.run_ort(m2, c.feeds)
    merged = sum(1 for n in m2.graph.node if n.op_type == "LeakyRelu") < 2
    stats["witness-zero-sign-merged"] = int(merged)
    ctx.case(("witness-zero-sign", merged))
    if s0 == "ok" and (s2 != "ok" or any(K.R.compare_outputs(a, b, c.exact) is not None for a, b in zip(o0, o2))):
        ctx.violation("C03:cse:float-attribute-zero-sign-merged",
                      "optimize(): CommonSubexpressionEliminationPass merges LeakyRelu<alpha=0.0>(x) with LeakyRelu<alpha=-0.0>(x) (keys equal in "
                      "Python); 1/(.) of the two differs in the sign of the infinity for x < 0",
                      K.replay_doc(c, "optimize", None, False))
        stats["violations"] += 1
