(* C16 -- the finite part: the general lemmas of BindingProofs.v instantiated on the registry that the
   translator regenerated from the checked tree (Gen/TorchRegistry.v).  Finite domain: vm_compute. *)
From Coq Require Import String List Bool.
Require Import OV.Registry.Binding OV.Registry.BindingProofs OV.Gen.TorchRegistry.
Import ListNotations.

Lemma registry_names : forallb (fun e => name_ok (e_name e)) all = true.
Proof. vm_compute. reflexivity. Qed.

Lemma registry_unique : NoDup (map (fun e => (e_name e, e_complex e)) all).
Proof. apply unique_keys_NoDup. vm_compute. reflexivity. Qed.

Lemma registry_binds : forallb (fun e => entry_ok e || excepted known_exceptions e) all = true.
Proof. vm_compute. reflexivity. Qed.

Lemma registry_all_sound : forall e, In e all -> excepted known_exceptions e = false ->
  exists s, e_schema e = Some s /\
    forall c, conforms s c -> exists b, bind (e_sig e) c = OK b /\ binding_good s (e_sig e) c b.
Proof. exact (registry_sound all known_exceptions registry_binds). Qed.
