(* C06 -- the matcher model (stack of partial matches, push / abandon / merge, lookups over the whole stack) computes
   exactly the committed-choice meaning of Match/Committed.v (one flat environment, ordered choice), for every
   pattern -- OrValue (backtracking and dispatching), several output nodes, all other features -- and every graph:

     run fl p g root rm = crun (fresh_iter fl) p g root rm        (repaired flags)

   so a match is reported iff the subgraph is an instance under the committed-choice meaning, with exactly the
   bindings, node map, node list and outputs of that instance; and the laws of that meaning. *)
From Coq Require Import List ZArith String Bool Arith Lia.
Require Import OV.Match.Pattern OV.Match.Matcher OV.Match.Spec OV.Match.SoundProofs OV.Match.CompleteProofs
  OV.Match.Committed.
Import ListNotations.

(* the flat environment a stack stands for: the concatenation of its partial matches, newest first *)
Definition flat (st : stack) : env := mkP (all_b st) (all_vb st) (all_nb st) (all_nodes st).

(* the two machines agree on one step: same verdict, and on success the flat state of the result is the result of
   the flat machine and the part of the stack below the top is untouched; `Soft` does not occur *)
Definition sim (bl : list partial) (r : res stack) (c : res env) : Prop :=
  match r, c with
  | Ok st', Ok e' => e' = flat st' /\ below st' = bl
  | Fail, Fail => True
  | Err, Err => True
  | _, _ => False
  end.

Lemma sim_rbind : forall bl r c (f : stack -> res stack) (f' : env -> res env),
  sim bl r c -> (forall st', below st' = bl -> sim bl (f st') (f' (flat st'))) ->
  sim bl (rbind r f) (rbind c f').
Proof.
  intros bl [st'| | |s] [e'| | |s'] f f' H K; simpl in *; try contradiction; auto.
  destruct H as [E B]; subst. apply K; reflexivity.
Qed.

Lemma flat_push : forall st, flat (push st) = flat st.
Proof. intros [t bl]; reflexivity. Qed.

Lemma flat_init : flat init_stack = empty_env.
Proof. reflexivity. Qed.

Lemma flat_bind_node : forall p n st, flat (bind_node p n st) = e_bind_node p n (flat st).
Proof. intros p n [t bl]; reflexivity. Qed.

Lemma below_bind_node : forall p n st, below (bind_node p n st) = below st.
Proof. intros p n [t bl]; reflexivity. Qed.

Lemma flat_top : forall st, below st = [] -> flat st = top st.
Proof.
  intros [[b vb nb ns] bl] H; simpl in H; subst.
  unfold flat, all_b, all_vb, all_nb, all_nodes, all_partials; simpl. rewrite !app_nil_r. reflexivity.
Qed.

(* ------------------------------------------------------------------ bindings *)
Lemma bind_flat : forall x b st,
  match bind x b st with
  | Some st' => e_bind x b (flat st) = Some (flat st') /\ below st' = below st
  | None => e_bind x b (flat st) = None
  end.
Proof.
  intros x b st. unfold bind, e_bind, lookup_b. cbn [flat pb].
  destruct (assoc String.eqb x (all_b st)) as [b'|].
  - destruct (bval_eqb b' b); auto.
  - destruct st as [t bl]. split; reflexivity.
Qed.

Lemma bind_key_flat : forall k v st,
  match bind_key k v st with
  | Some st' => e_bind_key k v (flat st) = Some (flat st') /\ below st' = below st
  | None => e_bind_key k v (flat st) = None
  end.
Proof.
  intros k v st. unfold bind_key, e_bind_key, lookup_vb. cbn [flat pvb].
  destruct (assoc vkey_eqb k (all_vb st)) as [v'|].
  - destruct (ovid_eqb v' v); auto.
  - destruct st as [t bl]. split; reflexivity.
Qed.

Lemma bind_value_flat : forall name k v st,
  match bind_value name k v st with
  | Some st' => e_bind_value name k v (flat st) = Some (flat st') /\ below st' = below st
  | None => e_bind_value name k v (flat st) = None
  end.
Proof. intros [x|] k v st; simpl; [apply bind_flat | apply bind_key_flat]. Qed.

Lemma sim_opt : forall st (o : option stack) (o' : option env),
  match o with
  | Some st' => o' = Some (flat st') /\ below st' = below st
  | None => o' = None
  end -> sim (below st) (of_opt o) (of_opt o').
Proof. intros st [st'|] o' H; [destruct H as [-> B] | subst]; simpl; auto. Qed.

Lemma sim_bind_tag : forall tagv tag st, sim (below st) (bind_tag tagv tag st) (e_bind_tag tagv tag (flat st)).
Proof.
  intros [x|] tag st; simpl; auto.
  assert (H := bind_flat x (BTag tag) st). destruct (bind x (BTag tag) st) as [st'|].
  - destruct H as [-> B]. simpl; auto.
  - rewrite H. simpl; auto.
Qed.

Lemma sim_bind_attr_name : forall name b st,
  sim (below st) (bind_attr_name name b st) (e_bind_attr_name name b (flat st)).
Proof. intros [x|] b st; simpl; auto. apply sim_opt. apply bind_flat. Qed.

(* ------------------------------------------------------------------ node-local part *)
Lemma sim_attrs : forall fl h pats st, sim (below st) (match_attrs fl pats h st) (c_attrs (attr_fix fl) pats h (flat st)).
Proof.
  intros fl h. induction pats as [| [name ap] t IH]; intros st; simpl; auto.
  destruct (assoc String.eqb name (h_attrs h)) as [a|]; destruct ap as [c | x none_ok]; simpl; auto.
  - unfold attr_const_eval. destruct (attr_const_matches c a) as [[|]|]; [| | destruct (attr_fix fl)]; simpl; auto.
  - apply sim_rbind; [apply sim_bind_attr_name|]. intros st' B. rewrite <- B. apply IH.
  - destruct none_ok; simpl; auto.
    apply sim_rbind; [apply sim_bind_attr_name|]. intros st' B. rewrite <- B. apply IH.
Qed.

Lemma sim_node_local : forall fl np h st, sim (below st) (node_local fl np h st) (c_node_local (attr_fix fl) np h (flat st)).
Proof.
  intros fl np h st. unfold node_local, c_node_local.
  destruct (negb (spat_matches (np_op np) (h_op h))); simpl; auto.
  destruct (negb (spat_matches (np_dom np) (h_dom h))); simpl; auto.
  apply sim_rbind; [apply sim_attrs|]. intros st' B.
  destruct (np_other_attrs np || no_other_attrs np h); simpl; auto.
Qed.

(* ------------------------------------------------------------------ values, inputs, outputs, nodes *)
Section Sim.
Variable fl : flags.
Variable g : hgraph.
Variable tbl : list npat.
Hypothesis Hvb : keep_vb fl = true.
Hypothesis Hnb : keep_nb fl = true.
Hypothesis Hof : out_fail fl = true.

Definition rec_sim (rec : pid -> nid -> stack -> res stack) (crec : pid -> nid -> env -> res env) : Prop :=
  forall p n st, sim (below st) (rec p n st) (crec p n (flat st)).

Lemma merge_flat : forall st q rest, below st = q :: rest ->
  exists st', merge fl st = Ok st' /\ flat st' = flat st /\ below st' = rest.
Proof.
  intros [c bl] q rest Hb; simpl in Hb; subst. unfold merge; simpl. rewrite Hvb, Hnb.
  eexists; split; [reflexivity|]. split; [|reflexivity].
  unfold flat, all_nb, all_b, all_vb, all_nodes, all_partials; simpl. rewrite <- !app_assoc. reflexivity.
Qed.

Lemma sim_node_output : forall rec crec, rec_sim rec crec ->
  forall p i v st, sim (below st) (match_node_output g rec p i v st) (c_node_output g crec p i v (flat st)).
Proof.
  intros rec crec R p i [x|] st; simpl; auto.
  destruct (producer g x) as [[n idx]|]; simpl; auto.
  destruct (Nat.eqb idx i); simpl; auto.
Qed.

Lemma sim_value : forall rec crec, rec_sim rec crec ->
  forall pv v st, sim (below st) (match_value fl g tbl rec pv v st) (cvalue g tbl crec pv v (flat st)).
Proof.
  intros rec crec R. induction pv using vpat_ind2; intros v0 st; simpl;
    destruct (boundary_blocks g _ v0); simpl; auto.
  - (* Var *)
    apply sim_rbind; [apply sim_opt; apply bind_flat|]. intros st' B.
    destruct v0; [|destruct b]; simpl; auto.
  - (* Constant *)
    apply sim_rbind; [apply sim_opt; apply bind_key_flat|]. intros st' B.
    destruct v0 as [x|]; simpl; auto. destruct (const_ok g c x); simpl; auto.
  - (* node output *)
    apply sim_rbind; [apply sim_opt; apply bind_value_flat|]. intros st' B. rewrite <- B.
    apply sim_node_output; auto.
  - (* BacktrackingOr *)
    apply sim_rbind; [apply sim_opt; apply bind_value_flat|]. intros st1 B1. rewrite <- B1. clear st B1.
    rename st1 into st.
    (* push / abandon / merge against "every alternative starts from the same environment" *)
    induction alts as [| [tag a] t IHt]; [simpl; auto|].
    inversion H as [| ? ? Ha Ht]; subst. simpl in Ha.
    assert (S := Ha v0 (push st)). rewrite flat_push in S.
    destruct (match_value fl g tbl rec a v0 (push st)) as [st2| | |s2];
      destruct (cvalue g tbl crec a v0 (flat st)) as [e2| | |s2']; simpl in S; try contradiction.
    + destruct S as [E2 B2]. subst e2.
      assert (T := sim_bind_tag tagv tag st2).
      destruct (bind_tag tagv tag st2) as [st3| | |s3];
        destruct (e_bind_tag tagv tag (flat st2)) as [e3| | |s3']; simpl in T; try contradiction; simpl; auto.
      destruct T as [E3 B3]. subst e3.
      assert (B3' : below st3 = top st :: below st) by (rewrite B3, B2; destruct st; reflexivity).
      destruct (merge_flat st3 _ _ B3') as (st4 & M4 & F4 & Bl4). rewrite M4. simpl. split; congruence.
    + apply IHt; auto.
    + simpl; auto.
  - (* OpIdDispatchOr *)
    apply sim_rbind; [apply sim_opt; apply bind_value_flat|]. intros st1 B1.
    destruct v0 as [x|]; simpl; auto.
    destruct (producer g x) as [[n idx]|] eqn:P; simpl; auto.
    destruct (nth_error (g_nodes g) n) as [h|]; simpl; auto.
    destruct (dispatch tbl alts (h_opid h)) as [[tag [q i]]|]; simpl; auto.
    rewrite <- B1.
    apply sim_rbind; [apply sim_opt; apply bind_value_flat|]. intros st2 B2. rewrite <- B2.
    apply sim_rbind.
    + assert (K := sim_node_output rec crec R q i (Some x) st2). simpl in K. rewrite P in K. exact K.
    + intros st3 B3. rewrite <- B3. apply sim_bind_tag.
Qed.

Lemma sim_inputs : forall rec crec, rec_sim rec crec ->
  forall pins ins st, sim (below st) (match_inputs fl g tbl rec pins ins st) (cinputs g tbl crec pins ins (flat st)).
Proof.
  intros rec crec R. induction pins as [| pp ptl IH]; intros ins st; simpl; auto.
  destruct pp as [pv|].
  - apply sim_rbind; [apply sim_value; auto|]. intros st' B. rewrite <- B. apply IH.
  - destruct ins as [| [a|] atl]; simpl; auto.
Qed.

Lemma sim_outputs : forall p names outs i st,
  sim (below st) (bind_outputs fl p names outs i st) (coutputs p names outs i (flat st)).
Proof.
  induction names as [| nm t IH]; intros outs i st; simpl; auto.
  destruct outs as [| o outs']. { rewrite Hof. simpl; auto. }
  apply sim_rbind; [apply sim_opt; apply bind_value_flat|]. intros st' B. rewrite <- B. apply IH.
Qed.

Lemma sim_node : forall fuel, rec_sim (match_node fl g tbl fuel) (cnode (attr_fix fl) g tbl fuel).
Proof.
  induction fuel as [| f IH]; intros p n st; simpl; auto.
  unfold lookup_nb. cbn [flat pnb].
  destruct (assoc Nat.eqb p (all_nb st)) as [m|].
  - destruct (Nat.eqb m n); simpl; auto.
  - destruct (nth_error tbl p) as [np|]; simpl; auto.
    destruct (nth_error (g_nodes g) n) as [h|]; simpl; auto.
    apply sim_rbind; [apply sim_node_local|]. intros st1 B1.
    destruct ((List.length (np_ins np) <? List.length (h_ins h)) && negb (np_other_ins np)); simpl; auto.
    rewrite <- flat_bind_node. rewrite <- B1, <- (below_bind_node p n st1).
    apply sim_rbind; [apply sim_inputs; auto|]. intros st3 B3. rewrite <- B3. apply sim_outputs.
Qed.

End Sim.

(* ------------------------------------------------------------------ top level *)
Lemma output_values_top : forall tbl st outs, output_values tbl st outs = c_output_values tbl (top st) outs.
Proof.
  intros tbl st. induction outs as [| pv t IH]; simpl; auto. rewrite IH.
  destruct pv; reflexivity.
Qed.

Lemma candidate_lists_fresh : forall fl fl' ns g ids used, fresh_iter fl = fresh_iter fl' ->
  candidate_lists fl ns g ids used = candidate_lists fl' ns g ids used.
Proof.
  intros fl fl' ns g ids. induction ids as [| [i|] t IH]; intros used E; simpl; auto.
  - rewrite (IH used E); auto.
  - rewrite E, (IH true E); auto.
Qed.

Section Top.
Variable fl : flags.
Variable g : hgraph.
Variable p : gpat.
Hypothesis Hrep : repaired fl = true.

Lemma sim_roots : forall roots cand st,
  sim (below st) (match_roots fl g p roots cand st) (croots (attr_fix fl) g p roots cand (flat st)).
Proof.
  destruct (rep_flags fl Hrep) as (Hvb & Hnb & Hof).
  induction roots as [| r rt IH]; intros [| c ct] st; simpl; auto.
  change (sim (below st)
            (rbind (match_node fl g (gp_nodes p) (fuel_for p) r c st) (fun st1 => match_roots fl g p rt ct st1))
            (rbind (cnode (attr_fix fl) g (gp_nodes p) (fuel_for p) r c (flat st)) (fun e1 => croots (attr_fix fl) g p rt ct e1))).
  apply sim_rbind; [apply sim_node; auto|]. intros st' B. rewrite <- B. apply IH.
Qed.

Theorem try_candidate_eq : forall rm cand, try_candidate fl g p rm cand = ctry (attr_fix fl) g p rm cand.
Proof.
  intros rm cand. unfold try_candidate, ctry.
  assert (S := sim_roots (output_nodes p) cand init_stack). rewrite flat_init in S.
  destruct (match_roots fl g p (output_nodes p) cand init_stack) as [st| | |s];
    destruct (croots (attr_fix fl) g p (output_nodes p) cand empty_env) as [e| | |s']; simpl in S; try contradiction; auto.
  destruct S as [E B]. simpl in B. subst e. unfold finish, cfinish. rewrite B.
  rewrite (flat_top st B), output_values_top. reflexivity.
Qed.

Lemma first_ok_eq : forall rm cands, first_ok fl g p rm cands = cfirst (attr_fix fl) g p rm cands.
Proof.
  induction cands as [| c t IH]; simpl; auto. rewrite try_candidate_eq, IH. reflexivity.
Qed.

(* the main theorem: the matcher computes the committed-choice meaning *)
Theorem run_eq_committed : forall root rm, run fl p g root rm = crun (fresh_iter fl) (attr_fix fl) p g root rm.
Proof.
  intros root rm. unfold run, crun.
  destruct (output_nodes p) as [| r [| r2 others]]; auto.
  - apply try_candidate_eq.
  - rewrite first_ok_eq.
    rewrite (candidate_lists_fresh fl (mkF true true true (fresh_iter fl) (attr_fix fl))); reflexivity.
Qed.

End Top.

Corollary run_reports_iff_committed : forall fl p g root rm m,
  repaired fl = true -> fresh_iter fl = true -> attr_fix fl = true ->
  (run fl p g root rm = Ok m <-> cmatch p g root rm m).
Proof. intros fl p g root rm m R F A. unfold cmatch. rewrite (run_eq_committed fl g p R), F, A. reflexivity. Qed.

Corollary run_fails_iff_committed : forall fl p g root rm,
  repaired fl = true -> fresh_iter fl = true -> attr_fix fl = true ->
  (run fl p g root rm = Fail <-> crun true true p g root rm = Fail).
Proof. intros fl p g root rm R F A. rewrite (run_eq_committed fl g p R), F, A. reflexivity. Qed.

(* ------------------------------------------------------------------ the laws of ordered, committed choice *)
Section Laws.
Variable g : hgraph.
Variable tbl : list npat.
Variable rec : pid -> nid -> env -> res env.

Let first (v : option vid) (tagv : option string) (e1 : env) :=
  fix first (l : list (Z * vpat)) : res env :=
    match l with
    | [] => Fail
    | (tag, alt) :: t =>
        match cvalue g tbl rec alt v e1 with
        | Ok e2 => e_bind_tag tagv tag e2
        | Fail => first t
        | Err => Err
        | Soft s => Soft s
        end
    end.

Lemma first_ok_iff : forall v tagv e1 alts e',
  first v tagv e1 alts = Ok e' <->
  exists pre tag alt post e2,
    alts = (pre ++ (tag, alt) :: post)%list /\
    (forall ta, In ta pre -> cvalue g tbl rec (snd ta) v e1 = Fail) /\
    cvalue g tbl rec alt v e1 = Ok e2 /\
    e_bind_tag tagv tag e2 = Ok e'.
Proof.
  intros v tagv e1. induction alts as [| [tag a] t IH]; intros e'; simpl.
  - split; [discriminate|]. intros (pre & tg & alt & post & e2 & E & _). destruct pre; discriminate.
  - destruct (cvalue g tbl rec a v e1) as [e2| | |s] eqn:C.
    + split.
      * intro T. exists [], tag, a, t, e2. simpl. repeat split; auto. intros ta [].
      * intros (pre & tg & alt & post & e2' & E & Hpre & Ca & T).
        destruct pre as [| [tg0 a0] pre'].
        -- simpl in E. inversion E; subst. rewrite C in Ca. inversion Ca; subst. exact T.
        -- simpl in E. inversion E; subst. specialize (Hpre _ (or_introl eq_refl)). simpl in Hpre. congruence.
    + rewrite IH. split.
      * intros (pre & tg & alt & post & e2 & E & Hpre & Ca & T).
        exists ((tag, a) :: pre), tg, alt, post, e2. simpl. rewrite E. repeat split; auto.
        intros ta [<-|I]; auto.
      * intros (pre & tg & alt & post & e2 & E & Hpre & Ca & T).
        destruct pre as [| [tg0 a0] pre'].
        -- simpl in E. inversion E; subst. congruence.
        -- simpl in E. inversion E; subst. exists pre', tg, alt, post, e2. repeat split; auto.
           intros ta I. apply Hpre. right; auto.
    + split; [discriminate|]. intros (pre & tg & alt & post & e2 & E & Hpre & Ca & T).
      destruct pre as [| [tg0 a0] pre']; simpl in E; inversion E; subst; [congruence|].
      specialize (Hpre _ (or_introl eq_refl)). simpl in Hpre. congruence.
    + split; [discriminate|]. intros (pre & tg & alt & post & e2 & E & Hpre & Ca & T).
      destruct pre as [| [tg0 a0] pre']; simpl in E; inversion E; subst; [congruence|].
      specialize (Hpre _ (or_introl eq_refl)). simpl in Hpre. congruence.
Qed.

Lemma e_bind_tag_not_fail : forall tagv tag e, e_bind_tag tagv tag e <> Fail.
Proof. intros [x|] tag e; simpl; [destruct (e_bind x (BTag tag) e)|]; discriminate. Qed.

Lemma first_fail_iff : forall v tagv e1 alts,
  first v tagv e1 alts = Fail <-> forall ta, In ta alts -> cvalue g tbl rec (snd ta) v e1 = Fail.
Proof.
  intros v tagv e1. induction alts as [| [tag a] t IH]; simpl.
  - split; auto. intros _ ta [].
  - destruct (cvalue g tbl rec a v e1) as [e2| | |s] eqn:C.
    + split.
      * intro T. exfalso. eapply e_bind_tag_not_fail; eauto.
      * intro K. specialize (K (tag, a) (or_introl eq_refl)). simpl in K. congruence.
    + rewrite IH. split.
      * intros K ta [<-|I]; auto.
      * intros K ta I. apply K; right; auto.
    + split; [discriminate|]. intro K. specialize (K (tag, a) (or_introl eq_refl)). simpl in K. congruence.
    + split; [discriminate|]. intro K. specialize (K (tag, a) (or_introl eq_refl)). simpl in K. congruence.
Qed.

(* an OrValue matches exactly when some alternative matches from the environment at the OrValue and every earlier
   alternative fails from that same environment; the result is that alternative's *)
Theorem cvalue_or_first : forall k name tagv alts v e e',
  cvalue g tbl rec (POr k name tagv alts) v e = Ok e' <->
  boundary_blocks g (POr k name tagv alts) v = false /\
  exists e1 pre tag alt post e2,
    e_bind_value name (KObj k) v e = Some e1 /\
    alts = (pre ++ (tag, alt) :: post)%list /\
    (forall ta, In ta pre -> cvalue g tbl rec (snd ta) v e1 = Fail) /\
    cvalue g tbl rec alt v e1 = Ok e2 /\
    e_bind_tag tagv tag e2 = Ok e'.
Proof.
  intros k name tagv alts v e e'. cbn [cvalue].
  destruct (boundary_blocks g (POr k name tagv alts) v).
  { split; [discriminate | intros [? _]; discriminate]. }
  destruct (e_bind_value name (KObj k) v e) as [e1|]; cbn [of_opt rbind].
  - change ((fix first (l : list (Z * vpat)) : res env :=
               match l with
               | [] => Fail
               | (tag, alt) :: t =>
                   match cvalue g tbl rec alt v e1 with
                   | Ok e2 => e_bind_tag tagv tag e2
                   | Fail => first t
                   | Err => Err
                   | Soft s => Soft s
                   end
               end) alts) with (first v tagv e1 alts).
    rewrite first_ok_iff. split.
    + intros (pre & tag & alt & post & e2 & H). split; auto. exists e1, pre, tag, alt, post, e2. auto.
    + intros (_ & e1' & pre & tag & alt & post & e2 & E & H). inversion E; subst. eauto 10.
  - split; [discriminate|]. intros (_ & e1' & pre & tag & alt & post & e2 & E & _). discriminate.
Qed.

(* ... and fails exactly when it may not be matched here, or stands for another value already, or every
   alternative fails from the environment at the OrValue *)
Theorem cvalue_or_fail : forall k name tagv alts v e,
  cvalue g tbl rec (POr k name tagv alts) v e = Fail <->
  boundary_blocks g (POr k name tagv alts) v = true \/
  e_bind_value name (KObj k) v e = None \/
  exists e1, e_bind_value name (KObj k) v e = Some e1 /\
             forall ta, In ta alts -> cvalue g tbl rec (snd ta) v e1 = Fail.
Proof.
  intros k name tagv alts v e. cbn [cvalue].
  destruct (boundary_blocks g (POr k name tagv alts) v).
  { split; auto. }
  destruct (e_bind_value name (KObj k) v e) as [e1|]; cbn [of_opt rbind].
  - change ((fix first (l : list (Z * vpat)) : res env :=
               match l with
               | [] => Fail
               | (tag, alt) :: t =>
                   match cvalue g tbl rec alt v e1 with
                   | Ok e2 => e_bind_tag tagv tag e2
                   | Fail => first t
                   | Err => Err
                   | Soft s => Soft s
                   end
               end) alts) with (first v tagv e1 alts).
    rewrite first_fail_iff. split.
    + intro K. right; right. eauto.
    + intros [D|[D|(e1' & E & K)]]; try discriminate. inversion E; subst; auto.
  - split; auto.
Qed.

(* commitment: once an input has matched, a failure of a later input is the failure of the node -- the earlier
   input (and any OrValue in it) is not matched again *)
Theorem cinputs_committed : forall pv pins a ins e e1,
  cvalue g tbl rec pv a e = Ok e1 -> cinputs g tbl rec pins ins e1 = Fail ->
  cinputs g tbl rec (Some pv :: pins) (a :: ins) e = Fail.
Proof. intros pv pins a ins e e1 V I. cbn [cinputs]. rewrite V. exact I. Qed.

End Laws.

(* ------------------------------------------------------------------ committed meaning vs. the unordered meaning *)
(* every committed match is an instance in the sense of Spec.v (nothing is reported that is not an instance) *)
Theorem committed_is_instance : forall fresh afix p g root rm m,
  crun fresh afix p g root rm = Ok m ->
  exists cand, hd_error cand = Some root /\
    instanceb g p cand (sigma_of m) = true /\
    m_nodes m = rev (image (sigma_of m)) /\
    spec_outputs (gp_nodes p) (sigma_of m) (gp_outs p) = Some (m_outs m) /\
    (rm = true -> removable g (m_nodes m) (m_outs m)).
Proof.
  intros fresh afix p g root rm m H.
  assert (R : repaired (mkF true true true fresh afix) = true) by reflexivity.
  assert (Eq := run_eq_committed (mkF true true true fresh afix) g p R root rm). cbn [fresh_iter attr_fix] in Eq.
  rewrite <- Eq in H.
  exact (run_sound _ g p R root rm m H).
Qed.

(* without OrValue (one output node) the two meanings coincide: there is a committed match iff there is an instance *)
Theorem committed_iff_instance_orfree : forall p g root r,
  or_free p = true -> topo p = true -> output_nodes p = [r] -> outs_reachable p r ->
  ((exists m, cmatch p g root false m) <-> (exists s, instanceb g p [root] s = true)).
Proof.
  intros p g root r Hor Htp Hr Hre. unfold cmatch.
  assert (R : repaired flags_fixed = true) by reflexivity.
  split.
  - intros (m & H). destruct (committed_is_instance _ _ _ _ _ _ _ H) as (cand & Hd & I & _).
    exists (sigma_of m). unfold instanceb in *. rewrite Hr in *.
    apply andb_true_iff in I as [I1 I2]. destruct cand as [| c [| c2 ct]]; simpl in I1; try discriminate.
    + inversion Hd; subst. rewrite I2. simpl. rewrite andb_true_r in I1. rewrite I1. reflexivity.
    + apply andb_true_iff in I1 as [_ I1]. discriminate.
  - intros (s & I). destruct (run_complete_orfree flags_fixed p g root r s R Hor Htp Hr Hre I) as (m & H & _).
    exists m. rewrite (run_eq_committed flags_fixed g p R) in H. exact H.
Qed.
