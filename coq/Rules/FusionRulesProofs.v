(* C05 proofs for the rules.fusion rules: side condition => the matched sub-graph is the fused operator (algebra from
   coq/Fusion/*Proofs.v), and each named near miss makes the side condition false. *)
From Coq Require Import List ZArith Bool Arith Lia.
Require Import OV.Fusion.Field OV.Fusion.Norm OV.Fusion.NormProofs OV.Fusion.Rotary OV.Fusion.RotaryProofs
               OV.Fusion.Attn OV.Fusion.AttnProofs OV.Rules.FusionRules.
Import ListNotations.

Lemma sq_exact_pow : forall n d, sq_exact (SqPowF n d) = true -> (0 < d /\ n = 2 * d)%Z.
Proof. intros n d H. unfold sq_exact in H. apply andb_true_iff in H as [H1 H2]. apply Z.ltb_lt in H1. apply Z.eqb_eq in H2. auto. Qed.

Lemma rms_check_c05_sound : forall x s c e ax st,
  rms_check_c05 x s c e = Some (ax, st) -> ax = (-1)%Z /\ (st = 1 \/ st = 11)%Z /\ e = true
  /\ is_float_type x = true /\ is_float_type s = true.
Proof.
  intros x s c e ax st. unfold rms_check_c05.
  destruct e; simpl; [|discriminate].
  destruct (is_float_type x) eqn:Hx; simpl; [|discriminate].
  destruct (is_float_type s) eqn:Hs; simpl; [|discriminate].
  destruct c as [c|]; [destruct c | destruct x]; simpl; intro H; inversion H; auto 10.
Qed.

Section NormLaws.
  Variable F : Type.
  Variable o : fops F.
  Hypothesis Fth : is_field o.
  Variable sqrt : F -> F.
  Variable powr : F -> Z -> Z -> F.
  (* all that is assumed of ONNX Pow: an exponent that IS two squares *)
  Hypothesis powr_two : forall v n d, (0 < d)%Z -> (n = 2 * d)%Z -> powr v n d = pow o v 2.

  Lemma sq_sem_exact_mul : forall s d, sq_exact s = true ->
    sq_sem F o powr s d = match s with SqMulF => vmul o d d | SqPowF _ _ => map (fun v => pow o v 2) d end.
  Proof.
    intros [|n m] d H; [reflexivity|]. destruct (sq_exact_pow n m H) as [Hd Hn]. cbn. apply map_ext. intro v. now apply powr_two.
  Qed.

  (* LayerNormFusion: wherever the side condition holds, the matched sub-graph is LayerNormalization(x, scale, axis=-1)
     on every row, for every epsilon; the emitted attributes are axis = -1 and stash_type = x's type (FLOAT or DOUBLE) *)
  Theorem ln_rule_sound : forall h ax st (x scale : list F) (eps : F),
    ln_fires h = Some (ax, st) ->
    ln_host_sem F o sqrt powr h x scale eps = ln_spec F o sqrt x scale None eps /\
    ax = (-1)%Z /\ (st = 1 \/ st = 11)%Z /\ lh_eps_singleton h = true.
  Proof.
    intros h ax st x scale eps H. unfold ln_fires, ln_fires_v in H. cbv beta iota delta [sq_ok] in H.
    destruct (olz_is (lh_axes1 h) (-1) && olz_is (lh_axes2 h) (-1) && oz_is (lh_keepdims1 h) 1 && oz_is (lh_keepdims2 h) 1 && sq_exact (lh_sq h)) eqn:E; [|discriminate].
    apply andb_true_iff in E as [_ Esq].
    destruct (lh_xdt h) as [d|]; [|discriminate]. unfold ln_check_c05 in H.
    destruct (is_fp_type d && lh_eps_singleton h) eqn:E2; [|discriminate]. apply andb_true_iff in E2 as [Ed Ee].
    inversion H; subst. split; [|split; [reflexivity|split; [destruct d; cbn in Ed; try discriminate; auto|exact Ee]]].
    unfold ln_host_sem. rewrite (sq_sem_exact_mul _ _ Esq).
    destruct (lh_sq h) as [|n m].
    - rewrite <- (layer_norm_identity F o Fth sqrt SqMul (lh_norm h) x scale eps). reflexivity.
    - rewrite <- (layer_norm_identity F o Fth sqrt SqPow (lh_norm h) x scale eps). reflexivity.
  Qed.

  Theorem rms_rule_sound : forall h ax st (x scale : list F) (eps : F),
    rms_fires h = Some (ax, st) ->
    rms_host_sem F o sqrt powr h x scale eps = rms_spec F o sqrt x scale eps /\
    ax = (-1)%Z /\ (st = 1 \/ st = 11)%Z /\ rh_eps_float_singleton h = true.
  Proof.
    intros h ax st x scale eps H. unfold rms_fires, rms_fires_v in H. cbv beta iota delta [sq_ok] in H.
    destruct (olz_is (rh_axes h) (-1) && oz_is (rh_keepdims h) 1 && oz_is (rh_noop h) 0 && sq_exact (rh_exp h)) eqn:E; [|discriminate].
    apply andb_true_iff in E as [_ Esq].
    destruct (rh_xdt h) as [xd|]; [|discriminate]. destruct (rh_sdt h) as [sd|]; [|discriminate].
    destruct (rms_check_c05_sound _ _ _ _ _ _ H) as (Hax & Hst & He & _). split; [|auto].
    rewrite <- (rms_norm_identity F o Fth sqrt (rh_mul_order h) x scale eps).
    unfold rms_host_sem, rms_pattern, rms_of.
    rewrite (sq_sem_exact_mul _ x Esq). destruct (rh_exp h) as [|n m]; [|reflexivity].
    (* the pattern is a Pow; the Mul form does not occur and is the same function anyway *)
    rewrite (vmul_self F o x), <- (map_pow2 F o Fth x). reflexivity.
  Qed.
End NormLaws.

(* each named near miss falsifies the side condition (the contrapositive reading: such a host must not be rewritten) *)
Definition ln_ok : ln_host :=
  {| lh_xdt := Some FLOAT; lh_eps_singleton := true; lh_axes1 := Some [-1]%Z; lh_axes2 := Some [-1]%Z;
     lh_keepdims1 := Some 1%Z; lh_keepdims2 := Some 1%Z; lh_sq := SqPowF 2 1; lh_norm := NormRecip |}.
Theorem ln_near_misses :
  ln_fires ln_ok = Some ((-1)%Z, 1%Z) /\
  ln_fires {| lh_xdt := None; lh_eps_singleton := true; lh_axes1 := Some [-1]%Z; lh_axes2 := Some [-1]%Z; lh_keepdims1 := Some 1%Z; lh_keepdims2 := Some 1%Z; lh_sq := SqPowF 2 1; lh_norm := NormRecip |} = None /\
  ln_fires {| lh_xdt := Some FLOAT16; lh_eps_singleton := true; lh_axes1 := Some [-1]%Z; lh_axes2 := Some [-1]%Z; lh_keepdims1 := Some 1%Z; lh_keepdims2 := Some 1%Z; lh_sq := SqPowF 2 1; lh_norm := NormRecip |} = None /\
  ln_fires {| lh_xdt := Some FLOAT; lh_eps_singleton := false; lh_axes1 := Some [-1]%Z; lh_axes2 := Some [-1]%Z; lh_keepdims1 := Some 1%Z; lh_keepdims2 := Some 1%Z; lh_sq := SqPowF 2 1; lh_norm := NormRecip |} = None /\
  ln_fires {| lh_xdt := Some FLOAT; lh_eps_singleton := true; lh_axes1 := None; lh_axes2 := Some [-1]%Z; lh_keepdims1 := Some 1%Z; lh_keepdims2 := Some 1%Z; lh_sq := SqPowF 2 1; lh_norm := NormRecip |} = None /\
  ln_fires {| lh_xdt := Some FLOAT; lh_eps_singleton := true; lh_axes1 := Some [-1]%Z; lh_axes2 := Some [1]%Z; lh_keepdims1 := Some 1%Z; lh_keepdims2 := Some 1%Z; lh_sq := SqPowF 2 1; lh_norm := NormRecip |} = None /\
  ln_fires {| lh_xdt := Some FLOAT; lh_eps_singleton := true; lh_axes1 := Some [-1]%Z; lh_axes2 := Some [-1]%Z; lh_keepdims1 := Some 0%Z; lh_keepdims2 := Some 1%Z; lh_sq := SqPowF 2 1; lh_norm := NormRecip |} = None /\
  ln_fires {| lh_xdt := Some FLOAT; lh_eps_singleton := true; lh_axes1 := Some [-1]%Z; lh_axes2 := Some [-1]%Z; lh_keepdims1 := Some 1%Z; lh_keepdims2 := Some 1%Z; lh_sq := SqPowF 200001 100000; lh_norm := NormRecip |} = None.
Proof. repeat split; reflexivity. Qed.

Theorem rot_partial_gqa_near_misses :
  rot_fires {| ro_rank := Some 4; ro_dim1 := Some 4%Z; ro_dim3 := Some 8%Z; ro_s1 := Some 0%Z; ro_e1 := Some 4%Z; ro_s2 := Some 4%Z; ro_e2 := Some 8%Z; ro_one1 := Some 1%Z; ro_one2 := Some 1%Z |} = Some 4%Z /\
  rot_fires {| ro_rank := None; ro_dim1 := Some 4%Z; ro_dim3 := Some 8%Z; ro_s1 := Some 0%Z; ro_e1 := Some 4%Z; ro_s2 := Some 4%Z; ro_e2 := Some 8%Z; ro_one1 := Some 1%Z; ro_one2 := Some 1%Z |} = None /\
  rot_fires {| ro_rank := Some 4; ro_dim1 := None; ro_dim3 := Some 8%Z; ro_s1 := Some 0%Z; ro_e1 := Some 4%Z; ro_s2 := Some 4%Z; ro_e2 := Some 8%Z; ro_one1 := Some 1%Z; ro_one2 := Some 1%Z |} = None /\
  rot_fires {| ro_rank := Some 4; ro_dim1 := Some 4%Z; ro_dim3 := Some 8%Z; ro_s1 := Some 0%Z; ro_e1 := None; ro_s2 := Some 4%Z; ro_e2 := Some 8%Z; ro_one1 := Some 1%Z; ro_one2 := Some 1%Z |} = None /\
  rot_fires {| ro_rank := Some 4; ro_dim1 := Some 4%Z; ro_dim3 := Some 8%Z; ro_s1 := Some 0%Z; ro_e1 := Some 4%Z; ro_s2 := Some 4%Z; ro_e2 := Some 7%Z; ro_one1 := Some 1%Z; ro_one2 := Some 1%Z |} = None /\
  rot_fires {| ro_rank := Some 4; ro_dim1 := Some 4%Z; ro_dim3 := Some 8%Z; ro_s1 := Some 0%Z; ro_e1 := Some 4%Z; ro_s2 := Some 4%Z; ro_e2 := Some 8%Z; ro_one1 := Some 2%Z; ro_one2 := Some 1%Z |} = None /\
  partial_fires {| ph_end1 := Some 4%Z; ph_start2 := Some 4%Z; ph_has_dim_attr := false; ph_interleaved := None |} = Some 4%Z /\
  partial_fires {| ph_end1 := Some 4%Z; ph_start2 := Some 5%Z; ph_has_dim_attr := false; ph_interleaved := None |} = None /\
  partial_fires {| ph_end1 := None; ph_start2 := Some 4%Z; ph_has_dim_attr := false; ph_interleaved := None |} = None /\
  partial_fires {| ph_end1 := Some 4%Z; ph_start2 := Some 4%Z; ph_has_dim_attr := true; ph_interleaved := None |} = None /\
  partial_fires {| ph_end1 := Some 4%Z; ph_start2 := Some 4%Z; ph_has_dim_attr := false; ph_interleaved := Some 1%Z |} = None.
Proof. repeat split; reflexivity. Qed.

Section RotLaws.
  Variable F : Type.
  Variable o : fops F.
  Hypothesis Fth : is_field o.

  Lemma to_nat_half : forall n, Z.to_nat (Z.of_nat n / 2) = n / 2.
  Proof. intro n. rewrite <- (Nat2Z.id (n / 2)). f_equal. rewrite Nat2Z.inj_div. reflexivity. Qed.

  (* RotaryEmbedding23Fusion: wherever the side condition holds, on every row x = x1 ++ x2 of the static head size with
     caches of half that length, the matched sub-graph is RotaryEmbedding(interleaved = 0); num_heads = dim 1 of x *)
  Theorem rot_rule_sound : forall h nh s1 e1 s2 e2 (x1 x2 c s : list F),
    rot_fires h = Some nh ->
    ro_s1 h = Some s1 -> ro_e1 h = Some e1 -> ro_s2 h = Some s2 -> ro_e2 h = Some e2 ->
    ro_dim3 h = Some (Z.of_nat (length (x1 ++ x2))) ->
    length x1 = length c -> length x2 = length c -> length s = length c ->
    rope23_pattern F o (x1 ++ x2) c s (Z.to_nat s1) (Z.to_nat e1) (Z.to_nat s2) (Z.to_nat e2) = rope_spec F o (x1 ++ x2) c s
    /\ ro_dim1 h = Some nh /\ ro_rank h = Some 4.
  Proof.
    intros h nh s1 e1 s2 e2 x1 x2 c s H A1 A2 A3 A4 Hd L1 L2 L3. unfold rot_fires in H.
    rewrite A1, A2, A3, A4 in H. destruct (ro_rank h) as [r|]; [|discriminate].
    destruct (oz_is (ro_one1 h) 1 && oz_is (ro_one2 h) 1); [|discriminate].
    destruct (rot_check_bounds _ _ _ _ _ _ _ _ H) as (Hr & Hd1 & hs & Hd3 & B1 & B2 & B3 & B4).
    rewrite Hd in Hd3. inversion Hd3; subst hs. subst s1 e1 s2 r. split; [|auto].
    rewrite to_nat_half. change (Z.to_nat 0) with 0.
    apply (rotary_half_rotation F o Fth x1 x2 c s (Z.to_nat e2)); auto. lia.
  Qed.

  Theorem partial_rule_sound : forall h r e1 s2 (x c s : list F),
    partial_fires h = Some r -> ph_end1 h = Some e1 -> ph_start2 h = Some s2 ->
    Z.of_nat (2 * length c) = e1 ->                 (* RotaryEmbedding on the first slice: its caches have half its length *)
    2 * length c <= length x ->
    partial_pattern F o x c s (Z.to_nat e1) (Z.to_nat s2) = rope_spec F o x c s /\ r = e1 /\
    ph_has_dim_attr h = false /\ (ph_interleaved h = None \/ ph_interleaved h = Some 0%Z).
  Proof.
    intros h r e1 s2 x c s H A1 A2 He Hx. unfold partial_fires in H. rewrite A1, A2 in H. unfold partial_check in H.
    destruct ((e1 =? s2)%Z) eqn:E1; [|discriminate]. destruct (ph_has_dim_attr h); [discriminate|]. cbn in H.
    apply Z.eqb_eq in E1. subst s2.
    assert (Hil : ph_interleaved h = None \/ ph_interleaved h = Some 0%Z).
    { destruct (ph_interleaved h) as [v|]; [|auto]. destruct ((v =? 0)%Z) eqn:E; [|discriminate]. apply Z.eqb_eq in E. subst. auto. }
    assert (r = e1) by (destruct (ph_interleaved h) as [v|]; [destruct ((v =? 0)%Z); [|discriminate]|]; inversion H; auto).
    split; [|auto]. subst e1. rewrite Nat2Z.id. apply partial_rotary_identity; auto.
  Qed.
End RotLaws.

Section GqaLaws.
  Variable A : Type.
  Variable d0 : A.
  Variable attn : list (list A) -> list (list A) -> list (list A) -> option (list (list A)) -> list (list A).

  (* OnnxGroupQueryAttention, values: Attention over keys/values repeated by Unsqueeze(2) / Expand([B,Hkv,G,T,D]) /
     Reshape([B,Hkv*G,T,D]) = Attention with kv_num_heads = Hkv on the un-repeated present key/value, for every
     B, S, T, D, Hkv >= 1, G >= 1, every per-head attention function and mask *)
  Theorem gqa23_rule_sound : forall B S T Hkv G Dh q kseq vseq mask, 0 < Hkv -> 0 < G ->
    gqa23_host A d0 attn B S T Hkv G Dh q kseq vseq mask = gqa23_fused A d0 attn B S T Hkv G Dh q kseq vseq mask.
  Proof.
    intros B S T Hkv G Dh q kseq vseq mask HH HG. unfold gqa23_host, gqa23_fused, attention23.
    apply stack_heads_ext. intros b h Hb Hh.
    assert (E1 : Hkv * G / (Hkv * G) = 1) by (apply Nat.div_same; lia).
    assert (E2 : Hkv * G / Hkv = G) by (rewrite Nat.mul_comm; apply Nat.div_mul; lia).
    rewrite E1, E2, Nat.div_1_r. rewrite !repeat_kv_head by auto. reflexivity.
  Qed.
End GqaLaws.

(* the values theorem needs no positivity: with Hkv = 0 or G = 0 there is no head *)
Section GqaTotal.
  Variable A : Type.
  Variable d0 : A.
  Variable attn : list (list A) -> list (list A) -> list (list A) -> option (list (list A)) -> list (list A).
  Theorem gqa23_rule_sound_total : forall B S T Hkv G Dh q kseq vseq mask,
    gqa23_host A d0 attn B S T Hkv G Dh q kseq vseq mask = gqa23_fused A d0 attn B S T Hkv G Dh q kseq vseq mask.
  Proof.
    intros B S T Hkv G Dh q kseq vseq mask.
    destruct (Nat.eq_dec Hkv 0) as [->|HH]; [|destruct (Nat.eq_dec G 0) as [->|HG]].
    - unfold gqa23_host, gqa23_fused, attention23. apply stack_heads_ext. intros b h _ Hh. cbn in Hh. lia.
    - unfold gqa23_host, gqa23_fused, attention23. apply stack_heads_ext. intros b h _ Hh. rewrite Nat.mul_0_r in Hh. lia.
    - apply gqa23_rule_sound; lia.
  Qed.
End GqaTotal.

(* OnnxGroupQueryAttention, check-sufficiency: what the shipped check establishes about the operand layouts *)
Lemma bind_dims_bound : forall actual names b b', bind_dims b actual names = Some b' ->
  Forall2 (fun a n => lookup b' n = Some a) actual names.
Proof.
  induction actual as [|a at' IH]; intros [|n nt] b b' H; simpl in H; try discriminate; [constructor|].
  destruct (lookup b n) as [w|] eqn:E.
  - destruct (Z.eqb a w) eqn:Ea; [|discriminate]. apply Z.eqb_eq in Ea. subst w.
    constructor; [eapply bind_dims_preserves; eauto|eapply IH; eauto].
  - constructor; [|eapply IH; eauto].
    eapply bind_dims_preserves; eauto. simpl. now rewrite Nat.eqb_refl.
Qed.
Lemma check_all_none : forall l, check_all None l = None.
Proof. induction l as [|[sh names] t IH]; [reflexivity|]. cbn. exact IH. Qed.
Lemma check_all_preserves : forall l b bF k v, check_all (Some b) l = Some bF -> lookup b k = Some v -> lookup bF k = Some v.
Proof.
  induction l as [|[sh names] t IH]; intros b bF k v H L; cbn [check_all] in H; [inversion H; subst; exact L|].
  destruct (check_shape (Some b) sh names) as [b1|] eqn:E; [|rewrite check_all_none in H; discriminate].
  eapply IH; eauto. eapply check_shape_preserves; eauto.
Qed.
Definition bound_in (bF : bindings) (p : option (list Z) * list nat) : Prop :=
  exists s, fst p = Some s /\ Forall2 (fun a n => lookup bF n = Some a) s (snd p).
Lemma check_all_bound : forall l b bF, check_all (Some b) l = Some bF -> Forall (bound_in bF) l.
Proof.
  induction l as [|[sh names] t IH]; intros b bF H; cbn [check_all] in H; [constructor|].
  destruct (check_shape (Some b) sh names) as [b1|] eqn:E; [|rewrite check_all_none in H; discriminate].
  constructor; [|eapply IH; eauto].
  destruct sh as [s|]; [|discriminate]. cbn in E. exists s. split; [reflexivity|]. cbn [snd].
  pose proof (bind_dims_bound _ _ _ _ E) as HF.
  clear E. induction HF as [|a n s' names' Hl HF' IHF]; constructor; [eapply check_all_preserves; eauto|exact IHF].
Qed.

Ltac inv_forall2 :=
  repeat match goal with
         | H : Forall2 _ _ (_ :: _) |- _ => inversion H; clear H; subst
         | H : Forall2 _ _ [] |- _ => inversion H; clear H; subst
         end.
Ltac same_lookup :=
  repeat match goal with
         | H1 : lookup ?b ?k = Some ?x, H2 : lookup ?b ?k = Some ?y |- _ => rewrite H1 in H2; inversion H2; clear H2; subst
         end.

(* whenever the shipped check accepts, the operands are laid out as C05_fusion_gqa_values_partial assumes:
   Q [B,H,S,D]; K, V [B,Hkv,S,D]; past [B,Hkv,P,D]; the Expand results [B,Hkv,G,T,D]; the Reshape results [B,H,T,D];
   H, Hkv, G static with H = Hkv * G; no causal mask requested (T = S + P is the Concat of the pattern) *)
Theorem gqa_shipped_check_sufficient : forall h, gqa_fires h = true ->
  exists B H S D Hkv P T G,
    gh_query h = Some [B; H; S; D] /\ gh_key h = Some [B; Hkv; S; D] /\ gh_value h = Some [B; Hkv; S; D] /\
    gh_past_key h = Some [B; Hkv; P; D] /\ gh_past_value h = Some [B; Hkv; P; D] /\
    gh_present_key h = Some [B; H; T; D] /\ gh_present_value h = Some [B; H; T; D] /\
    gh_expand_key h = Some [B; Hkv; G; T; D] /\ gh_expand_value h = Some [B; Hkv; G; T; D] /\
    (0 <= H /\ 0 <= Hkv /\ 0 <= G /\ H = Hkv * G)%Z /\
    (gh_is_causal h = None \/ gh_is_causal h = Some 0%Z).
Proof.
  intros h H. unfold gqa_fires in H. apply andb_true_iff in H as [Hc H]. apply andb_true_iff in Hc as [_ Hc].
  destruct (check_all (Some []) (gqa_operands h ++ gqa_expands h)) as [bF|] eqn:E; [|discriminate].
  pose proof (check_all_bound _ _ _ E) as HF. unfold gqa_operands, gqa_expands in HF. cbn [app] in HF.
  repeat match goal with H : Forall _ (_ :: _) |- _ => inversion H; clear H; subst end.
  repeat match goal with H : bound_in _ _ |- _ => destruct H as (? & ? & ?) end. cbn [fst snd] in *.
  inv_forall2. same_lookup.
  destruct (lookup bF 1) as [hq|] eqn:L1; [|discriminate]. destruct (lookup bF 4) as [hkv|] eqn:L4; [|discriminate].
  destruct (lookup bF 7) as [g|] eqn:L7; [|discriminate]. same_lookup.
  unfold is_static_dim in H. repeat (apply andb_true_iff in H; destruct H as [H ?]).
  repeat match goal with H : (_ <=? _)%Z = true |- _ => apply Z.leb_le in H end.
  match goal with H : (_ =? _)%Z = true |- _ => apply Z.eqb_eq in H end.
  repeat match goal with H : Some _ = Some _ |- _ => inversion H; clear H; subst end.
  do 8 eexists. repeat (split; [eassumption|]). split; [repeat split; assumption|].
  destruct (gh_is_causal h) as [v|]; [|auto]. apply Z.eqb_eq in Hc. subst. auto.
Qed.

(* the shipped check implies the check it replaced *)
Lemma check_all_app_some : forall l1 l2 b bF, check_all b (l1 ++ l2) = Some bF -> exists b1, check_all b l1 = Some b1.
Proof.
  induction l1 as [|[sh names] t IH]; intros l2 b bF H; cbn [check_all app] in *; [destruct b; [eauto|rewrite check_all_none in H; discriminate]|].
  eapply IH; eauto.
Qed.
Theorem gqa_shipped_refines_legacy : forall h, gqa_fires h = true -> gqa_fires_impl h = true.
Proof.
  intros h H. unfold gqa_fires in H. apply andb_true_iff in H as [Hp H]. apply andb_true_iff in Hp as [Hp _].
  destruct (check_all (Some []) (gqa_operands h ++ gqa_expands h)) as [bF|] eqn:E; [|discriminate].
  destruct (check_all_app_some _ _ _ _ E) as [b1 E1]. unfold gqa_fires_impl, gqa_bindings_impl. now rewrite E1, Hp.
Qed.

(* the check before aa8c462 (legacy) was not sufficient: an Expand that broadcasts a leading group dimension ([G,B,Hkv,1,T,D])
   passed it and repeats the heads in the other order; is_causal = 1 passed it as well (findings C05:fusion:gqa:..., fixed) *)
Definition gqa_witness (expand : list Z) (causal : option Z) : gqa_host :=
  {| gh_query := Some [1; 4; 3; 8]%Z; gh_key := Some [1; 2; 3; 8]%Z; gh_value := Some [1; 2; 3; 8]%Z;
     gh_past_key := Some [1; 2; 2; 8]%Z; gh_past_value := Some [1; 2; 2; 8]%Z;
     gh_present_key := Some [1; 4; 5; 8]%Z; gh_present_value := Some [1; 4; 5; 8]%Z;
     gh_expand_key := Some expand; gh_expand_value := Some expand; gh_is_causal := causal;
     gh_unsq_scalar2 := true; gh_concat_axis := Some (-2)%Z |}.
Theorem gqa_legacy_check_insufficient :
  gqa_fires_v false (gqa_witness [1; 2; 2; 5; 8]%Z None) = true /\
  gqa_fires_v true (gqa_witness [2; 1; 2; 1; 5; 8]%Z None) = true /\ gqa_fires_v false (gqa_witness [2; 1; 2; 1; 5; 8]%Z None) = false /\
  gqa_fires_v true (gqa_witness [1; 2; 2; 5; 8]%Z (Some 1%Z)) = true /\ gqa_fires_v false (gqa_witness [1; 2; 2; 5; 8]%Z (Some 1%Z)) = false.
Proof. repeat split; reflexivity. Qed.

(* the legacy exponent test accepted exponents that are not 2 (findings C05:fusion:{layer-norm,rms-norm}:approximate-pow-exponent, fixed);
   the shipped one is the exact test the soundness theorems use *)
Theorem pow_exponent_legacy_refuted :
  sq_ok true (SqPowF 200001 100000) = true /\ sq_ok false (SqPowF 200001 100000) = false /\
  sq_ok true (SqPowF 2001 1000) = false /\ sq_ok true (SqPowF 4 2) = true /\ sq_ok false (SqPowF 4 2) = true /\
  (forall s, sq_ok false s = true -> sq_ok true s = true).
Proof.
  repeat split; try reflexivity. intros [|n d] H; [reflexivity|]. cbn in *.
  apply andb_true_iff in H as [H1 H2]. apply Z.eqb_eq in H2. subst n. rewrite H1. cbn.
  replace (2 * d - 2 * d)%Z with 0%Z by lia. cbn. apply Z.ltb_lt in H1.
  apply orb_true_iff. right. apply Z.leb_le. lia.
Qed.

(* non-vacuity over Qc *)
From Coq Require Import QArith Qcanon.
Example fusion_example :
  ln_fires ln_ok = Some ((-1)%Z, 1%Z) /\
  ln_host_sem Qc qc_ops (fun v => v) (fun v _ _ => Qcmult v v) ln_ok [Q2Qc 1; Q2Qc 3] [Q2Qc 2; Q2Qc 2] (Q2Qc 0) =
  ln_spec Qc qc_ops (fun v => v) [Q2Qc 1; Q2Qc 3] [Q2Qc 2; Q2Qc 2] None (Q2Qc 0).
Proof. split; [reflexivity|]. vm_compute. reflexivity. Qed.
