(* C11 -- mixed basic + advanced indexing with any number of integer-tensor indices of any rank.
   No proofs in this file.

   Index components (`acomp`): the components of NumpySpec.v (python int, slice, rank-0 tensor, rank-1
   tensor) and `ATN sh data`, an integer tensor index of any rank given by its shape and its row-major data.

   Both NumPy and the two front ends first select, independently on every source axis, the positions an index
   component addresses (`np_index` on the flattened components: negative wrap, bounds error, slice.indices);
   they differ in how the selected positions are *arranged* into result axes:

     outer_arr   every source axis in place: a slice contributes one result axis, a scalar none, a tensor
                 index of shape sT contributes the axes sT where the source axis was.  This is what a chain of
                 ONNX Gather ops (one per tensor index, last axis first) computes, see `conv_nest`/`eager_nest`.
     np_arr      NumPy (numpy.org "Combining advanced and basic indexing"): all advanced indices (ints, rank-0
                 and rank-n tensors) are broadcast together to a shape B; the axes B replace the advanced
                 indices at the position of the first one when they are all next to each other, and go to the
                 front of the result otherwise; the sliced axes follow in source order.

   An arrangement is a loop nest: the result shape (one loop per result axis) and, for every source axis, an
   address: a table of positions indexed by a linear combination of loop variables (stride 0 = broadcast). *)
From Coq Require Import ZArith List Bool.
Import ListNotations.
Require Import OV.Index.NumpySpec OV.Index.OnnxSlice OV.Index.ConverterIdx OV.Index.EagerIdx.
Open Scope Z_scope.

Inductive acomp :=
| AB (c : comp)
| ATN (sh : list Z) (data : list Z).

Definition flat (a : acomp) : comp := match a with AB c => c | ATN _ data => CT1 data end.

(* shape of an advanced index; None = a slice (basic) *)
Definition tshape (a : acomp) : option (list Z) :=
  match a with
  | AB (CInt _) => Some []
  | AB (CT0 _) => Some []
  | AB (CT1 l) => Some [zlen l]
  | AB (CSlice _ _ _) => None
  | ATN sh _ => Some sh
  end.

Definition zprod (l : list Z) : Z := fold_right Z.mul 1 l.
Definition wf_acomp (a : acomp) : bool :=
  match a with ATN sh data => forallb (fun d => 0 <=? d) sh && (zprod sh =? zlen data) | _ => true end.

(* ---- per source axis: what was selected, and by which kind of component ---- *)
Inductive item :=
| ISl (l : list Z)                   (* slice / omitted trailing axis: positions *)
| IAdv (sh : list Z) (l : list Z).   (* advanced index of shape sh: positions, row-major *)

Definition sel_data (s : sel) : list Z := match s with Keep l => l | Pick i => [i] end.

Fixpoint items (aidx : list acomp) (v : view) : list item :=
  match v with
  | [] => []
  | s :: v' =>
      match aidx with
      | [] => ISl (sel_data s) :: items [] v'
      | a :: aidx' =>
          (match tshape a with None => ISl (sel_data s) | Some sh => IAdv sh (sel_data s) end) :: items aidx' v'
      end
  end.

(* ---- broadcasting ---- *)
Definition bdim (a b : Z) : option Z :=
  if a =? b then Some a else if a =? 1 then Some b else if b =? 1 then Some a else None.

Fixpoint bcast_rev (a b : list Z) : option (list Z) :=
  match a with
  | [] => Some b
  | x :: a' =>
      match b with
      | [] => Some a
      | y :: b' => match bdim x y, bcast_rev a' b' with Some d, Some r => Some (d :: r) | _, _ => None end
      end
  end.
Definition bcast (a b : list Z) : option (list Z) := option_map (@rev Z) (bcast_rev (rev a) (rev b)).
Fixpoint bcast_all (l : list (list Z)) : option (list Z) :=
  match l with
  | [] => Some []
  | s :: t => match bcast_all t with Some r => bcast s r | None => None end
  end.

(* ---- loop nests ---- *)
Definition addr := (list (nat * Z) * list Z)%type.       (* terms (loop variable, stride); table of positions *)
Definition nest := (list Z * list addr)%type.            (* loop sizes = result shape; one address per source axis *)

Fixpoint strides (sh : list Z) : list Z :=
  match sh with [] => [] | _ :: t => zprod t :: strides t end.

(* the terms addressing a tensor of shape sT, right-aligned in a broadcast block of nB loops starting at loop p *)
Definition bterms (nB : nat) (sT : list Z) (p : nat) : list (nat * Z) :=
  map (fun q => ((p + (nB - length sT) + fst q)%nat, if fst (snd q) =? 1 then 0 else snd (snd q)))
      (enum_from 0 (combine sT (strides sT))).

Definition is_isl (it : item) : bool := match it with ISl _ => true | IAdv _ _ => false end.
Definition is_iadv (it : item) : bool := negb (is_isl it).
Definition is_nonscalar (it : item) : bool := match it with IAdv (_ :: _) _ => true | _ => false end.

(* outer arrangement: j = number of loops allocated so far *)
Fixpoint outer_arr (j : nat) (its : list item) : nest :=
  match its with
  | [] => ([], [])
  | ISl l :: t => let r := outer_arr (S j) t in (zlen l :: fst r, ([(j, 1)], l) :: snd r)
  | IAdv sh l :: t =>
      let r := outer_arr (j + length sh) t in (sh ++ fst r, (bterms (length sh) sh j, l) :: snd r)
  end.

(* NumPy's arrangement *)
Definition adv_shapes (its : list item) : list (list Z) :=
  flat_map (fun it => match it with IAdv sh _ => [sh] | ISl _ => [] end) its.
Definition slice_lens (its : list item) : list Z :=
  flat_map (fun it => match it with ISl l => [zlen l] | IAdv _ _ => [] end) its.

Fixpoint take_while {A} (p : A -> bool) (l : list A) : list A :=
  match l with [] => [] | x :: t => if p x then x :: take_while p t else [] end.

(* the advanced indices are all next to each other *)
Definition adjacent (its : list item) : bool :=
  forallb is_isl (drop_while is_iadv (drop_while is_isl its)).
(* number of sliced axes in front of the broadcast block *)
Definition place (its : list item) : nat :=
  if adjacent its then length (take_while is_isl its) else O.

(* k = ordinal of the next slice among the slices *)
Fixpoint np_addrs (nB p k : nat) (its : list item) : list addr :=
  match its with
  | [] => []
  | ISl l :: t => ([((if Nat.ltb k p then k else k + nB)%nat, 1)], l) :: np_addrs nB p (S k) t
  | IAdv sh l :: t => (bterms nB sh p, l) :: np_addrs nB p k t
  end.

Definition np_arr (its : list item) : option nest :=
  match bcast_all (adv_shapes its) with
  | None => None                                 (* IndexError: shape mismatch, could not be broadcast *)
  | Some B =>
      let p := place its in
      let sl := slice_lens its in
      Some (firstn p sl ++ B ++ skipn p sl, np_addrs (length B) p 0 its)
  end.

(* ---- the three results ---- *)
Definition np_nest (shape : list Z) (aidx : list acomp) : option nest :=
  match np_index shape (map flat aidx) with
  | None => None
  | Some v => np_arr (items aidx v)
  end.

Definition outer_nest (shape : list Z) (aidx : list acomp) : option nest :=
  option_map (fun v => outer_arr 0 (items aidx v)) (np_index shape (map flat aidx)).

(* the converter's Slice / Squeeze / Gather chain (ConverterIdx.conv_ops, Gather axes numbered as after 9cf507a);
   a Gather with an index tensor of shape sT is the Gather with the flattened index followed by the reshape of
   that axis into sT (Gather-13: output rank q + r - 1, the index axes where the gathered axis was) *)
Definition conv_nest (shape : list Z) (aidx : list acomp) : option nest :=
  option_map (fun v => outer_arr 0 (items aidx v)) (run_conv true shape (map flat aidx)).
Definition eager_nest (shape : list Z) (aidx : list acomp) : option nest :=
  option_map (fun v => outer_arr 0 (items aidx v)) (run_eager true shape (map flat aidx)).

(* shapes of the index operands of the emitted Gather ops, in emission order *)
Definition is_aslice (a : acomp) : bool := match tshape a with None => true | Some _ => false end.
Definition is_acint (a : acomp) : bool := is_cint (flat a).
Definition is_atensor (a : acomp) : bool := is_tensor (flat a).
Definition oshape (a : acomp) : list Z := match tshape a with Some sh => sh | None => [] end.

Definition conv_gshapes (aidx : list acomp) : list (list Z) :=
  let en := enum_from 0 aidx in
  let tens := filter (fun p => is_atensor (snd p)) en in
  let scalars := filter (fun p => is_acint (snd p)) en in
  let slice_path := existsb (fun a => is_sliced (flat a)) aidx || Nat.ltb 1 (length scalars) in
  map (fun p => oshape (snd p)) (sort_desc (if slice_path then tens else (tens ++ scalars)%list)).

Definition eager_gshapes (aidx : list acomp) : list (list Z) :=
  let nonscalar := filter (fun a => is_t1 (flat a)) aidx in
  let scalars := filter (fun a => is_escalar (flat a)) aidx in
  let lone := negb (existsb (fun a => is_sliced (flat a)) aidx) && Nat.eqb (length scalars) 1 in
  ((if lone then [[]] else []) ++ map oshape (rev nonscalar))%list.

(* ---- what a nest denotes for X = arange(prod shape).reshape(shape) ---- *)
Definition eval_addr (a : addr) (env : list Z) : Z :=
  nth (Z.to_nat (fold_right Z.add 0 (map (fun t => nth (fst t) env 0 * snd t) (fst a)))) (snd a) 0.

Fixpoint multi (loops : list Z) : list (list Z) :=
  match loops with
  | [] => [[]]
  | d :: t => flat_map (fun i => map (cons i) (multi t)) (zrange d)
  end.

Definition nest_data (shape : list Z) (n : nest) : list Z :=
  map (fun env => fold_right Z.add 0 (map (fun q => eval_addr (fst q) env * snd q) (combine (snd n) (strides shape))))
      (multi (fst n)).

(* ---- index forms ---- *)
Inductive kind := KSl | KAdv (r : nat).     (* slice / advanced index of rank r *)
Definition kind_of (it : item) : kind := match it with ISl _ => KSl | IAdv sh _ => KAdv (length sh) end.
Definition form_of (its : list item) : list kind := map kind_of its.
Definition akind (a : acomp) : kind := match tshape a with None => KSl | Some sh => KAdv (length sh) end.

Definition k_sl (k : kind) : bool := match k with KSl => true | _ => false end.
Definition k_ns (k : kind) : bool := match k with KAdv (S _) => true | _ => false end.
Definition k_adjacent (f : list kind) : bool :=
  forallb k_sl (drop_while (fun k => negb (k_sl k)) (drop_while k_sl f)).
(* no slice in front of the first non-scalar tensor index *)
Definition k_no_slice_before_ns (f : list kind) : bool :=
  negb (existsb k_sl (take_while (fun k => negb (k_ns k)) f)).

(* the forms on which the outer arrangement IS NumPy's: at most one tensor index of rank >= 1, and that one either
   in one block with all other advanced (scalar) indices or with no slice in front of it *)
Definition good_form (f : list kind) : bool :=
  let nns := length (filter k_ns f) in
  (nns =? 0)%nat || ((nns =? 1)%nat && (k_adjacent f || k_no_slice_before_ns f)).

(* the smallest instance of a form: every sliced axis has two positions, every tensor index has shape (1,..,1) *)
Definition wit_item (k : kind) : item :=
  match k with KSl => ISl [0; 1] | KAdv r => IAdv (repeat 1 r) [0] end.
Definition wit (f : list kind) : list item := map wit_item f.
Definition wit_shape (f : list kind) : list Z := map (fun _ => 2) f.
Definition wit_acomp (k : kind) : acomp :=
  match k with
  | KSl => AB (CSlice BNone BNone BNone)
  | KAdv O => AB (CT0 0)
  | KAdv r => ATN (repeat 1 r) [0]
  end.
Definition wit_idx (f : list kind) : list acomp := map wit_acomp f.
