(* C08 property theorems, dim handling of aten_gather, aten_softmax / aten__softmax / aten__log_softmax, aten_sort: statements only.

   Only the trace-time logic is modelled: rank-0 branches (Identity / Expand / Unsqueeze ... Squeeze), the axis attribute
   handed to GatherElements / Softmax / LogSoftmax / TopK (accepted range [-rank, rank - 1], rank >= 1), rank agreement.
   NOT covered: the kernels themselves (values: direct oracle only), dtype handling, aten_topk on 0-d / empty input
   (a listed skip of the repository's test table). *)
From Coq Require Import ZArith List Bool.
Require Import OV.Torch.Onnx OV.Torch.Onnx2 OV.Torch.Spec OV.Torch.Spec2 OV.Torch.Aten OV.Torch.Aten2
               OV.Torch.ShapeProofs OV.Torch.WindowProofs OV.Torch.Examples2.
Import ListNotations.
Local Open Scope Z_scope.

Theorem C08_gather_shape : forall s dim idx out,
  shape_ok idx -> torch_gather_shape s dim idx = Some out -> aten_gather_shape s dim idx = Some out.
Proof. exact gather_shape_correct. Qed.
Print Assumptions C08_gather_shape.

Theorem C08_softmax_dim : forall s dim out, torch_dim_only s dim = Some out -> aten_softmax_shape s dim = Some out.
Proof. exact softmax_shape_correct. Qed.
Print Assumptions C08_softmax_dim.

Theorem C08_sort_dim : forall s dim out, torch_dim_only s dim = Some out -> aten_sort_shape s dim = Some out.
Proof. exact sort_shape_correct. Qed.
Print Assumptions C08_sort_dim.
