(* C03, session 6: the function-inlining stage of optimize_ir (onnx_ir InlinePass) and RemoveUnusedFunctionsPass as Gallina models
   with theorems; optimize_ir with inline=True without any hypothesis about inlining.
   Model: coq/Opt/InlineFn.v (inl_nodes / inl_subs / inl_graph, inline_model; fsem = the kernels of a model with function table: a
   call is the evaluation of the callee's body, formals bound to the actuals, reference attributes bound, nested calls one level
   down).  Proofs: coq/Opt/InlineFnProofs.v, coq/Opt/OptimizeIrFn.v.  Tie: harness/c03_inline.py (the real InlinePass observed
   on every generated model with functions, the names it chose handed to the model as its oracle, result compared in Coq). *)
From Coq Require Import List String ZArith Bool.
Require Import OV.Graph.Syntax OV.Graph.Sem OV.Builder.Inline.
Require Import OV.Opt.Fold OV.Opt.FoldProofs OV.Opt.FoldTheorems OV.Opt.Inits OV.Opt.InitsProofs OV.Opt.PipelineProofs.
Require OV.Opt.StagesProofs.
Require Import OV.Opt.InlineFn OV.Opt.InlineFnProofs OV.Opt.OptimizeIrFn.
Import ListNotations.

(* InlinePass: for ARBITRARY kernels, any function table on which the model terminates (a recursive set exhausts the fuel: None), calls at
   any nesting depth (main graph, If / Loop bodies, bodies of inlined functions), any names chosen by the pass that pass the executable
   side conditions: whatever the model computes with calls read as function bodies (call chains up to any k, body nesting fuel N), the
   inlined graph computes with the plain kernels and no function table.
   NOT covered: functions returning one of their formals or the same value twice (the model refuses: the real pass renames a value of the
   caller - known finding C04:inline:function-returns-its-input:graph-input-renamed), overloads, the opset-version clash check. *)
Theorem C03_inline_pass_sound : forall V sem truth trip of_nat of_bool limit N fu ft names_oracle g g',
  inline_model fu ft names_oracle g = Some g' ->
  forall k F e args r,
    eval_graph V (fsem V sem truth trip of_nat of_bool limit N ft k) truth trip of_nat of_bool limit F e g args = Some r ->
    eval_graph V sem truth trip of_nat of_bool limit (F + fu * N) e g' args = Some r.
Proof. exact inline_model_sound. Qed.
Print Assumptions C03_inline_pass_sound.

(* the general form: any kernel K that justifies its calls by the evaluation of the callee's body under K *)
Theorem C03_inline_any_kernel : forall V K truth trip of_nat of_bool limit ft N,
  (forall d o f attrs vs rs, find_fn ft d o = Some f -> K d o attrs vs = Some rs ->
     call_sem V K truth trip of_nat of_bool limit N f attrs vs = Some rs) ->
  forall fu, nodes_ok V K truth trip of_nat of_bool limit ft N fu /\ subs_ok V K truth trip of_nat of_bool limit ft N fu /\
             graph_ok V K truth trip of_nat of_bool limit ft N fu.
Proof. exact inl_all_ok. Qed.
Print Assumptions C03_inline_any_kernel.

(* the kernels of a model with functions do justify their calls, at every bound on the call chain *)
Theorem C03_function_kernels_unfold : forall V sem truth trip of_nat of_bool limit N ft k d o f attrs vs rs,
  find_fn ft d o = Some f -> fsem V sem truth trip of_nat of_bool limit N ft k d o attrs vs = Some rs ->
  call_sem V (fsem V sem truth trip of_nat of_bool limit N ft k) truth trip of_nat of_bool limit N f attrs vs = Some rs.
Proof. exact fsem_unfolds. Qed.
Print Assumptions C03_function_kernels_unfold.

(* evaluation is monotone in the kernels and reads them only at the (domain, op) pairs that occur in the graph (nested graphs included) *)
Theorem C03_eval_reads_only_occurring_kernels : forall V sem1 sem2 truth trip of_nat of_bool limit F e g args r,
  krel V sem1 sem2 (ops_graph g) ->
  eval_graph V sem1 truth trip of_nat of_bool limit F e g args = Some r ->
  eval_graph V sem2 truth trip of_nat of_bool limit F e g args = Some r.
Proof. exact eval_graph_sem_rel. Qed.
Print Assumptions C03_eval_reads_only_occurring_kernels.

(* RemoveUnusedFunctionsPass: the meaning of the model (calls = function bodies) is unchanged by dropping the functions that are not
   reachable from the main graph *)
Theorem C03_remove_unused_functions_sound : forall V sem truth trip of_nat of_bool limit N g ft k F e args r,
  eval_graph V (fsem V sem truth trip of_nat of_bool limit N ft k) truth trip of_nat of_bool limit F e g args = Some r ->
  eval_graph V (fsem V sem truth trip of_nat of_bool limit N (remove_unused_functions_fn g ft) k) truth trip of_nat of_bool limit F e g args = Some r.
Proof. exact remove_unused_functions_sound. Qed.
Print Assumptions C03_remove_unused_functions_sound.

(* optimize_ir(inline=True), every option tuple: no hypothesis about InlinePass, RemoveUnusedFunctions / RemoveUnusedOpsets (identity on the
   inlined graph: its meaning reads no table), NameFix (C07's theorem), lift / hoist / dedup / DCE / CSE (models).  Left: the Constant /
   reference-evaluator / Identity oracles, pe_ok, rule_sound per rewrite rule - about the plain kernels only. *)
Theorem C03_optimize_ir_with_functions_sound : forall V sem truth trip of_nat of_bool limit tok_val ref_eval const_val attr_of_val v_dtype v_dims v_ints v_tensor pe rules N,
  const_oracle V sem tok_val ->
  oracles V sem truth ref_eval const_val attr_of_val v_dtype v_ints ->
  pe_ok V sem truth trip of_nat of_bool limit pe ->
  Forall (StagesProofs.rule_sound V sem truth trip of_nat of_bool limit) rules ->
  forall ifuel names_oracle cfg depth fuel rn vis f num_iterations stop_if_no_change m ft m' b,
    optimize_ir_inlined V tok_val ref_eval const_val attr_of_val v_dtype v_dims v_ints v_tensor pe rules
                        ifuel names_oracle cfg depth fuel rn vis f num_iterations stop_if_no_change m ft = Some (m', b) ->
    forall k F args r,
      eval_model V (fsem V sem truth trip of_nat of_bool limit N ft k) truth trip of_nat of_bool limit tok_val F [] (fst m) (snd m) args = Some r ->
      exists F', eval_model V sem truth trip of_nat of_bool limit tok_val F' [] (fst m') (snd m') args = Some r.
Proof. exact optimize_ir_inlined_sound. Qed.
Print Assumptions C03_optimize_ir_with_functions_sound.

Theorem C03_inline_nonvacuous :
  (exists g', inline_model 40 ex_ft ex_oracle ex_main = Some g' /\ no_calls ex_ft g' = true /\ no_calls ex_ft ex_main = false /\
     eval_graph Z toy_sem toy_truth toy_trip toy_of_nat toy_of_bool 10 3 [] g' [3%Z; (-3)%Z] = Some [15%Z] /\
     eval_graph Z toy_sem toy_truth toy_trip toy_of_nat toy_of_bool 10 3 [] g' [3%Z; 4%Z] = Some [23%Z])
  /\ eval_graph Z (ex_fsem ex_ft 2) toy_truth toy_trip toy_of_nat toy_of_bool 10 3 [] ex_main [3%Z; (-3)%Z] = Some [15%Z]
  /\ eval_graph Z (ex_fsem ex_ft 2) toy_truth toy_trip toy_of_nat toy_of_bool 10 3 [] ex_main [3%Z; 4%Z] = Some [23%Z]
  /\ eval_graph Z (ex_fsem ex_ft 1) toy_truth toy_trip toy_of_nat toy_of_bool 10 3 [] ex_main [3%Z; (-3)%Z] = None
  /\ map f_name (remove_unused_functions_fn ex_main ex_ft) = ["f"; "g"]%string
  /\ eval_graph Z (ex_fsem (remove_unused_functions_fn ex_main ex_ft) 2) toy_truth toy_trip toy_of_nat toy_of_bool 10 3 [] ex_main [3%Z; 4%Z] = Some [23%Z].
Proof. exact inline_example. Qed.
Print Assumptions C03_inline_nonvacuous.
