"""C18 part 4 -- module trees with SHARED objects (Parameter objects, whole sub-modules).

Theorems: coq/Props/C18_modules.v (model coq/Builder/Modules.v, section "sharing").

Two correspondence streams, both run the REAL nn classes first and let Coq print only disagreeing indices:

  P  construction programs (c18_trees specs) in which one Parameter object is registered in several places
     (same module under two keys, siblings, parent/child, through ModuleList / Sequential / slices,
     constructor + early + late appends, 3-way); the model is `construct cf spec`.
  T  object graphs built by random operations on the real classes, including registering an EXISTING
     module a second time (other parent / other key / appended to a container, which renames it);
     the object graph is read off the real objects just before the call and printed as an `mtree`.

Compared per case: graph.initializers as (name, which Parameter object) in dict order = `init_dict`,
named_parameters() as (key, which object) = `sd_entries`, initializer names = `realised_names`.
Checked per case: the decision of the proved equivalence (`nodup_natb (param_ids t)`) predicts exactly whether
the real names are root + state_dict keys whenever the theorem's hypotheses hold, and the real names are
root + first-registration keys there.

Name collisions (two DIFFERENT Parameter objects under one qualified name): `probe_collision` observes on one
minimal program whether Parameter._realize silently replaces the earlier initializer (as read) or raises a
ValueError naming the initializer (proposed fix); the model is evaluated with that flag (`call_result`), and a
real run that raised agrees with the model iff the model raises for the same name.
"""
from __future__ import annotations

import re
import time

from harness import c18_trees as T
from harness.common import cbool, clist, cnat, copt, cstr

REQ = ["OV.Builder.Strings", "OV.Builder.Modules", "OV.Builder.ModulesProofs"]

K_SHARED = "C18:naming:shared-parameter-object"       # known finding
# the next two classes were found by this stream; they are reported under their own key only once that key
# is listed in known_findings.json, until then under K_SHARED (same root cause) and counted in the coverage
K_SUBMOD = "C18:naming:shared-submodule"              # initializer name is not root + any state_dict key
K_COLLIDE = "C18:naming:shared-parameter-name-collision"   # two Parameter objects get one name, one initializer is lost


def cfg_lit(cfg):
    return f"(Cfg {cbool(cfg['realize_uses_root_scope'])} {cbool(cfg['container_renames_named_child'])} {cbool(cfg['unattached_list_propagates'])})"


def _bools(s):
    return [x == "true" for x in re.findall(r"true|false", s)]


def _nats(s):
    return [int(x) for x in re.findall(r"\d+", s)]


def _pairs_lit(l):
    return clist([f"({cstr(k)}, {cnat(i)})" for k, i in l])


def _is_known(ctx, key):
    return any(f.get("status", "known") == "known" and f.get("key") == key for f in getattr(ctx, "findings", []))


def chk_lit(cfg):
    return cbool(bool(cfg.get("raises_on_collision", False)))


def probe_collision(ctx):
    """Which variant of Parameter._realize is this?  One minimal colliding program (w_collide_explicit of
    C18_silent_loss_refuted): two different Parameter objects, the second one explicitly named like the first
    (root.w twice; names chosen by the caller, so the silent variant is not reported as a finding by itself).
      as read : the call returns, graph.initializers == {root.w: <the second object>}   -> False
      patched : ValueError mentioning 'root.w', raised before the second object is stored  -> True
    anything else -> broken tie (fail-closed)."""
    spec = ("mod", "root", [("w", 0, None), ("v", 1, "w")], [], False)
    try:
        r = T.run_spec(spec)
    except Exception as e:  # noqa: BLE001
        ctx.tie_broken("translator", "probe:name-collision", f"two parameters named root.w: {type(e).__name__}: {str(e)[:300]}")
        return False
    if r["error"] == "NameCollision" and r["collision"] == "root.w":
        return True
    if r["error"] is None and r["inits"] == ["root.w"] and r["init_ids"].get("root.w") == r["param_ids"][1] \
            and r["realized"] == {0: True, 1: True}:
        return False
    ctx.tie_broken("translator", "probe:name-collision",
                   f"two parameters named root.w: error {r['error']} ({r.get('collision')!r}), initializers {r['inits']}")
    return False


# ----------------------------------------------------------------------------- stream P: programs

def _leaf(nm, pid, key="weight"):
    return ("mod", nm, [(key, pid, None)], [], False)


def fixed_programs():
    """Hand-written programs: one Parameter object in every position."""
    L = _leaf
    out = {
        # the program of Example C18_sharing_hypotheses_satisfiable
        "ex_shared": ("mod", "model", [("scale", 0, None), ("gain", 0, None)],
                      [("layers", ("cont", False,
                                   [("mod", None, [("w", 1, None)],
                                     [("mlp", ("cont", True, [L(None, 2), L(None, 2)], [], [L(None, 3)]))], False)],
                                   [], [L(None, 2)])),
                       ("head", ("mod", "head", [("w", 1, None), ("weight", 4, None)], [("inner", L(None, 4))], False)),
                       ("tail", L(None, 5))], False),
        "w_shared_late_first": ("mod", "root", [], [("l", ("cont", False,
                                                          [("cont", False, [], [], [("mod", None, [("w", 0, None)], [], False)]),
                                                           ("mod", None, [("v", 0, None)], [], False)], [], []))], False),
        "same_module_two_keys": ("mod", "root", [("w", 0, None), ("v", 0, None)], [], False),
        "same_module_two_keys_unnamed_root": ("mod", None, [("w", 0, None), ("v", 0, None), ("u", 1, None)], [], False),
        "siblings": ("mod", "root", [], [("a", L(None, 0)), ("b", L(None, 0))], False),
        "siblings_other_key": ("mod", "root", [], [("a", L(None, 0, "w")), ("b", L(None, 0, "v"))], False),
        "parent_child": ("mod", "root", [("weight", 0, None)], [("a", L(None, 0))], False),
        "parent_grandchild": ("mod", "root", [("weight", 0, None)],
                              [("a", ("mod", None, [("bias", 1, None)], [("b", L(None, 0))], False))], False),
        "through_list": ("mod", "root", [], [("l", ("cont", False, [L(None, 0), L(None, 0)], [], []))], False),
        "through_list_late": ("mod", "root", [], [("l", ("cont", False, [L(None, 0)], [L(None, 1)], [L(None, 0)]))], False),
        "through_seq": ("mod", "root", [], [("s", ("cont", True, [L(None, 0), L(None, 1), L(None, 0)], [], []))], False),
        "seq_root": ("cont", True, [L(None, 0), L(None, 0)], [], []),
        "list_and_attr": ("mod", "m", [], [("l", ("cont", False, [L(None, 0), L(None, 1)], [], [])), ("head", L("head", 0))], False),
        "three_way": ("mod", "root", [("weight", 0, None)], [("a", L(None, 0)), ("b", L(None, 0))], False),
        "three_way_containers": ("mod", "root", [],
                                 [("l", ("cont", False, [L(None, 0)], [], [L(None, 0)])),
                                  ("s", ("cont", True, [L(None, 1), L(None, 0)], [], []))], False),
        "two_shared_objects": ("mod", "root", [("w", 0, None), ("b", 1, None)],
                               [("a", ("mod", None, [("w", 0, None), ("b", 1, None)], [], False))], False),
        "slice_shared": ("mod", "root", [], [("t", ("slice", 0, 2, ("cont", False, [L(None, 0), L(None, 0), L(None, 1)], [], [])))], False),
        "explicit_name_first": ("mod", "root", [], [("a", ("mod", None, [("w", 0, "w")], [], False)),
                                                    ("b", ("mod", None, [("w", 0, None)], [], False))], False),
    }
    return out


EXPECTED_P = {
    # name -> (initializer names, state_dict keys) as stated in the Coq Examples / refutations
    "ex_shared": (["model.scale", "model.layers.0.w", "model.layers.0.mlp.0.weight", "model.layers.0.mlp.2.weight",
                   "model.head.weight", "model.tail.weight"],
                  ["scale", "gain", "layers.0.w", "layers.0.mlp.0.weight", "layers.0.mlp.1.weight", "layers.0.mlp.2.weight",
                   "layers.1.weight", "head.w", "head.weight", "head.inner.weight", "tail.weight"]),
    "w_shared_late_first": (["root.l.0.0.v"], ["l.0.0.w", "l.1.v"]),
}
# witnesses of C18_silent_loss_refuted: name -> the one name two Parameter objects are realised under
# (as read: the only initializer; with the check: the name in the ValueError)
# (the third witness, w_collide_explicit, has no shared object: it is the program of `probe_collision`)
EXPECTED_COLLISION = {"w_collide_shared": "root.b.bias", "w_collide_submod": "root.y.a.w"}


def _check_collision_witness(ctx, cfg, name, obs):
    want = EXPECTED_COLLISION[name]
    if cfg.get("raises_on_collision"):
        ok = obs.get("raised") == want
    else:
        ok = obs.get("raised") is None and [k for k, _ in obs["inits"]] == [want] and len({p for _k, p in obs["named"]}) == 2
    if not ok:
        ctx.tie_broken("correspondence", f"sharing:witness:{name}",
                       f"raised {obs.get('raised')!r}, initializers {obs['inits']}, named_parameters {obs['named']}; "
                       f"Props/C18_modules.v (C18_silent_loss_refuted, raises_on_collision = {bool(cfg.get('raises_on_collision'))}) states {want}")


def share_pids(rng, spec, same_key_bias=0.6):
    """Merge two registrations into one Parameter object; prefer two registrations under the same key
    (then every registration carries the object's own name)."""
    regs = []

    def walk(s):
        if s[0] == "mod":
            for k, p, _e in s[2]:
                regs.append((k, p))
            for _k, c in s[3]:
                walk(c)
        elif s[0] == "cont":
            for c in s[2] + s[3] + s[4]:
                walk(c)
        else:
            walk(s[3])
    walk(spec)
    pids = sorted({p for _k, p in regs})
    if len(pids) < 2:
        return spec, False
    a = b = None
    if rng.random() < same_key_bias:
        by_key = {}
        for k, p in regs:
            by_key.setdefault(k, set()).add(p)
        cands = [sorted(v) for v in by_key.values() if len(v) >= 2]
        if cands:
            a, b = rng.sample(rng.choice(cands), 2)
    if a is None:
        a, b = rng.sample(pids, 2)
    a, b = min(a, b), max(a, b)

    def sub(s):
        if s[0] == "mod":
            ps, seen = [], set()
            for k, p, e in s[2]:
                ps.append((k, a if p == b else p, e))
            return ("mod", s[1], ps, [(k, sub(c)) for k, c in s[3]], s[4])
        if s[0] == "cont":
            return ("cont", s[1], [sub(c) for c in s[2]], [sub(c) for c in s[3]], [sub(c) for c in s[4]])
        return ("slice", s[1], s[2], sub(s[3]))
    return sub(spec), True


def _observe_spec(spec, opts):
    r = T.run_spec(spec, opts)
    obj2pid = {v: k for k, v in r["param_ids"].items()}
    named = [(k, obj2pid[i]) for k, i in zip(r["named"], r["sd_ids"])]
    root = (spec[1] or "") if spec[0] == "mod" else ""
    if r["error"] == "NameCollision":
        # Parameter._realize refused to store a second Parameter object under a name already in use
        return {"inits": [], "named": named, "root": root, "sd": r["sd"], "all_inits": [], "never_realised": [],
                "raised": r["collision"], "message": r.get("collision_message")}
    if r["error"]:
        return None
    inits = [(k, obj2pid[v]) for k, v in r["init_ids"].items() if v in obj2pid]
    return {"inits": inits, "named": named, "root": root, "sd": r["sd"], "all_inits": r["all_inits"], "raised": None,
            "never_realised": sorted(pid for pid, f in r["realized"].items() if not f and pid in {p for _k, p in named})}


# ----------------------------------------------------------------------------- stream T: object graphs

def _classes():
    from onnxscript.nn import Module, ModuleList, Sequential

    class Node(Module):
        def forward(self, op, x):
            for p in self._parameters.values():
                x = op.Add(x, p)
            for c in self._modules.values():
                x = _call(c, op, x)
            return x

    def _call(obj, op, x):
        if isinstance(obj, ModuleList) and not isinstance(obj, Sequential):
            for c in obj:
                x = _call(c, op, x)
            return x
        return obj(op, x)

    return Node, ModuleList, Sequential, _call


def _new_param(counter):
    import numpy as np
    import onnx_ir as ir
    from onnxscript.nn import Parameter

    n = counter[0]
    counter[0] += 1
    return Parameter([2], data=ir.tensor(np.array([n + 1, -(n + 1)], dtype=np.float32)))


def _kind(obj):
    from onnxscript.nn import ModuleList, Sequential
    if isinstance(obj, Sequential):
        return "KSeq"
    if isinstance(obj, ModuleList):
        return "KList"
    return "KMod"


def _descendants(obj, acc=None):
    acc = acc if acc is not None else set()
    if id(obj) in acc:
        return acc
    acc.add(id(obj))
    for c in obj._modules.values():
        _descendants(c, acc)
    return acc


def snapshot(root):
    """The real object graph as an mtree literal (read before the call: Parameter._realize overwrites
    Parameter.name).  Returns (literal, pid_of: id(Parameter) -> nat, stats)."""
    pid_of = {}
    seen_mods = {}
    stats = {"shared_modules": 0, "nodes": 0}

    def walk(obj):
        stats["nodes"] += 1
        seen_mods[id(obj)] = seen_mods.get(id(obj), 0) + 1
        ps = []
        for key, p in obj._parameters.items():
            pid = pid_of.setdefault(id(p), len(pid_of))
            ps.append(f"(PE {cstr(key)} {cnat(pid)} {cstr(p.name if p.name is not None else '')})")
        cs = [f"({cstr(key)}, {walk(c)})" for key, c in obj._modules.items()]
        return f"(MT {_kind(obj)} {copt(obj._name, cstr)} {clist(ps)} {clist(cs)} false)"
    lit = walk(root)
    stats["shared_modules"] = sum(1 for v in seen_mods.values() if v > 1)
    return lit, pid_of, stats


KEYS = ["a", "b", "c", "fc", "proj", "attn", "mlp", "norm", "head", "w1"]
PKEYS = ["w", "v", "weight", "bias", "scale"]


def gen_object_graph(rng, n_ops, share=0.35):
    """Random operations on the real classes.  Returns (root, ops log)."""
    Node, ModuleList, Sequential, _call = _classes()
    counter = [0]
    root = rng.choice([lambda: Node("root"), lambda: Node("model"), lambda: Node(), lambda: Node("root")])()
    mods = [root]          # every module object created (each once)
    params = []
    log = []

    def plain():
        return [m for m in mods if _kind(m) == "KMod"]

    def fresh_key(parent, pool):
        free = [k for k in pool if k not in parent._modules and k not in parent._parameters]
        return rng.choice(free) if free else None

    def new_node():
        n = Node()
        if rng.random() < 0.8:
            p = _new_param(counter)
            params.append(p)
            setattr(n, rng.choice(PKEYS), p)
        mods.append(n)
        return n

    def can_hold(parent, child):
        """no cycle; a ModuleList is not callable from inside a Sequential"""
        if id(parent) in _descendants(child):
            return False
        if _kind(parent) == "KSeq" and _kind(child) == "KList":
            return False
        return True

    for _ in range(n_ops):
        r = rng.random()
        if r < share and len(mods) > 1:
            # register an EXISTING module a second time
            child = rng.choice(mods[1:])
            parent = rng.choice(mods)
            if parent is child or not can_hold(parent, child):
                continue
            if _kind(parent) == "KMod":
                key = None
                if child._name and "." not in child._name and rng.random() < 0.5 \
                        and child._name not in parent._modules and child._name not in parent._parameters:
                    key = child._name          # the key that is its name
                key = key or fresh_key(parent, KEYS)
                if key is None:
                    continue
                setattr(parent, key, child)
                log.append(("share-module-attr", key))
            else:
                parent.append(child)
                log.append(("share-module-append", _kind(parent)))
        elif r < share + 0.15 and params:
            # register an EXISTING Parameter a second time
            p = rng.choice(params)
            parent = rng.choice(plain())
            key = p.name if (p.name and rng.random() < 0.6 and p.name not in parent._parameters
                             and p.name not in parent._modules and "." not in p.name) else fresh_key(parent, PKEYS)
            if key is None:
                continue
            setattr(parent, key, p)
            log.append(("share-param", key))
        else:
            what = rng.choice(["node", "node", "list", "seq", "append", "param"])
            if what == "param":
                parent = rng.choice(plain())
                key = fresh_key(parent, PKEYS)
                if key is None:
                    continue
                p = _new_param(counter)
                params.append(p)
                setattr(parent, key, p)
                log.append(("param", key))
            elif what == "append":
                conts = [m for m in mods if _kind(m) != "KMod"]
                if not conts:
                    continue
                rng.choice(conts).append(new_node())
                log.append(("append",))
            else:
                parent = rng.choice(plain())
                key = fresh_key(parent, KEYS)
                if key is None:
                    continue
                if what == "node":
                    c = new_node()
                else:
                    kids = [new_node() for _ in range(rng.choice([1, 1, 2, 3]))]
                    c = Sequential(*kids) if what == "seq" else ModuleList(kids)
                    mods.append(c)
                setattr(parent, key, c)
                log.append((what, key))
    return root, log


def fixed_graphs():
    """The object graphs of the Coq witnesses (Props/C18_modules.v) and the sharing positions for whole
    sub-modules, built on the real classes.  name -> (builder, expected initializer names | None, expected sd | None)"""
    Node, ModuleList, Sequential, _call = _classes()
    counter = [0]

    def leaf(key="w"):
        n = Node()
        setattr(n, key, _new_param(counter))
        return n

    def par(name, **kw):
        n = Node(name)
        for k, v in kw.items():
            setattr(n, k, v)
        return n

    def same_key():
        m = leaf()
        return par("root", x=par(None, a=m), y=par(None, a=m))

    def two_keys():
        m = leaf()
        return par("root", a=m, b=m)

    def misnamed():
        m = leaf()
        x = par(None, a=m)          # first registration: named "a"
        y = par(None, b=m)
        return par("root", y=y, x=x)  # called first through y.b

    def list_renames():
        m = leaf()
        r = Node("root")
        r.b = m
        r.l = ModuleList([m, leaf()])
        return r

    def twice_in_list():
        m = leaf()
        return par("root", l=ModuleList([m, m]))

    def twice_in_seq():
        m = leaf()
        return par("root", s=Sequential(m, m))

    def two_lists():
        m = leaf()
        return par("root", l=ModuleList([m]), k=ModuleList([leaf(), m]))

    def shared_container():
        c = ModuleList([leaf(), leaf()])
        return par("root", a=par(None, l=c), b=par(None, l=c))

    def shared_seq_two_keys():
        s = Sequential(leaf(), leaf())
        return par(None, f=s, g=s)

    def append_after_attach():
        m = leaf()
        r = par("root", a=m, l=ModuleList([leaf()]))
        r.l.append(m)
        return r

    def collide_shared():
        # class A: self.bias = p1; class B: self.bias = P2; self.scale = p1; root.b = B, root.a = A (b called first)
        p1 = _new_param(counter)
        a = Node()
        a.bias = p1                    # p1 is named "bias" here
        b = Node()
        b.bias = _new_param(counter)
        b.scale = p1
        return par("root", b=b, a=a)

    def collide_submod():
        m = leaf()
        x = par(None, a=m)             # m is named "a"
        y = par(None, a=leaf(), b=m)
        return par("root", y=y, x=x)   # m is called first through y.b: root.y.a.w, the name of y.a's parameter

    def deep_shared():
        inner = par(None, p=leaf(), q=leaf())
        return par("model", enc=par(None, blk=inner), dec=par(None, blk=inner, out=leaf("weight")))

    return {
        "w_submod_same_key": (same_key, ["root.x.a.w"], ["x.a.w", "y.a.w"]),
        "w_submod_two_keys": (two_keys, ["root.a.w"], ["a.w", "b.w"]),
        "w_submod_misnamed": (misnamed, ["root.y.a.w"], ["y.b.w", "x.a.w"]),
        "w_submod_list_renames": (list_renames, ["root.l.0.w", "root.l.1.w"], ["b.w", "l.0.w", "l.1.w"]),
        "twice_in_list": (twice_in_list, None, None),
        "twice_in_seq": (twice_in_seq, None, None),
        "two_lists": (two_lists, None, None),
        "shared_container": (shared_container, None, None),
        "shared_seq_two_keys": (shared_seq_two_keys, None, None),
        "append_after_attach": (append_after_attach, None, None),
        "deep_shared": (deep_shared, None, None),
        "w_collide_shared": (collide_shared, None, None),
        "w_collide_submod": (collide_submod, None, None),
    }


def _observe_graph(root):
    lit, pid_of, stats = snapshot(root)
    named = [(k, pid_of[id(p)]) for k, p in root.named_parameters()]
    sd = list(root.state_dict().keys())
    g, gb, x, _cond = T._mk_graph()
    try:
        root(gb.op, x)
    except ValueError as e:
        name = T.collision_name(e, g)
        if name is None:
            raise                      # any other ValueError: fail-closed
        return {"lit": lit, "inits": [], "named": named, "sd": sd, "root": root._name or "", "all_inits": [], "stats": stats,
                "never_realised": [], "raised": name, "message": str(e)[:300]}
    inits = [(k, pid_of[id(v)]) for k, v in g.initializers.items() if id(v) in pid_of]
    return {"lit": lit, "inits": inits, "named": named, "sd": sd, "root": root._name or "", "raised": None,
            "all_inits": list(g.initializers.keys()), "stats": stats,
            "never_realised": sorted(pid_of[id(p)] for _k, p in root.named_parameters() if not p._realized)}


# ----------------------------------------------------------------------------- evaluation

def _oracle(obs):
    """The property and its refinement on what the real code produced."""
    root = obs["root"]
    want = [(root + "." + k) if root else k for k, _ in obs["named"]]
    names = [k for k, _ in obs["inits"]]
    pids = [p for _k, p in obs["named"]]
    distinct = list(dict.fromkeys(pids))
    first_keys = {}
    for k, p in obs["named"]:
        first_keys.setdefault(p, k)
    want_first = [(root + "." + first_keys[p]) if root else first_keys[p] for p in distinct]
    keys_of = {}
    for k, p in obs["named"]:
        keys_of.setdefault(p, set()).add((root + "." + k) if root else k)
    return {
        "eq": names == want,                                         # names = root + state_dict keys (ordered)
        "eq_set": sorted(names) == sorted(want) and len(set(names)) == len(names),
        "nodup": len(distinct) == len(pids),
        "objects_once": sorted(p for _k, p in obs["inits"]) == sorted(distinct),   # each object exactly once
        "first": names == want_first,                                # names = root + first-registration keys
        "name_is_some_key": all(k in keys_of.get(p, ()) for k, p in obs["inits"]),
        "want": want, "want_first": want_first,
    }


SHARD = 250


def _bodies(cfg, items, tree_of, hyp_term):
    """items: list of (name, coq source of the tree/program, obs)."""
    cf = cfg_lit(cfg)
    chk = chk_lit(cfg)
    bodies = []
    for a in range(0, len(items), SHARD):
        chunk = items[a:a + SHARD]
        src = clist([s for _n, s, _o in chunk])
        obs = clist([f"({_pairs_lit(o['inits'])}, {_pairs_lit(o['named'])})" for _n, _s, o in chunk])
        bodies.append(
            f"Definition cf := {cf}.\nDefinition srcs := {src}.\n"
            f"Definition obs : list (list (string * nat) * list (string * nat)) := {obs}.\n"
            f"Definition cases : list tcase := map (fun so => ({tree_of} (fst so), fst (snd so), snd (snd so))) (combine srcs obs).\n"
            "Eval vm_compute in (disagreeing_t cf 0 cases).\n"
            f"Eval vm_compute in (map (fun s => let t := {tree_of} s in let '(h, n, f, a) := verdict_t cf t in [{hyp_term}; n; f; a; lp_okb t]) srcs).\n"
            # the call under the probed variant of Parameter._realize: (returns, name in the ValueError)
            f"Eval vm_compute in (map (fun s => outcome_view (call_result {chk} cf ({tree_of} s))) srcs).\n")
    return bodies


_VIEW = re.compile(r'\(\s*(true|false)\s*,\s*"([^"]*)"(?:%string)?\s*\)')


def _judge(ctx, cfg, stream, items, results):
    shard = SHARD
    chk = bool(cfg.get("raises_on_collision"))
    st = {"cases": len(items), "disagree": 0, "hyp": 0, "hyp_sharing": 0, "sharing": 0, "iff_wrong": 0, "first_wrong": 0,
          "known": 0, "name_outside_state_dict": 0, "hyp_false_first_holds": 0, "collisions": 0, "raised": 0, "raised_sharing": 0,
          "raise_wrong": 0}
    for k, (okc, vals, raw) in enumerate(results):
        chunk = items[k * shard:(k + 1) * shard]
        if not okc or len(vals) < 3:
            ctx.tie_broken("correspondence", f"sharing:{stream}:evaluation", raw[-1500:])
            continue
        bad = set(_nats(vals[0]))
        flags = _bools(vals[1])
        views = [(a == "true", b) for a, b in _VIEW.findall(vals[2])]
        if len(flags) != 5 * len(chunk) or len(views) != len(chunk):
            ctx.tie_broken("correspondence", f"sharing:{stream}:evaluation",
                           f"{len(flags)} verdict flags / {len(views)} call outcomes for {len(chunk)} cases")
            continue
        for j, (name, src, obs) in enumerate(chunk):
            hyp, m_nodup, m_first, m_all, m_lp = flags[5 * j:5 * j + 5]
            m_returns, m_raised_name = views[j]
            orc = _oracle(obs)
            doc = {"stream": stream, "case": name, "source": src, "initializers": obs["inits"], "named_parameters": obs["named"],
                   "raised": obs.get("raised")}
            what = (f"{name}: initializers {obs['inits']} (name, Parameter object); named_parameters {obs['named']}; "
                    f"root + state_dict keys {orc['want']}")
            sharing = not orc["nodup"]
            st["sharing"] += sharing
            # a registration of the object may sit in a module that is not part of the tree (dropped by a slice)
            shared_any = sharing or bool(obs.get("shared_outside"))
            # -- the call under the probed variant of Parameter._realize (call_result): ValueError <-> model raises
            if obs.get("raised") is not None:
                st["raised"] += 1
                st["raised_sharing"] += shared_any
                if hyp:
                    # C18_check_never_fires: under the hypotheses of the sharing theorems no two objects get one name
                    st["raise_wrong"] += 1
                    ctx.tie_broken("correspondence", f"sharing:{stream}:raises-under-hypotheses",
                                   f"{name}: the real call raised {obs.get('message')!r} although the hypotheses of C18_check_never_fires hold for {src[:600]}")
                elif m_returns or not chk:
                    # the code rejects a program in which (per the model) every Parameter object gets a name of its own,
                    # e.g. legal weight tying of ONE object
                    st["raise_wrong"] += 1
                    ctx.tie_broken("correspondence", f"sharing:{stream}:raises-without-collision",
                                   f"{name}: the real call raised {obs.get('message')!r}; the model (raises_on_collision = {chk}) returns for {src[:600]}")
                elif m_raised_name != obs["raised"]:
                    st["raise_wrong"] += 1
                    ctx.tie_broken("correspondence", f"sharing:{stream}:raises-for-another-name",
                                   f"{name}: the real call raised for {obs['raised']!r}, the model for {m_raised_name!r}: {src[:600]}")
                if m_nodup != orc["nodup"]:
                    ctx.tie_broken("correspondence", f"sharing:{stream}:identities", f"{name}: nodup_natb says {m_nodup}, the real objects {orc['nodup']}")
                continue
            if not m_returns:
                # raises_on_collision was probed true, the model raises for this program, the real call returned
                st["raise_wrong"] += 1
                if not orc["objects_once"]:
                    ctx.violation(K_COLLIDE if shared_any else f"C18:sharing:{stream}:name-collision-not-rejected-without-sharing",
                                  what + f"; two Parameter objects are realised under {m_raised_name!r} and one initializer is lost although "
                                  "Parameter._realize rejects the minimal collision (probe)", doc)
                else:
                    ctx.tie_broken("correspondence", f"sharing:{stream}:returns-where-model-raises",
                                   f"{what}; the model (raises_on_collision = true) raises for {m_raised_name!r}: {src[:600]}")
                continue
            # -- the part of the property that survives sharing, on the real code (C18_param_objects_realised_once)
            if m_lp and obs["never_realised"]:
                ctx.violation("C18:sharing:registered-parameter-object-never-realised", what + f"; never realised: {obs['never_realised']}", doc)
            if j in bad:
                st["disagree"] += 1
                if orc["objects_once"] and (orc["eq"] or (sharing and orc["first"])):
                    ctx.tie_broken("correspondence", f"sharing:{stream}:names",
                                   f"{what}; the Coq model (probed cfg) computes something else for {src[:600]}")
                else:
                    ctx.violation(f"C18:sharing:{stream}:initializers-differ-from-model-and-from-first-registration-names", what, doc)
                continue
            if m_nodup != orc["nodup"]:
                ctx.tie_broken("correspondence", f"sharing:{stream}:identities", f"{name}: nodup_natb says {m_nodup}, the real objects {orc['nodup']}")
            if hyp:
                st["hyp"] += 1
                st["hyp_sharing"] += sharing
                # the proved equivalence: names = root + state_dict keys  <->  no object registered twice
                if orc["eq"] != m_nodup or orc["eq_set"] != m_nodup or m_all != m_nodup:
                    st["iff_wrong"] += 1
                    ctx.tie_broken("correspondence", f"sharing:{stream}:iff",
                                   f"{what}; hypotheses hold, nodup_natb (param_ids) = {m_nodup} but real names equal = {orc['eq']}")
                if not orc["first"] or not m_first or not orc["objects_once"]:
                    st["first_wrong"] += 1
                    ctx.tie_broken("correspondence", f"sharing:{stream}:first-registration",
                                   f"{what}; hypotheses hold but the names are not root + first-registration keys {orc['want_first']}"
                                   " / an object is not stored exactly once")
            elif orc["first"]:
                st["hyp_false_first_holds"] += 1
            if not hyp and not orc["objects_once"]:
                # the model agrees with the code: two different Parameter objects were given one name and the
                # dict keeps only the later one
                if shared_any:
                    st["collisions"] += 1
                    ctx.violation(K_COLLIDE if _is_known(ctx, K_COLLIDE) else K_SHARED,
                                  what + "; two Parameter objects are realised under one name, one initializer is lost", doc)
                else:
                    ctx.violation(f"C18:sharing:{stream}:initializer-lost-without-sharing", what, doc)
            # -- the property itself on the real code
            if not orc["eq_set"]:
                if sharing:
                    st["known"] += 1
                    key = K_SHARED
                    if not orc["name_is_some_key"]:
                        st["name_outside_state_dict"] += 1
                        if _is_known(ctx, K_SUBMOD):
                            key = K_SUBMOD
                    ctx.violation(key, what, doc)
                elif shared_any:
                    st["known"] += 1
                    ctx.violation(K_SHARED, what + "; the Parameter object is also registered in a module outside the tree", doc)
                else:
                    # no object is shared and the model agrees with the code: names chosen by a container
                    # renaming / explicit names -- cannot arise from the generators here without sharing
                    ctx.violation(f"C18:sharing:{stream}:names-differ-without-sharing", what, doc)
    return st


def run_sharing(ctx, cfg):
    t0 = time.time()
    rng = ctx.rng
    quick = ctx.tier == "quick"

    # ------------------------------------------------------------------ stream P
    progs = [(n, s) for n, s in sorted(fixed_programs().items())]
    n_random = 100 if quick else 1500
    for i in range(n_random):
        d = rng.choice([2, 3, 3, 4])
        s = T.gen_spec(rng, max_depth=d, allow={})
        k = rng.choice([1, 1, 2, 3])
        shared = 0
        for _ in range(k):
            s, did = share_pids(rng, s, same_key_bias=0.6 if i % 2 else 0.2)
            shared += did
        if i % 10 == 9:
            shared = 0
            s = T.gen_spec(rng, max_depth=d, allow={})      # control: no sharing
        progs.append((f"random{i}", s))
    items = []
    for idx, (name, spec) in enumerate(progs):
        obs = _observe_spec(spec, {"twice": idx % 3 == 0, "slices": idx % 4 == 1})
        if obs is None:
            continue
        feats = T.features(spec)
        pids = feats["pids"]
        mult = max([pids.count(p) for p in set(pids)] + [0])
        ctx.case(("sharing-P", spec[0], T.depth(spec), feats["list"], feats["seq"], feats["slice"], feats["early"], feats["late"],
                  min(mult, 4), len(pids) - len(set(pids)), min(feats["nodes"], 10)))
        if name in EXPECTED_P:
            exp_i, exp_sd = EXPECTED_P[name]
            if [k for k, _ in obs["inits"]] != exp_i or obs["sd"] != exp_sd:
                ctx.tie_broken("correspondence", f"sharing:witness:{name}",
                               f"real initializers {obs['inits']} state_dict {obs['sd']}; Props/C18_modules.v states {exp_i} / {exp_sd}")
        if name in EXPECTED_COLLISION:
            _check_collision_witness(ctx, cfg, name, obs)
        if idx < 2:
            ctx.sample({"model": "A-sharing", "program": T.spec_lit(spec), "initializers": obs["inits"], "named_parameters": obs["named"]})
        obs["shared_outside"] = len(set(pids)) != len(pids)
        items.append((name, T.spec_lit(spec), obs))
    bodies_p = _bodies(cfg, items, "construct cf", "program_sh_okb cf s")

    # ------------------------------------------------------------------ stream T
    graphs = []
    for name, (mk, exp_i, exp_sd) in sorted(fixed_graphs().items()):
        obs = _observe_graph(mk())
        if exp_i is not None and ([k for k, _ in obs["inits"]] != exp_i or obs["sd"] != exp_sd):
            ctx.tie_broken("correspondence", f"sharing:witness:{name}",
                           f"real initializers {obs['inits']} state_dict {obs['sd']}; Props/C18_modules.v states {exp_i} / {exp_sd}")
        if name in EXPECTED_COLLISION:
            _check_collision_witness(ctx, cfg, name, obs)
        graphs.append((name, obs["lit"], obs))
    n_graphs = 140 if quick else 2500
    n_shared_mod = 0
    for i in range(n_graphs):
        root, log = gen_object_graph(rng, rng.choice([4, 6, 8, 10, 12]), share=0.0 if i % 10 == 9 else rng.choice([0.2, 0.35, 0.5]))
        obs = _observe_graph(root)
        graphs.append((f"graph{i}", obs["lit"], obs))
        n_shared_mod += obs["stats"]["shared_modules"] > 0
        ops = [o[0] for o in log]
        ctx.case(("sharing-T", min(obs["stats"]["nodes"], 12), min(obs["stats"]["shared_modules"], 3),
                  "share-module-attr" in ops, "share-module-append" in ops, "share-param" in ops,
                  "list" in ops, "seq" in ops, root._name is None))
        if i < 2:
            ctx.sample({"model": "A-sharing", "object_graph": obs["lit"], "operations": log, "initializers": obs["inits"],
                        "named_parameters": obs["named"]})
    bodies_t = _bodies(cfg, graphs, "(fun t : mtree => t)", "h")
    results = ctx.coq_eval_shards(REQ, bodies_p + bodies_t)
    st_p = _judge(ctx, cfg, "P", items, results[:len(bodies_p)])
    st_t = _judge(ctx, cfg, "T", graphs, results[len(bodies_p):])

    ctx.obligation("correspondence A-sharing: initializers (name, Parameter object), named_parameters and initializer names of the real "
                   "nn classes = init_dict / sd_entries / realised_names of Modules.v on every program and object graph with shared objects",
                   st_p["disagree"] + st_t["disagree"] == 0, f"{st_p['disagree']} + {st_t['disagree']} disagreements")
    ctx.obligation("correspondence A-sharing: whenever the hypotheses of C18_names_eq_iff_no_sharing hold, nodup_natb (param_ids) predicts "
                   "exactly whether the real initializer names are root + state_dict keys, and they are root + first-registration keys",
                   st_p["iff_wrong"] + st_t["iff_wrong"] + st_p["first_wrong"] + st_t["first_wrong"] == 0)
    ctx.obligation("correspondence A-sharing: the real call raises ValueError(name already used by another Parameter) exactly when "
                   f"call_result (raises_on_collision = {bool(cfg.get('raises_on_collision'))}, probed) raises, and for the same name",
                   st_p["raise_wrong"] + st_t["raise_wrong"] == 0, f"{st_p['raise_wrong']} + {st_t['raise_wrong']} disagreements")
    ctx.cover(sharing_probed_raises_on_collision=bool(cfg.get("raises_on_collision")),
              sharing_calls_rejected_by_collision_check=st_p["raised"] + st_t["raised"],
              sharing_calls_rejected_with_shared_object=st_p["raised_sharing"] + st_t["raised_sharing"])
    ctx.cover(sharing_programs=st_p["cases"], sharing_programs_with_shared_parameter=st_p["sharing"],
              sharing_programs_hypotheses_hold=st_p["hyp"], sharing_programs_hypotheses_hold_and_shared=st_p["hyp_sharing"],
              sharing_graphs=st_t["cases"], sharing_graphs_with_shared_module=n_shared_mod, sharing_graphs_with_shared_parameter_object=st_t["sharing"],
              sharing_graphs_hypotheses_hold=st_t["hyp"], sharing_graphs_hypotheses_hold_and_shared=st_t["hyp_sharing"],
              sharing_initializer_name_outside_state_dict=st_p["name_outside_state_dict"] + st_t["name_outside_state_dict"],
              sharing_first_registration_names_although_hypotheses_fail=st_p["hyp_false_first_holds"] + st_t["hyp_false_first_holds"],
              sharing_initializer_lost_by_name_collision=st_p["collisions"] + st_t["collisions"],
              sharing_known_deviations=st_p["known"] + st_t["known"], sharing_seconds=round(time.time() - t0, 1))
    ctx.assume("model A sharing: forward() calls every child once, in registration order (first registration = first call)")
    ctx.assume("model A collisions: whether Parameter._realize raises on a name used by another Parameter object (raises_on_collision) is "
               "probed on one minimal program at the start of every run; a ValueError of the real call counts as that check iff it mentions "
               "the name of an initializer already stored, and it must be the name for which call_result raises")
