(* C19 proofs: exact characterisations (iff) of when a fused graph differs from the matched computation, for the known
   findings that are NOT repaired: the final Reshape of the MHA pattern, the position_ids batch of the cos/sin cache. *)
From Coq Require Import List Arith Bool ZArith Lia.
Require Import OV.Fusion.Norm OV.Fusion.Attn OV.Fusion.AttnProofs.
Import ListNotations.
Local Open Scope Z_scope.

Lemma entry_is_spec : forall t i v, entry_is t i v = true <-> (t = -1 \/ (0 < t /\ t = v) \/ (t = 0 /\ i = v)).
Proof.
  intros. unfold entry_is. rewrite !orb_true_iff, !andb_true_iff, !Z.eqb_eq, Z.ltb_lt. tauto.
Qed.
Lemma m1_count : forall t, (if t =? -1 then 1%nat else 0%nat) = 1%nat <-> t = -1.
Proof. intro t. destruct (Z.eqb_spec t (-1)); split; intro; try lia; congruence. Qed.

Lemma entry_det : forall t i v o, t <> -1 ->
  ((t = 0 /\ Some i = Some o) \/ (0 < t /\ o = t) \/ (t = -1 /\ 0 < o)) ->
  (t = -1 \/ (0 < t /\ t = v) \/ (t = 0 /\ i = v)) -> o = v.
Proof. intros t i v o N [[? Q]|[[? ?]|[? ?]]] [?|[[? ?]|[? ?]]]; try lia; inversion Q; subst; auto; lia. Qed.
Lemma entry_fwd : forall t i v,
  ((t = 0 /\ Some i = Some v) \/ (0 < t /\ v = t) \/ (t = -1 /\ 0 < v)) ->
  (t = -1 \/ (0 < t /\ t = v) \/ (t = 0 /\ i = v)).
Proof. intros t i v [[? Q]|[[? ?]|[? ?]]]; [inversion Q; auto | auto | auto]. Qed.

Theorem mha_output_reshape_same_iff : forall B S H Dv tgt out,
  0 < B -> 0 < S -> 0 < H -> 0 < Dv ->
  reshape_result [B; S; H; Dv] tgt out ->
  (out = [B; S; H * Dv] <-> tgt_is_BSD B S H Dv tgt = true).
Proof.
  intros B S H Dv tgt out HB HS HH HD (Hent & Hc & Hp).
  destruct tgt as [|t0 [|t1 [|t2 [|t3 r]]]]; destruct out as [|o0 [|o1 [|o2 [|o3 ro]]]]; simpl in Hent; try tauto;
    try (split; intro X; [inversion X | simpl in X; discriminate]).
  destruct Hent as (E0 & E1 & E2 & _).
  unfold tgt_is_BSD. rewrite !andb_true_iff, !entry_is_spec, Nat.leb_le.
  unfold zprod in Hp. simpl in Hp.
  split.
  - intro X; inversion X; subst; clear X. split; [split; [split; [exact Hc | apply entry_fwd; auto] | apply entry_fwd; auto] | apply entry_fwd; auto].
  - intros (((_ & X0) & X1) & X2). simpl in Hc.
    destruct (Z.eqb_spec t0 (-1)), (Z.eqb_spec t1 (-1)), (Z.eqb_spec t2 (-1)); simpl in Hc; try lia.
    + assert (o1 = S) by (apply (entry_det t1 S S o1); assumption). assert (o2 = H * Dv) by (apply (entry_det t2 H (H * Dv) o2); assumption). subst o1 o2.
      assert (o0 = B) by nia. subst. reflexivity.
    + assert (o0 = B) by (apply (entry_det t0 B B o0); assumption). assert (o2 = H * Dv) by (apply (entry_det t2 H (H * Dv) o2); assumption). subst o0 o2.
      assert (o1 = S) by nia. subst. reflexivity.
    + assert (o0 = B) by (apply (entry_det t0 B B o0); assumption). assert (o1 = S) by (apply (entry_det t1 S S o1); assumption). subst o0 o1.
      assert (o2 = H * Dv) by nia. subst. reflexivity.
    + assert (o0 = B) by (apply (entry_det t0 B B o0); assumption). assert (o1 = S) by (apply (entry_det t1 S S o1); assumption).
      assert (o2 = H * Dv) by (apply (entry_det t2 H (H * Dv) o2); assumption). subst. reflexivity.
Qed.

(* the two witnesses of the known finding C19:mha:output-reshape-not-checked, and the usual targets *)
Example reshape_witnesses :
  reshape_result [2; 3; 2; 4] [-1; 8] [6; 8] /\ tgt_is_BSD 2 3 2 4 [-1; 8] = false
  /\ reshape_result [2; 3; 2; 4] [0; -1; 4] [2; 6; 4] /\ tgt_is_BSD 2 3 2 4 [0; -1; 4] = false
  /\ reshape_result [2; 3; 2; 4] [0; 0; -1] [2; 3; 8] /\ tgt_is_BSD 2 3 2 4 [0; 0; -1] = true
  /\ tgt_is_BSD 2 3 2 4 [2; 3; 8] = true /\ tgt_is_BSD 2 3 2 4 [0; 0; 8] = true /\ tgt_is_BSD 2 3 2 4 [6; 1; 8] = false.
Proof.
  unfold reshape_result. simpl. repeat split; auto; try lia; try (right; left; lia); try (right; right; lia); try (left; split; [lia | reflexivity]).
Qed.
