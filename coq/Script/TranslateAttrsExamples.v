(* The hypotheses of translate_straightline_attrs_correct are satisfiable on a non-trivial instance (typed toy kernels of
   Script/EagerExamples.v, reference attributes resolved from the call's attribute values):

       def f(x, alpha: float = 3.0, k: int = 2, flag: bool = True):
           y = x + alpha                      # promoted: Constant(value_float = ref alpha), CastLike'd to x
           z = op.Scale(y, alpha=alpha)       # forwarded: reference attribute of the node
           w = z * k                          # promoted int attribute, CastLike'd to z
           u = w + flag                       # promoted bool attribute: Constant(value_int = ref flag) + Cast(to=BOOL)
           return u, y
*)
From Coq Require Import List String ZArith Bool Lia.
Require Import OV.Graph.Syntax OV.Graph.Sem OV.Script.Syntax OV.Script.Sets OV.Gen.Analysis OV.Gen.ScriptTables OV.Script.Translate
               OV.Script.PySem OV.Script.Eager OV.Script.PySemAttrs OV.Script.TranslateProofs OV.Script.EagerExamples
               OV.Script.TranslateAttrsProofs.
Import ListNotations.
Local Open Scope string_scope.

Definition exa_pre : list stmt :=
  [SAssign "y" (EBin "Add" (EVar "x") (EVar "alpha"));
   SAssign "z" (ECall (COp "Scale") [Some (EVar "y")] [("alpha", KName "alpha")]);
   SAssign "w" (EBin "Mult" (EVar "z") (EVar "k"));
   SAssign "u" (EBin "Add" (EVar "w") (EVar "flag"))].
Definition exa_es : list expr := [EVar "u"; EVar "y"].
Definition exa_f : func :=
  {| f_name := "f"; f_tparams := ["x"];
     f_aparams := [("alpha", AKFloat, true); ("k", AKInt, true); ("flag", AKBool, true)];
     f_body := (exa_pre ++ [SReturn exa_es])%list |}.
Definition exa_avals : list (string * lit) := [("alpha", LFloat 3); ("k", LInt 2); ("flag", LBool true)].
Definition exa_sem := sem_res exa_avals ty_sem.
Definition exa_of_bool (b : bool) : tv := (false, if b then 1%Z else 0%Z).

Lemma attrs_straightline_nonvacuous :
  exists g,
    translate false [] (fun _ => None) 6 [] exa_f = Some g /\
    assigns_ok exa_pre = true /\ forallb expr_ok exa_es = true /\ NoDup (f_tparams exa_f) /\
    List.length (g_nodes g) = 11 /\
    eval_script_attrs tv exa_sem ty_truth ty_trip ty_of_nat 10 [] 6 exa_f [(true, 1%Z)] exa_avals = Some [(true, 25%Z); (true, 4%Z)] /\
    eval_graph tv exa_sem ty_truth ty_trip ty_of_nat exa_of_bool 10 6 [] g [(true, 1%Z)] = Some [(true, 25%Z); (true, 4%Z)].
Proof.
  eexists. split; [vm_compute; reflexivity|].
  split; [reflexivity|]. split; [reflexivity|].
  split; [repeat constructor; intros []|].
  split; [reflexivity|]. split; vm_compute; reflexivity.
Qed.
