(* C17 -- "opsetN.Op denotes the same schema in eager mode and in translation": the translation side.

   onnxscript/_internal/converter.py, _translate_callee_expr:   opsetN.Op(...)  ->  values.Op(opsetN, "Op"),
   _emit: ir.Node(domain = opset.domain, op_type = name, version = opset.version).  A node carries no version
   in a proto: its schema is get_schema(op_type, v, domain) where v is the version the enclosing
   FunctionProto / ModelProto imports for the node's domain.
   irbuilder.IRFunction.append_node: opset_imports[domain] := version of the FIRST node of that domain (a later
   node of another version only raises a UserWarning).
   converter._set_default_opset (called for every `opsetN.Op` callee and once with the first standard opset
   found in the function): two different versions of the standard domain "" are refused ("Two distincts opset
   were used"); other domains are not checked.

   Also: the version pairs between which an operator's schema changed, and the operators introduced after
   version 1 of their domain (the inputs the harness builds its scripts and lookup histories from).
   No proofs in this file. *)
From Coq Require Import List String ZArith Bool.
Import ListNotations.
Require Import OV.Registry.OpsetMethod.
Local Open Scope string_scope.
Local Open Scope list_scope.

(* ------------------------------------------------------------------ where schemas changed *)

(* (domain, operator, k1, k2): both k1 < k2 are since_versions of the operator *)
Definition vpair := (string * string * Z * Z)%type.

Definition same_op (a b : schema) : bool :=
  String.eqb (s_name a) (s_name b) && String.eqb (s_domain a) (s_domain b).

Definition changed_from (reg : list schema) (s1 : schema) : list vpair :=
  flat_map (fun s2 => if same_op s2 s1 && Z.ltb (s_since s1) (s_since s2)
                      then [(s_domain s1, s_name s1, s_since s1, s_since s2)] else []) reg.

Definition changed_pairs (reg : list schema) : list vpair := flat_map (changed_from reg) reg.

(* operators that do not exist at version 1 of their domain: (domain, operator, first since_version) *)
Definition is_first (reg : list schema) (s : schema) : bool :=
  negb (existsb (fun s' => same_op s' s && Z.ltb (s_since s') (s_since s)) reg).
Definition late_ops (reg : list schema) : list (string * string * Z) :=
  map (fun s => (s_domain s, s_name s, s_since s))
      (filter (fun s => Z.ltb 1 (s_since s) && is_first reg s) reg).

(* ------------------------------------------------------------------ one translated call *)

Record tnode := mkT { t_domain : string; t_op : string }.

Definition translate_call (c : cls) (op : string) : tnode := mkT (c_domain c) op.

Definition imports := list (string * Z).

(* the schema a node denotes inside a proto that imports `imp` *)
Definition node_schema (reg : list schema) (imp : imports) (n : tnode) : option schema :=
  match assoc (t_domain n) imp with
  | Some v => resolve reg (t_op n) v (t_domain n)
  | None => None
  end.

(* ------------------------------------------------------------------ a function body: a sequence of calls *)

Definition add_import (imp : imports) (d : string) (v : Z) : imports :=
  match assoc d imp with Some _ => imp | None => imp ++ [(d, v)] end.

Definition imports_from (imp : imports) (calls : list cls) : imports :=
  fold_left (fun i c => add_import i (c_domain c) (c_version c)) calls imp.
Definition imports_of (calls : list cls) : imports := imports_from [] calls.

Definition in_domain (d : string) (c : cls) : bool := String.eqb (c_domain c) d.

(* two classes of domain d with different versions among the calls *)
Definition conflict_in (d : string) (calls : list cls) : bool :=
  match filter (in_domain d) calls with
  | [] => false
  | c0 :: t => negb (forallb (fun c => Z.eqb (c_version c) (c_version c0)) t)
  end.

(* as read: only the standard domain is checked *)
Definition refused (calls : list cls) : bool := conflict_in "" calls.
(* what faithfulness needs: no domain is used with two versions *)
Definition refused_strict (calls : list cls) : bool := existsb (fun c => conflict_in (c_domain c) calls) calls.

Definition translate_with (refuse : list cls -> bool) (calls : list (cls * string)) : option (list tnode * imports) :=
  if refuse (map fst calls) then None
  else Some (map (fun co => translate_call (fst co) (snd co)) calls, imports_of (map fst calls)).

Definition translate_body := translate_with refused.
Definition translate_body_strict := translate_with refused_strict.

(* ------------------------------------------------------------------ correspondence with the real converter *)

(* observed: list of (class name, operator) written in one function; None if the decorator refused, else the
   nodes (domain, op_type) of the FunctionProto and the version it imports for each domain used *)
Definition trans_case := (list (string * string) * option (list (string * string) * list (string * Z)))%type.

Definition ss_eqb' (a b : string * string) : bool := String.eqb (fst a) (fst b) && String.eqb (snd a) (snd b).

Definition trans_agrees_with (tr : list (cls * string) -> option (list tnode * imports)) (cs : list cls) (c : trans_case) : bool :=
  let '(calls, obs) := c in
  match map_opt (fun co => option_map (fun k => (k, snd co)) (find_class cs (fst co))) calls with
  | None => false
  | Some cl =>
    match tr cl, obs with
    | None, None => true
    | Some (nodes, imp), Some (onodes, oimp) =>
      list_eqb ss_eqb' (map (fun n => (t_domain n, t_op n)) nodes) onodes &&
      forallb (fun n => oz_eqb (assoc (t_domain n) imp) (assoc (t_domain n) oimp)) nodes
    | _, _ => false
    end
  end.
(* as read / with the repaired refusal (C17_strict_refusal_every_call_resolves) *)
Definition trans_agrees := trans_agrees_with translate_body.
Definition trans_agrees_strict := trans_agrees_with translate_body_strict.

(* observed lookup history: in one fresh state, opset (d, N1)[op] then opset (d, N2)[op]; since_versions found *)
Definition hist_case := (string * string * Z * Z * option Z * option Z)%type.
Definition hist_agrees (reg : list schema) (c : hist_case) : bool :=
  let '(d, op, n1, n2, o1, o2) := c in
  oz_eqb (since_of (resolve reg op n1 d)) o1 && oz_eqb (since_of (resolve reg op n2 d)) o2.
