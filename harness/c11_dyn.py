"""C11, session 6: slice bounds / indices that are values at run time, attribute parameters, and the forms outside the
documented ones (coq/Index/DynForms.v, DynFormsProofs.v; theorems coq/Props/C11_dyn.v).

Streams (all go through the same comparison in Coq as the other C11 streams: NumPy vs NumpySpec, graph result and emitted
operands vs ConverterIdx, eager result and op calls vs EagerFix):

  dyn-bounds    X[a:b:s] with a, b tensor-valued (rank-0 script inputs) or omitted, at EVERY run-time value in [-d-2, d+2],
                s in {omitted, 1, 2, -1, -2} as a literal, and s tensor-valued (both bounds then given: otherwise the
                converter refuses, C11_converter_refuses_slice_iff) -- one converted graph per form, swept over the values;
  expr-bounds   the documented A[i+1:i+2] and A[i:i+j, k] written with the arithmetic in the subscript (Add nodes feed the
                Slice operands; the operand interpreter of the skeleton evaluates them);
  attr-param    `def f(X, n: int): return X[:n]` called from a second script function with every value of n: in the graph n is a
                run-time value (model: BDyn / CT0 = DynForms.graph_comp), eagerly a python int (BConst / CInt = eager_comp);
                the local function is inlined (onnx.inliner) before the emitted operands are read;
  outside-forms near misses of the supported forms: Ellipsis, None, True / False, float and string literals at every position of
                every basic tuple of length <= 2: must fail, or equal NumPy (never a different tensor).  Model: DynForms.run_conv_x /
                run_eager_x with the as-read and the repaired variant of each front end; NumPy's result rank vs np_x_rank.
"""
from __future__ import annotations

import importlib.util
import itertools
import os
import sys

import numpy as np

from harness import c11_impl as impl
from harness import common
from harness.common import clist, cz

REQ_X = ["OV.Index.NumpySpec", "OV.Index.OnnxSlice", "OV.Index.ConverterIdx", "OV.Index.EagerIdx", "OV.Index.Corr",
         "OV.Index.AdvSpec", "OV.Index.AdvCorr", "OV.Index.EagerFix", "OV.Index.DynForms"]


# ----------------------------------------------------------------------------- dyn-bounds

def gen_dyn_bounds(rng, thorough):
    """(shape, idx) with tensor-valued bounds at every value in [-d-2, d+2] / omitted"""
    T = lambda v: None if v is None else ("t", v)
    dims_full = (0, 1, 2, 3, 4) if thorough else (2, 3)
    dims_sampled = () if thorough else (1, 4)
    for d in dims_full + dims_sampled:
        vals = [None] + list(range(-d - 2, d + 3))
        shape = (d, 2)
        combos = list(itertools.product(vals, vals, [None, 1, 2, -1, -2]))
        if d in dims_sampled:
            combos = rng.sample(combos, 160)
        for a, b, s in combos:
            yield shape, (("slice", T(a), T(b), s),)
        # tensor-valued step: both bounds must be given
        nz = [v for v in vals if v is not None]
        combos = list(itertools.product(nz, nz, [1, 2, -1, -2, 0] if thorough else [1, -1, -2]))
        if not thorough:
            combos = rng.sample(combos, min(len(combos), 110))
        for a, b, s in combos:
            yield shape, (("slice", T(a), T(b), T(s)),)
        # mixed: one bound a literal, the other tensor-valued; on an inner axis
        for _ in range(60 if thorough else 20):
            a, b = rng.choice(vals), rng.choice(vals)
            s = rng.choice([None, 1, 2, -1, -2])
            which = rng.random() < 0.5
            yield (2, d), (("slice", None, None, None), ("slice", T(a) if which else a, b if which else T(b), s))
    # refused forms: tensor-valued step with an omitted bound
    for a, b in ((None, 1), (0, None), (None, None)):
        for st in (1, -1, 2, -2):
            yield (3, 2), (("slice", T(a), T(b), ("t", st)),)


# ----------------------------------------------------------------------------- raw forms (expr-bounds, attr-param)

def _load_module(text, tmp, tag):
    impl._mod_counter[0] += 1
    name = f"c11_dyn_{tag}_{os.getpid()}_{impl._mod_counter[0]}"
    path = os.path.join(tmp, name + ".py")
    with open(path, "w") as f:
        f.write(text)
    spec = importlib.util.spec_from_file_location(name, path)
    mod = importlib.util.module_from_spec(spec)
    sys.modules[name] = mod
    spec.loader.exec_module(mod)
    return mod


HEAD = ("from onnxscript import script\nfrom onnxscript.onnx_opset import opset18 as op\n"
        "from onnxscript.onnx_types import INT64\n\n\n")


def _script(pyf):
    import onnxscript
    from onnxscript.onnx_opset import opset18 as op
    try:
        return onnxscript.script(default_opset=op)(pyf), None
    except Exception as e:
        return None, f"{type(e).__name__}: {str(e)[:200]}"


def _evaluate_raw(c11, fn, graph, refusal, np_src, X, vals, np_env=None, c_op=None):
    """same record as Runner.evaluate for a function given directly"""
    c_op = c_op or c11.c_op
    r = {"src": np_src, "vals": [np.asarray(v).tolist() for v in vals]}
    env = {"X": X}
    env.update({f"a{j}": v for j, v in enumerate(vals)})
    env.update(np_env or {})
    try:
        r["np"] = ("ok", np.asarray(eval(f"X[{np_src}]", {"__builtins__": {}}, env)))
    except Exception as e:
        r["np"] = ("err", f"{type(e).__name__}: {str(e)[:120]}")
    if fn is None:
        r["graph"] = ("err", "refused: " + refusal)
        r["skel"] = "refused"
        r["refused"] = refusal
        r["eager"], r["eskel"] = ("err", "refused: " + refusal), None
        r["eager_user"] = r["eager"]
        return r
    r["graph"] = graph.run(X, vals)
    r["skel"] = None
    if graph.proto is not None:
        try:
            r["skel"] = graph.skeleton(vals)
            clist(r["skel"], c_op)
        except ValueError as e:
            r["skel"] = None
            r["skel_error"] = f"emitted graph outside the model's vocabulary: {e}"
    r["eager"], r["eskel"] = impl.eager_run(fn, X, vals)
    r["eager_user"] = r["eager"]
    try:
        clist(r["eskel"], c_op)
    except ValueError as e:
        r["eskel_error"] = f"eager op calls outside the model's vocabulary: {e} ({r['eskel']!r})"
        r["eskel"] = None
    return r


def _push(ctx, c11, state, stream, shape, r, idx_graph, idx_eager, lits, metas, key):
    """one evaluated raw case -> literals for Coq (graph reading and eager reading may differ), oracle bookkeeping"""
    ctx.case(key)
    state["n"] += 1
    state["streams"][stream] = state["streams"].get(stream, 0) + 1
    o_np = r["np"]
    for front, o, idx in (("converter", r["graph"], idx_graph), ("eager", r["eager_user"], idx_eager)):
        state["outcomes"][(front, "ok" if o[0] == "ok" else "error", "np-ok" if o_np[0] == "ok" else "np-error")] += 1
        if o[0] == "ok" and not (o_np[0] == "ok" and c11.same(o, o_np)):
            state["diffs"].append((front, stream, len(metas), shape, idx, r, o))
    skel = r["skel"]
    if idx_graph == idx_eager:
        lits.append(c11.c_case(shape, idx_graph, o_np, r["graph"], r["eager"], skel, r["eskel"]))
        metas.append((shape, idx_graph, r))
    else:
        lits.append(c11.c_case(shape, idx_graph, o_np, r["graph"], None, skel, None))
        metas.append((shape, idx_graph, r))
        lits.append(c11.c_case(shape, idx_eager, o_np, None, r["eager"], None, r["eskel"]))
        metas.append((shape, idx_eager, r))
    if "skel_error" in r:
        state["skel_errors"].append((stream, (shape, idx_graph, r)))
    if "eskel_error" in r:
        state["eskel_errors"].append((stream, (shape, idx_eager, r)))


def run_expr_bounds(ctx, c11, runner, state):
    """A[i+1:i+2], A[i:i+j, k], A[i-1::-1] with the arithmetic inside the subscript"""
    S = lambda a=None, b=None, s=None: ("slice", a, b, s)
    forms = [   # (source, number of tensor inputs, NumPy source, model idx as a function of the input values)
        ("a0+1:a0+2", 1, lambda v: (S(("t", v[0] + 1), ("t", v[0] + 2)),)),
        ("a0:a0+a1, a2", 3, lambda v: (S(("t", v[0]), ("t", v[0] + v[1])), ("t0", v[2]))),
        ("a0:a0+a1", 2, lambda v: (S(("t", v[0]), ("t", v[0] + v[1])),)),
        ("a0+a1::-1", 2, lambda v: (S(("t", v[0] + v[1]), None, -1),)),
        (":, a0+1:", 1, lambda v: (S(), S(("t", v[0] + 1))),),
    ]
    loaded = impl.load_forms([(src, nt) for src, nt, _m in forms], runner.tmp)
    lits, metas = [], []
    for (src, nt, model), (fn, err) in zip(forms, loaded):
        g = impl.Graph(fn) if fn is not None else None
        for shape in ((4, 3), (3, 4, 2)):
            d = shape[0] if not src.startswith(":,") else shape[1]
            X = np.arange(int(np.prod(shape)), dtype=np.int64).reshape(shape)
            ranges = [range(-d - 2, d + 2)] + [range(0, 3)] * (nt - 1)
            if src == "a0:a0+a1, a2":
                ranges[2] = range(0, shape[1])
            for v in itertools.product(*ranges):
                vals = [np.array(x, dtype=np.int64) for x in v]
                r = _evaluate_raw(c11, fn, g, err, src, X, vals)
                idx = model(v)
                _push(ctx, c11, state, "expr-bounds", shape, r, idx, idx, lits, metas, ("expr-bounds", src, len(shape)))
                if r["graph"][0] != "ok" and r["np"][0] == "ok" and src in ("a0+1:a0+2", "a0:a0+a1, a2"):
                    ctx.violation(f"C11:converter:documented-form-fails:X[{src}]",
                                  f"converter: the documented form X[{src}] fails on shape {shape}: {r['graph'][1][:200]}",
                                  {"front": "converter", "shape": list(shape), "source": f"X[{src}]", "tensor_values": r["vals"]})
    state["pending"].append(("expr-bounds", lits, metas))


ATTR_FORMS = [   # (source over the attribute parameters n, m; which axis each meets; graph reading; eager reading)
    ("n", ("idx0",)), (":, n", ("idx1",)), ("0, n", ("idx1",)), ("1:, n", ("idx1",)), ("n, 1:", ("idx0",)),
    (":n", ("b0",)), ("n:", ("a0",)), ("n::-1", ("a0",)), (":n:-1", ("b0",)), ("n::2", ("a0",)), (":n:-2", ("b0",)),
    ("n:m", ("a0", "b0")), ("n:m:-1", ("a0", "b0")), ("1:3:n", ("s0",)), ("::n", ("s0",)), (":, n:", ("a1",)),
]


def _attr_idx(src, v, reading):
    """model idx of an attribute form: reading = 'graph' (run-time values) | 'eager' (python ints)"""
    dyn = (lambda x: ("t", x)) if reading == "graph" else (lambda x: x)
    env = {"n": v[0], "m": v[1] if len(v) > 1 else None}
    out = []
    for part in [p.strip() for p in src.split(",")]:
        if ":" in part:
            f = part.split(":")
            f += [""] * (3 - len(f))
            b = []
            for x in f:
                b.append(None if x == "" else (dyn(env[x]) if x in env else int(x)))
            out.append(("slice", b[0], b[1], b[2]))
        elif part in env:
            out.append(("t0", env[part]) if reading == "graph" else ("int", env[part]))
        else:
            out.append(("int", int(part)))
    return tuple(out)


def run_attr_param(ctx, c11, runner, state, rng, thorough):
    lits, metas = [], []
    shape = (4, 3)
    X = np.arange(12, dtype=np.int64).reshape(shape)
    refused = 0
    for src, roles in ATTR_FORMS:
        two = len(roles) == 2
        d = shape[int(roles[0][-1])]
        rng_vals = list(range(-d - 2, d + 3))
        if roles[0].startswith("s"):
            rng_vals = [-3, -2, -1, 0, 1, 2, 3]
        values = [(a, b) for a in rng_vals for b in rng_vals] if two else [(a,) for a in rng_vals]
        if two and not thorough:
            values = rng.sample(values, 24)
        text = HEAD + (f"def f(X: INT64[...], n: int{', m: int' if two else ''}) -> INT64[...]:\n    return X[{src}]\n\n\n")
        mod = _load_module(text, runner.tmp, "attr")
        f, err = _script(mod.f)
        callers = ""
        for k, v in enumerate(values):
            args = f"n={v[0]}" + (f", m={v[1]}" if two else "")
            callers += f"def g{k}(X: INT64[...]) -> INT64[...]:\n    return f(X, {args})\n\n\n"
        gmod = None
        if f is not None:
            gtext = HEAD + callers
            gmod = _load_module(gtext, runner.tmp, "attrcall")
            gmod.f = f
        for k, v in enumerate(values):
            np_src = src.replace("n", str(v[0])).replace("m", str(v[1]) if two else "m")
            fn, ferr = (None, err)
            if gmod is not None:
                fn, ferr = _script(getattr(gmod, f"g{k}"))
            g = impl.Graph(fn, inline=True) if fn is not None else None
            r = _evaluate_raw(c11, fn, g, ferr, np_src, X, [])
            if fn is None:
                refused += 1
                # the eager twin of a refused form: Tensor.__getitem__ directly with python ints
                r["eager"], r["eskel"] = impl.eager_getitem(X, _attr_idx(src, v, "eager"))
            r["src"] = f"{src} with " + (f"n={v[0]}, m={v[1]}" if two else f"n={v[0]}") + " (attribute parameters)"
            _push(ctx, c11, state, "attr-param", shape, r, _attr_idx(src, v, "graph"), _attr_idx(src, v, "eager"), lits, metas,
                  ("attr-param", src, tuple(np.sign(v).tolist())))
    state["pending"].append(("attr-param", lits, metas))
    return {"forms": [s for s, _ in ATTR_FORMS], "refused_at_conversion": refused}


# ----------------------------------------------------------------------------- outside-forms

ALIENS = [("ellipsis", "...", "XEllipsis"), ("newaxis", "None", "XNewaxis"), ("bool", "True", "(XBool true)"),
          ("bool", "False", "(XBool false)"), ("float", "1.0", "(XFloat 1)"), ("float", "0.5", "(XFloat 0)"),
          ("str", "'a'", "XStr")]
BASE_KINDS = ["int", ":", "slice", "t0", "t1"]


def _base_comp(rng, kind, d):
    if kind == "int":
        v = rng.randint(-d, d - 1)
        return ("int", d - 1 if v == -1 else v)      # -1 through Slice + Squeeze fails anyway: keep the cases informative
    if kind == ":":
        return ("slice", None, None, None)
    if kind == "slice":
        return ("slice", rng.choice([None, 0, 1]), rng.choice([None, d, -1]), rng.choice([None, 1, -1]))
    if kind == "t0":
        return ("t0", rng.randint(-d, d - 1))
    return ("t1", [rng.randint(-d, d - 1) for _ in range(rng.randint(1, 2))])


def gen_outside(rng, thorough):
    """index tuples with one alien component (two in a few cases) at every position of every basic tuple of length <= 2"""
    bases = [()] + [(k,) for k in BASE_KINDS] + list(itertools.product(BASE_KINDS, repeat=2))
    for base in bases:
        for pos in range(len(base) + 1):
            for alien in ALIENS:
                if len(base) == 2 and not thorough and rng.random() < 0.72:
                    continue
                yield base, [(pos, alien)]
    pairs = list(itertools.product(ALIENS, repeat=2))
    for a, b in (pairs if thorough else rng.sample(pairs, 12)):
        yield ("int",), [(0, a), (2, b)]
        if thorough:
            yield ("slice",), [(0, a), (1, b)]
    # booleans on the Slice + Squeeze route in every arrangement with two more components (the converter's as-read defect)
    for base in itertools.product(["int", "slice", "t0"], repeat=2):
        for pos in range(3):
            yield base, [(pos, ALIENS[2 if rng.random() < 0.6 else 3])]


def c_xcomp(c11, c):
    return c[2] if c[0] == "alien" else f"(XC {c11.c_comp(c)})"


def run_outside(ctx, c11, runner, rng, thorough):
    import collections
    cases = []
    for base, aliens in gen_outside(rng, thorough):
        n = len(base) + len(aliens)
        comps = [None] * n
        for pos, a in aliens:
            comps[pos] = ("alien", a[1], a[2], a[0])
        rank = n + rng.choice([0, 0, 1])
        shape = tuple(rng.choice((2, 3, 4)) for _ in range(rank))
        it = iter(base)
        for j in range(n):
            if comps[j] is None:
                comps[j] = _base_comp(rng, next(it), shape[j])
        cases.append((shape, comps))
    # sources
    entries = []
    for shape, comps in cases:
        parts, vals = [], []
        for c in comps:
            if c[0] == "alien":
                parts.append(c[1])
            else:
                s, v = impl.expr_source((c,))
                for j in range(len(v)):
                    s = s.replace(f"a{j}", f"@{len(vals) + j}@")
                vals += v
                parts.append(s)
        src = ", ".join(parts)
        for j in range(len(vals)):
            src = src.replace(f"@{j}@", f"a{j}")
        entries.append((shape, comps, src, vals))
    forms = {}
    for _shape, _comps, src, vals in entries:
        forms.setdefault((src, len(vals)), None)
    keys = list(forms)
    for i in range(0, len(keys), 50):
        chunk = keys[i:i + 50]
        for k, (fn, err) in zip(chunk, impl.load_forms(chunk, runner.tmp)):
            forms[k] = (fn, impl.Graph(fn) if fn is not None else None, err)
    lits, metas = [], []
    outcomes = collections.Counter()
    for shape, comps, src, vals in entries:
        X = np.arange(int(np.prod(shape)), dtype=np.int64).reshape(shape)
        fn, g, err = forms[(src, len(vals))]
        o_np = impl.numpy_run(src, X, vals)
        if fn is None:
            og = oe = ("err", "refused: " + err)
        else:
            og = g.run(X, vals)
            oe = impl.eager_run(fn, X, vals)[0]
        kinds = tuple(c[3] if c[0] == "alien" else c[0] for c in comps)
        ctx.case(("outside-forms", kinds, len(shape)))
        np_rank = "None" if o_np[0] != "ok" else f"(Some {o_np[1].ndim}%nat)"
        lits.append(f"(mkxcase {clist(shape, cz)} {clist(comps, lambda c: c_xcomp(c11, c))} {np_rank} "
                    f"{c11.c_outcome(og)} {c11.c_outcome(oe)})")
        metas.append((shape, comps, src, vals, o_np, og, oe))
        for front, o in (("converter", og), ("eager", oe)):
            outcomes[(front, "ok" if o[0] == "ok" else "error", "np-ok" if o_np[0] == "ok" else "np-error")] += 1
    evals = ["xnp_agrees", "xgraph_agrees false", "xgraph_agrees true", "xeager_agrees false", "xeager_agrees true"]
    bodies, index = [], []
    for i in range(0, len(lits), 300):
        body = f"Definition cases : list xcase := {clist(lits[i:i + 300])}.\n"
        body += "".join(f"Eval vm_compute in (xfailing ({e}) 0 cases).\n" for e in evals)
        bodies.append(body)
        index.append(metas[i:i + 300])
    bad = {e: [] for e in evals}
    for ms, (ok, vals_, raw) in zip(index, c11._coq_shards(ctx, bodies, req=REQ_X)):
        if not ok or len(vals_) != len(evals):
            ctx.tie_broken("correspondence", "outside-forms:model-evaluation", raw[-1500:])
            continue
        for e, v in zip(evals, vals_):
            bad[e] += [ms[i] for i in common.parse_nat_list(v)]

    def show(m):
        shape, _comps, src, vals, o_np, og, oe = m
        f = lambda o: (o[1].tolist(), list(o[1].shape)) if o[0] == "ok" else "error: " + o[1][:70]
        return f"X[{src}] shape {tuple(shape)} tensors {[v.tolist() for v in vals]}: numpy {f(o_np)}, graph {f(og)}, eager {f(oe)}"

    n = len(lits)
    b = bad["xnp_agrees"]
    ctx.obligation(f"correspondence outside-forms: rank of NumPy's result = DynForms.np_x_rank on {n} cases", not b, show(b[0]) if b else "")
    if b:
        ctx.tie_broken("correspondence", "numpy-rank-spec", show(b[0]))
    variant = {}
    for front, e0, e1, names in (("converter", "xgraph_agrees false", "xgraph_agrees true", ("bool-literal-read-as-int", "bool-literal-refused")),
                                 ("eager", "xeager_agrees false", "xeager_agrees true", ("float-index-truncated", "non-integer-index-refused"))):
        # both variants agree when no discriminating case ran; as-read is listed first
        chosen = names[0] if not bad[e0] else (names[1] if not bad[e1] else None)
        variant[front] = chosen or "neither"
        ctx.obligation(f"correspondence outside-forms {front}: result = DynForms.run_{'conv' if front == 'converter' else 'eager'}_x on {n} cases "
                       f"(variant {variant[front]})", chosen is not None, "" if chosen else show(min(bad[e0], key=lambda m: len(m[1]))))
    # direct oracle: a form outside the supported ones fails, or returns NumPy's tensor
    seen = set()
    diff = collections.Counter()
    KEYS = {("converter", "bool"): "bool-literal-index-read-as-int", ("eager", "float"): "float-index-truncated-to-int"}
    for m in sorted(metas, key=lambda m: (len(m[1]), int(np.prod(m[0])), m[2])):
        shape, comps, src, vals, o_np, og, oe = m
        akinds = [c[3] for c in comps if c[0] == "alien"]
        for front, o in (("converter", og), ("eager", oe)):
            if o[0] != "ok" or (o_np[0] == "ok" and c11.same(o, o_np)):
                continue
            kind = next((k for k in akinds if (front, k) in KEYS), akinds[0])
            cls = KEYS.get((front, kind), f"outside-form-returns-different-tensor:{kind}")
            diff[(front, cls)] += 1
            key = f"C11:{front}:{cls}"
            if key in seen:
                continue
            seen.add(key)
            ctx.violation(key, f"{front}: the unsupported form X[{src}] on shape {tuple(shape)} (tensor-valued parts "
                               f"{[v.tolist() for v in vals]}) returns {o[1].tolist()} of shape {tuple(o[1].shape)} while NumPy "
                               + (f"returns {o_np[1].tolist()} of shape {tuple(o_np[1].shape)}" if o_np[0] == "ok" else f"raises {o_np[1]}"),
                          {"front": front, "stream": "outside-forms", "shape": list(shape), "source": f"X[{src}]",
                           "tensor_values": [v.tolist() for v in vals], "got": o[1].tolist()})
    for front, e0, e1 in (("converter", "xgraph_agrees false", "xgraph_agrees true"), ("eager", "xeager_agrees false", "xeager_agrees true")):
        if variant[front] == "neither":
            b = min((bad[e0], bad[e1]), key=len)
            ctx.tie_broken("correspondence", f"outside-forms:{front}", f"{len(b)} disagreeing cases; smallest: " + show(min(b, key=lambda m: len(m[1]))))
    return {"cases": n, "variant": variant, "outcomes": {f"{a}:{b_}:{c}": v for (a, b_, c), v in sorted(outcomes.items())},
            "different_tensor": {f"{a}:{b_}": v for (a, b_), v in sorted(diff.items())},
            "alien_components": sorted({a[1] for a in ALIENS})}


def run(ctx, c11, runner, state):
    """called by harness/c11.py before the Coq comparison of everything pending"""
    thorough = ctx.tier == "thorough"
    rng = ctx.rng
    c11.process(ctx, runner, list(gen_dyn_bounds(rng, thorough)), "dyn-bounds", state)
    run_expr_bounds(ctx, c11, runner, state)
    attr = run_attr_param(ctx, c11, runner, state, rng, thorough)
    outside = run_outside(ctx, c11, runner, rng, thorough)
    return {"attr_param": attr, "outside_forms": outside}
